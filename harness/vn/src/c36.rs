//! C36 — the pruner's window-edge search finds the newest header outside the window.
//!
//! Code under observation: the private `find_height_after_window` (+ `_fast` / `_slow`) of
//! node/src/pruner.rs through the pass-through hook `lumina_node::verif::find_height_after_window`
//! (fresh `Cache` per call), reading a real `InMemoryStore` filled with real signed headers.
//!
//! Headers: one honest chain, height h has time T0 + h * 1000 s (2020, far from any wall-clock
//! dependence; the hook takes the cutoff explicitly, `Time::now()` is not involved).
//!
//! Oracle = the property text. With S = stored heights, c = cutoff, answer r:
//!   Some(r): r in S, time(r) <= c, and no h in S with h > r and time(h) < c;
//!   None:    no h in S with time(h) < c.
//! A header whose time equals the cutoff may or may not be reported (the text allows both).
//! An `Err` (the store snapshot is exact, so every height the search may look at exists) or a
//! panic is a violation.
//!
//! Admissible previous answers. `Worker::update_cached_data` passes `cache.after_*_window`: the
//! maximum of its earlier answers, each computed for an earlier (<= current) cutoff on a store
//! that has since lost heights (pruner) and gained heights (syncer). By the text an earlier answer
//! p was correct for (S0, c0) when p in S0, time(p) <= c0 and nothing above p in S0 was older than
//! c0. As header times are a function of height (one chain), S0 = S ∪ {p}, c0 = time(p) shows that
//! every height p of the chain with time(p) <= c is admissible — whether or not p is still stored —
//! and nothing else is (time(p) <= c0 <= c is necessary). So prev ranges over {None} ∪ {p in 1..=N :
//! time(p) <= c}. Part (c) additionally replays worker-like histories (cutoff advancing, store
//! losing and gaining headers, prev = running maximum of the real function's own earlier answers).

use std::time::Duration;

use celestia_types::ExtendedHeader;
use lumina_node::block_ranges::BlockRanges;
use lumina_node::store::{InMemoryStore, Store};
use tendermint::Time;
use vcore::{Ctx, Rng, SliceRandom, guard, json, panic_site};
use vgen::chain::ChainGen;

const T0: i64 = 1_600_000_000;
const STEP_S: i128 = 1000;
const NS: i128 = 1_000_000_000;

/// Model time of height h, in ns relative to T0.
fn t(h: u64) -> i128 {
    h as i128 * STEP_S * NS
}

fn time_at(off_ns: i128) -> Time {
    let secs = T0 as i128 + off_ns.div_euclid(NS);
    let nanos = off_ns.rem_euclid(NS);
    Time::from_unix_timestamp(secs as i64, nanos as u32).expect("valid time")
}

/// All cutoff positions for a chain of n headers: between neighbours (incl. before the first and
/// after the last), exactly on a header time, and 1 ns to either side of it.
fn cutoffs(n: u64) -> Vec<i128> {
    let mut v = Vec::new();
    for h in 0..=n {
        v.push(t(h) + 500 * NS);
        if h >= 1 {
            v.push(t(h));
            v.push(t(h) - 1);
            v.push(t(h) + 1);
        }
    }
    v.sort();
    v
}

fn make_chain(ctx: &Ctx, n: u64) -> Vec<ExtendedHeader> {
    let mut g = ChainGen::new(ctx.rng(100, n), "private", 3, &[10], 1, time_at(t(1)), Duration::from_secs(STEP_S as u64));
    let hs = g.next_many(n);
    for (i, h) in hs.iter().enumerate() {
        assert_eq!(h.height(), i as u64 + 1);
        assert_eq!(h.time(), time_at(t(i as u64 + 1)), "generated header time differs from the model");
    }
    hs
}

#[derive(Default)]
struct Local {
    counts: std::collections::BTreeMap<String, u64>,
    evals: u64,
}

impl Local {
    fn c(&mut self, k: &str) {
        *self.counts.entry(k.to_string()).or_insert(0) += 1;
    }
    fn flush(self, ctx: &Ctx) {
        ctx.evals(self.evals);
        for (k, v) in self.counts {
            ctx.count_n(&k, v);
        }
    }
}

/// Stored heights as a sorted vector (model side).
fn heights_of(ranges: &BlockRanges) -> Vec<u64> {
    ranges.as_ref().iter().flat_map(|r| r.clone()).collect()
}

/// Build a store holding exactly `want` (sorted heights of `chain`). `by_removal`: insert the whole
/// chain and remove the rest (leaves pruned ranges behind, as the pruner does); otherwise insert
/// the contiguous runs bottom-up (each run is a new head range, which the constraints allow).
async fn build_store(chain: &[ExtendedHeader], want: &[u64], by_removal: bool, rng: &mut impl Rng) -> InMemoryStore {
    let store = InMemoryStore::new();
    if by_removal {
        store.insert(chain.to_vec()).await.expect("honest chain inserts");
        let mut gone: Vec<u64> = (1..=chain.len() as u64).filter(|h| !want.contains(h)).collect();
        gone.shuffle(rng);
        for h in gone {
            store.remove_height(h).await.expect("stored height can be removed");
        }
    } else {
        let mut i = 0;
        while i < want.len() {
            let mut j = i;
            while j + 1 < want.len() && want[j + 1] == want[j] + 1 {
                j += 1;
            }
            let run: Vec<ExtendedHeader> = (want[i]..=want[j]).map(|h| chain[h as usize - 1].clone()).collect();
            store.insert(run).await.expect("run above the head inserts");
            i = j + 1;
        }
    }
    store
}

struct Obs<'a> {
    ctx: &'a Ctx,
    rt: &'a tokio::runtime::Runtime,
    /// length of the chain the store was filled from (recorded for --replay)
    chain_len: u64,
}

impl Obs<'_> {
    /// Observe one call of the real search and judge it. Returns the answer if it was correct.
    fn call(
        &self,
        loc: &mut Local,
        store: &InMemoryStore,
        ranges: &BlockRanges,
        stored: &[u64],
        c: i128,
        prev: Option<u64>,
        part: &str,
    ) -> Option<Option<u64>> {
        loc.evals += 1;
        let cutoff = time_at(c);
        let pclass = match prev {
            None => "prev=none",
            Some(p) if stored.contains(&p) => "prev=stored",
            Some(_) => "prev=no-longer-stored",
        };
        let detail = |got: &str| {
            json!({"part": part, "stored": stored, "chain_len": self.chain_len, "header_time_s": "T0 + 1000*height", "cutoff_minus_T0_ns": c.to_string(),
                   "cutoff_minus_T0_s": c as f64 / 1e9, "prev": prev, "returned": got})
        };
        let res = guard(|| self.rt.block_on(lumina_node::verif::find_height_after_window(store, ranges, &cutoff, prev)));
        let got = match res {
            Err(p) => {
                self.ctx.violation(
                    &format!("C36/find_height_after_window/panic/{}", panic_site(&p)),
                    &format!("panicked: stored {stored:?}, cutoff T0+{}s, prev {prev:?}: {p}", c as f64 / 1e9),
                    detail("panic"),
                );
                return None;
            }
            Ok(Err(e)) => {
                self.ctx.violation(
                    &format!("C36/find_height_after_window/error/{pclass}"),
                    &format!("search failed on a consistent store: stored {stored:?}, cutoff T0+{}s, prev {prev:?}: {e}", c as f64 / 1e9),
                    detail(&format!("Err({e})")),
                );
                return None;
            }
            Ok(Ok(v)) => v,
        };
        let shown = format!("{got:?}");
        let mut ok = true;
        let mut bad = |kind: &str, msg: String| {
            ok = false;
            self.ctx.violation(
                &format!("C36/find_height_after_window/{kind}/{pclass}"),
                &format!("stored {stored:?} (time = T0+1000s*height), cutoff T0+{}s, prev {prev:?}: returned {shown}: {msg}", c as f64 / 1e9),
                detail(&shown),
            );
        };
        let tie = stored.iter().any(|h| t(*h) == c);
        // workload class (from the model, independent of what the code answered)
        let older = stored.iter().any(|h| t(*h) < c);
        loc.c(&format!("input_{pclass}_{}", if older { "older-header-exists" } else if tie { "only-a-tie-is-reportable" } else { "nothing-outside-window" }));
        if let Some(p) = prev {
            // does the edge lie above the previous answer now?
            let edge = stored.iter().rev().find(|h| t(**h) < c).copied();
            loc.c(match edge {
                Some(e) if e > p => "input_edge_moved_above_prev",
                Some(e) if e == p => "input_edge_still_at_prev",
                Some(_) => "input_edge_below_prev",
                None => "input_no_edge_with_prev",
            });
        }
        match got {
            Some(r) => {
                if !stored.contains(&r) {
                    bad("returns-height-not-stored", format!("{r} is not stored"));
                } else if t(r) > c {
                    bad("returns-height-inside-window", format!("header {r} is newer than the cutoff"));
                } else if let Some(h) = stored.iter().rev().find(|h| **h > r && t(**h) < c) {
                    bad("misses-newer-height-outside-window", format!("stored header {h} above {r} is older than the cutoff"));
                }
            }
            None => {
                if let Some(h) = stored.iter().rev().find(|h| t(**h) < c) {
                    bad("returns-nothing-although-older-exists", format!("stored header {h} is strictly older than the cutoff"));
                }
            }
        }
        loc.c(&format!("{pclass}_answer={}", if got.is_some() { "some" } else { "none" }));
        if tie {
            loc.c("cutoff_equals_a_stored_header_time");
            if got.is_some_and(|r| t(r) == c) {
                loc.c("tie_header_reported");
            } else {
                loc.c("tie_header_not_reported");
            }
        }
        match (prev, got) {
            (Some(p), Some(r)) if r == p => loc.c("answer_same_as_prev"),
            (Some(p), Some(r)) if r > p => loc.c("answer_above_prev"),
            (Some(_), Some(_)) => loc.c("answer_below_prev"),
            (Some(_), None) => loc.c("answer_none_with_prev"),
            _ => {}
        }
        ok.then_some(got)
    }
}

/// Random subset of 1..=n made of runs and gaps.
fn random_subset(rng: &mut impl Rng, n: u64) -> Vec<u64> {
    let mut v = Vec::new();
    let mut h = 1;
    let mut on = rng.gen_bool(0.5);
    while h <= n {
        let l = match rng.gen_range(0..4) {
            0 => 1,
            1 => rng.gen_range(1..4),
            _ => rng.gen_range(1..(n / 3).max(2)),
        };
        if on {
            v.extend(h..(h + l).min(n + 1));
        }
        h += l;
        on = !on;
    }
    v
}

pub fn run(ctx: &Ctx) {
    ctx.rule(
        "One honest signed chain, time(h) = T0 + 1000 s * h. (a) every stored subset of heights 1..=N (N = 10 \
         quick, 13 thorough; real InMemoryStore, built alternately by bottom-up insertion of runs and by \
         inserting everything and removing the rest) x every cutoff position (between neighbours, before \
         the first, after the last, exactly on each header time, 1 ns either side) x every admissible \
         previous answer ({None} ∪ every chain height with time <= cutoff, stored or no longer stored). \
         (b) random run/gap subsets of a 48-header chain with random cutoff positions and admissible prevs. \
         (c) worker-like histories: cutoff advances, store loses and gains headers, prev = running maximum \
         of the function's own earlier answers. Non-trivial = (stored set, cutoff) pair.",
    );
    ctx.assume("InMemoryStore returns the inserted headers by height (C19); header times come from vgen::chain::ChainGen and are asserted against the model");
    ctx.assume("admissible prev = any chain height with time <= cutoff (derivation in the module doc)");

    // --replay FILE: re-observe exactly the recorded witness
    if let Some(d) = ctx.replay.as_ref().map(|r| &r["detail"]) {
        let stored = vcore::serde_json::from_value::<Vec<u64>>(d["stored"].clone());
        let c = d["cutoff_minus_T0_ns"].as_str().and_then(|s| s.parse::<i128>().ok());
        let prev = vcore::serde_json::from_value::<Option<u64>>(d["prev"].clone());
        match (stored, c, prev, d["chain_len"].as_u64()) {
            (Ok(want), Some(c), Ok(prev), Some(len)) if len >= 1 && len <= 64 && want.iter().all(|h| *h >= 1 && *h <= len) => {
                let chain = make_chain(ctx, len);
                let rt = tokio::runtime::Builder::new_current_thread().build().expect("runtime");
                let obs = Obs { ctx, rt: &rt, chain_len: len };
                let mut loc = Local::default();
                let store = rt.block_on(build_store(&chain, &want, true, &mut ctx.rng(1, 0)));
                let ranges = rt.block_on(store.get_stored_header_ranges()).expect("ranges");
                obs.call(&mut loc, &store, &ranges, &want, c, prev, "replay");
                loc.flush(ctx);
            }
            _ => ctx.inconclusive("replay file carries no C36 witness"),
        }
        return;
    }

    let shards = ctx.cores();
    let n = ctx.scale(10u64, 13u64);
    let chain = make_chain(ctx, n);
    let cuts = cutoffs(n);

    // (a) exhaustive small universe
    ctx.par(shards, |shard| {
        let rt = tokio::runtime::Builder::new_current_thread().build().expect("runtime");
        let obs = Obs { ctx, rt: &rt, chain_len: n };
        let mut loc = Local::default();
        for mask in 0..(1u32 << n) {
            if mask as usize % shards != shard {
                continue;
            }
            let want: Vec<u64> = (1..=n).filter(|h| mask & (1 << (h - 1)) != 0).collect();
            let mut rng = ctx.rng(1, mask as u64);
            let by_removal = mask.count_ones() % 2 == 1;
            let store = rt.block_on(build_store(&chain, &want, by_removal, &mut rng));
            let ranges = rt.block_on(store.get_stored_header_ranges()).expect("ranges");
            if heights_of(&ranges) != want {
                ctx.inconclusive(&format!("harness: store holds {:?}, wanted {want:?}", heights_of(&ranges)));
                return;
            }
            for &c in &cuts {
                obs.call(&mut loc, &store, &ranges, &want, c, None, "a");
                for p in 1..=n {
                    if t(p) <= c {
                        obs.call(&mut loc, &store, &ranges, &want, c, Some(p), "a");
                    }
                }
                ctx.nontrivial(&("a", mask, c));
            }
            loc.c("small_universe_stores");
            loc.c(if by_removal { "stores_built_by_removal" } else { "stores_built_by_insertion" });
        }
        loc.flush(ctx);
    });
    ctx.extra("small_universe_exhaustive", json!({"heights": n, "cutoff_positions": cuts.len()}));

    // (b) random subsets of a longer chain
    let m = 48u64;
    let long = make_chain(ctx, m);
    let long_cuts = cutoffs(m);
    let stores_b = ctx.scale(2000u64, 40_000u64);
    ctx.par(shards, |shard| {
        let rt = tokio::runtime::Builder::new_current_thread().build().expect("runtime");
        let obs = Obs { ctx, rt: &rt, chain_len: m };
        let mut loc = Local::default();
        for case in (shard as u64..stores_b).step_by(shards) {
            let mut rng = ctx.rng(2, case);
            let want = random_subset(&mut rng, m);
            let store = rt.block_on(build_store(&long, &want, rng.gen_bool(0.5), &mut rng));
            let ranges = rt.block_on(store.get_stored_header_ranges()).expect("ranges");
            if heights_of(&ranges) != want {
                ctx.inconclusive("harness: random store differs from the wanted subset");
                return;
            }
            for k in 0..120 {
                let c = long_cuts[rng.gen_range(0..long_cuts.len())];
                let adm: Vec<u64> = (1..=m).filter(|p| t(*p) <= c).collect();
                let prev = if adm.is_empty() || rng.gen_range(0..5) == 0 {
                    None
                } else if rng.gen_bool(0.5) {
                    // near the edge: the interesting prevs
                    Some(adm[adm.len() - 1 - rng.gen_range(0..adm.len().min(4))])
                } else {
                    Some(adm[rng.gen_range(0..adm.len())])
                };
                let got = obs.call(&mut loc, &store, &ranges, &want, c, prev, "b");
                ctx.nontrivial(&("b", &want, c));
                if k == 0 {
                    ctx.sample(|| json!({"part": "b", "stored": format!("{:?}", ranges.as_ref()), "cutoff_minus_T0_s": c as f64 / 1e9, "prev": prev, "returned": format!("{got:?}")}));
                }
            }
            loc.c("random_stores");
        }
        loc.flush(ctx);
    });

    // (c) worker-like histories
    let hist = ctx.scale(5000u64, 120_000u64);
    ctx.par(shards, |shard| {
        let rt = tokio::runtime::Builder::new_current_thread().build().expect("runtime");
        let obs = Obs { ctx, rt: &rt, chain_len: m };
        let mut loc = Local::default();
        for case in (shard as u64..hist).step_by(shards) {
            let mut rng = ctx.rng(3, case);
            let mut want = random_subset(&mut rng, m);
            let store = rt.block_on(build_store(&long, &want, rng.gen_bool(0.5), &mut rng));
            let mut ci = rng.gen_range(0..long_cuts.len() / 2);
            let mut cache: Option<u64> = None; // Worker: cache.after_*_window
            for _step in 0..25 {
                // the store changes between two pruner iterations
                for _ in 0..rng.gen_range(0..4) {
                    if rng.gen_bool(0.6) && !want.is_empty() {
                        // pruner-like: remove near the cached edge, or anywhere
                        let h = match cache {
                            Some(p) if rng.gen_bool(0.6) => want.iter().copied().filter(|h| h.abs_diff(p) <= 2).next(),
                            _ => None,
                        }
                        .unwrap_or_else(|| want[rng.gen_range(0..want.len())]);
                        rt.block_on(store.remove_height(h)).expect("remove stored height");
                        want.retain(|x| *x != h);
                    } else {
                        // syncer-like: add a header adjacent to a stored one, or above the head
                        let cands: Vec<u64> = (1..=m)
                            .filter(|h| !want.contains(h))
                            .filter(|h| want.is_empty() || *h > *want.last().unwrap() || want.contains(&(h - 1)) || want.contains(&(h + 1)))
                            .collect();
                        if let Some(&h) = cands.choose(&mut rng) {
                            rt.block_on(store.insert(long[h as usize - 1].clone())).expect("insertable header");
                            want.push(h);
                            want.sort();
                        }
                    }
                }
                ci = (ci + rng.gen_range(0..6)).min(long_cuts.len() - 1);
                let c = long_cuts[ci];
                let ranges = rt.block_on(store.get_stored_header_ranges()).expect("ranges");
                if heights_of(&ranges) != want {
                    ctx.inconclusive("harness: history store differs from its shadow");
                    return;
                }
                let Some(got) = obs.call(&mut loc, &store, &ranges, &want, c, cache, "c") else {
                    break; // a wrong answer makes the next prev inadmissible: stop this history
                };
                if cache < got {
                    cache = got; // exactly what update_cached_data does
                }
                ctx.nontrivial(&("c", &want, c));
                loc.c("history_steps");
            }
            loc.c("histories");
        }
        loc.flush(ctx);
    });

    for (k, min) in [
        ("small_universe_stores", 1u64 << n),
        ("input_prev=none_older-header-exists", 1000),
        ("input_prev=none_nothing-outside-window", 1000),
        ("input_prev=stored_older-header-exists", 1000),
        ("input_prev=no-longer-stored_older-header-exists", 1000),
        ("input_prev=no-longer-stored_nothing-outside-window", 1000),
        ("input_edge_moved_above_prev", 1000),
        ("input_edge_still_at_prev", 1000),
        ("input_edge_below_prev", 1000),
        ("cutoff_equals_a_stored_header_time", 1000),
        ("history_steps", 2000),
    ] {
        ctx.floor(k, min);
    }
}
