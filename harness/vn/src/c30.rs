//! C30 — header-ex wire framing round-trips under any chunking.
//!
//! The real `HeaderCodec` (through `VHeaderCodec`) writes a request / a list of responses into a
//! buffer; the bytes are read back with the real `read_request` / `read_response` through an
//! `AsyncRead` controlled by the harness that hands out arbitrary chunk sizes, interleaves
//! `Poll::Pending` (waking immediately) and ends with EOF, an I/O error, or a stall (no more bytes,
//! no EOF: the codec's own read time limit - tokio virtual time - ends the read).
//!
//! Oracle (the written value is the ground truth):
//!   * whole stream + EOF                   => Ok(same value)
//!   * whole stream + stall                 => Ok(same value) or Err (never another value)
//!   * request cut at any byte              => Err
//!   * response stream cut at byte c        => Err, or Ok(exactly the messages wholly inside the
//!                                             first c bytes) - the codec's documented partial
//!                                             response; never anything else, never Ok([])
//!   * garbage / mutated encodings          => anything but a panic
//!
//! `read_up_to` measures its time limit with `std::time::Instant` (wall clock). A read that took
//! more than a quarter of the limit in wall time is discarded (counted), never judged.

use std::io;
use std::pin::Pin;
use std::task::{Context, Poll};
use std::time::{Duration, Instant};

use celestia_proto::p2p::pb::header_request::Data;
use celestia_proto::p2p::pb::{HeaderRequest, HeaderResponse};
use futures::io::{AsyncRead, Cursor};
use lumina_node::verif::header_ex::VHeaderCodec;
use prost::Message;
use tendermint_proto::Protobuf;
use vcore::{ChaCha8Rng, Ctx, Rng, SeedableRng, SliceRandom, guard, json, panic_site};
use vgen::chain::ChainGen;

const REQUEST_SIZE_LIMIT: usize = 1024;
const RESPONSE_SIZE_LIMIT: usize = 10 * 1024 * 1024;
const REQ_WALL_BUDGET: Duration = Duration::from_millis(250);
const RESP_WALL_BUDGET: Duration = Duration::from_millis(1250);

#[derive(Clone, Copy, Debug, PartialEq, Eq)]
enum End {
    Eof,
    Error,
    Stall,
}

#[derive(Clone, Copy, Debug)]
enum Chunking {
    Whole,
    Fixed(usize),
    Random(usize),
    /// mostly large chunks, for multi-megabyte streams
    Large,
}

struct ChunkReader {
    data: Vec<u8>,
    pos: usize,
    chunking: Chunking,
    pending_pct: u32,
    end: End,
    rng: ChaCha8Rng,
    reads: u64,
    pendings: u64,
    last_pending: bool,
}

impl ChunkReader {
    fn new(data: Vec<u8>, chunking: Chunking, pending_pct: u32, end: End, rng: ChaCha8Rng) -> Self {
        ChunkReader { data, pos: 0, chunking, pending_pct, end, rng, reads: 0, pendings: 0, last_pending: false }
    }
}

impl AsyncRead for ChunkReader {
    fn poll_read(mut self: Pin<&mut Self>, cx: &mut Context<'_>, buf: &mut [u8]) -> Poll<io::Result<usize>> {
        let me = &mut *self;
        if me.pos >= me.data.len() {
            return match me.end {
                End::Eof => Poll::Ready(Ok(0)),
                End::Error => Poll::Ready(Err(io::Error::new(io::ErrorKind::ConnectionReset, "harness: stream reset"))),
                // no wake-up: only the codec's own time limit can end this read
                End::Stall => Poll::Pending,
            };
        }
        // never two Pending in a row, so progress is guaranteed
        if !me.last_pending && me.rng.gen_range(0..100) < me.pending_pct {
            me.last_pending = true;
            me.pendings += 1;
            cx.waker().wake_by_ref();
            return Poll::Pending;
        }
        me.last_pending = false;
        let want = match me.chunking {
            Chunking::Whole => usize::MAX,
            Chunking::Fixed(n) => n,
            Chunking::Random(max) => me.rng.gen_range(1..=max),
            Chunking::Large => match me.rng.gen_range(0..10) {
                0 => me.rng.gen_range(1..64),
                _ => me.rng.gen_range(16 * 1024..512 * 1024),
            },
        };
        let n = want.min(buf.len()).min(me.data.len() - me.pos);
        buf[..n].copy_from_slice(&me.data[me.pos..me.pos + n]);
        me.pos += n;
        me.reads += 1;
        Poll::Ready(Ok(n))
    }
}

fn gen_chunking(rng: &mut impl Rng) -> Chunking {
    match rng.gen_range(0..8) {
        0 => Chunking::Whole,
        1 => Chunking::Fixed(1),
        2 => Chunking::Fixed(rng.gen_range(2..8)),
        3 => Chunking::Fixed(rng.gen_range(8..600)),
        4 => Chunking::Random(3),
        5 => Chunking::Random(17),
        6 => Chunking::Random(300),
        _ => Chunking::Random(5000),
    }
}

fn gen_pending(rng: &mut impl Rng) -> u32 {
    *[0u32, 0, 10, 30, 50, 90].choose(rng).unwrap()
}

struct Rt(tokio::runtime::Runtime);
impl Rt {
    fn new() -> Rt {
        Rt(tokio::runtime::Builder::new_current_thread().enable_time().start_paused(true).build().expect("runtime"))
    }
}

/// Outcome of one read through the real codec.
enum Read<T> {
    Val(io::Result<T>),
    Panic(String),
    /// wall-clock budget exceeded: the codec's std::time::Instant limit may have interfered
    Discard,
}

struct Stats {
    reads: u64,
    pendings: u64,
}

fn read_request(rt: &mut Rt, reader: ChunkReader) -> (Read<HeaderRequest>, Stats) {
    let mut reader = reader;
    let t = Instant::now();
    let r = guard(|| rt.0.block_on(async { VHeaderCodec::read_request(&mut reader).await }));
    let st = Stats { reads: reader.reads, pendings: reader.pendings };
    let wall = t.elapsed();
    match r {
        Err(p) => {
            *rt = Rt::new();
            (Read::Panic(p), st)
        }
        Ok(_) if wall > REQ_WALL_BUDGET => (Read::Discard, st),
        Ok(v) => (Read::Val(v), st),
    }
}

fn read_response(rt: &mut Rt, reader: ChunkReader) -> (Read<Vec<HeaderResponse>>, Stats) {
    let mut reader = reader;
    let t = Instant::now();
    let r = guard(|| rt.0.block_on(async { VHeaderCodec::read_response(&mut reader).await }));
    let st = Stats { reads: reader.reads, pendings: reader.pendings };
    let wall = t.elapsed();
    match r {
        Err(p) => {
            *rt = Rt::new();
            (Read::Panic(p), st)
        }
        Ok(_) if wall > RESP_WALL_BUDGET => (Read::Discard, st),
        Ok(v) => (Read::Val(v), st),
    }
}

fn write_request(rt: &mut Rt, req: &HeaderRequest) -> Result<io::Result<Vec<u8>>, String> {
    let req = req.clone();
    let r = guard(|| {
        rt.0.block_on(async {
            let mut io = Cursor::new(Vec::new());
            VHeaderCodec::write_request(&mut io, req).await.map(|_| io.into_inner())
        })
    });
    if r.is_err() {
        *rt = Rt::new();
    }
    r
}

fn write_response(rt: &mut Rt, resps: &[HeaderResponse]) -> Result<io::Result<Vec<u8>>, String> {
    let resps = resps.to_vec();
    let r = guard(|| {
        rt.0.block_on(async {
            let mut io = Cursor::new(Vec::new());
            VHeaderCodec::write_response(&mut io, resps).await.map(|_| io.into_inner())
        })
    });
    if r.is_err() {
        *rt = Rt::new();
    }
    r
}

// ---------------------------------------------------------------------------------------------
// generation

/// Requests whose encoding fits the request size limit (<= 1024 bytes including the delimiter).
fn gen_request(rng: &mut impl Rng) -> HeaderRequest {
    let amount = match rng.gen_range(0..4) {
        0 => 0,
        1 => 1,
        _ => vcore::edge_u64(rng),
    };
    let data = match rng.gen_range(0..10) {
        0 => None,
        1..=4 => Some(Data::Origin(vcore::edge_u64(rng))),
        5..=7 => Some(Data::Hash(vcore::rand_bytes(rng, 32))),
        8 => Some(Data::Hash(rb(rng, 0, 200))),
        // close to the limit; half of them start too large and are shrunk to exactly the limit
        _ => {
            let n = if rng.gen_bool(0.5) { 1100 } else { rng.gen_range(900..1007) };
            Some(Data::Hash(vcore::rand_bytes(rng, n)))
        }
    };
    let mut req = HeaderRequest { data, amount };
    // shrink until it fits
    while req.encode_length_delimited_to_vec().len() > REQUEST_SIZE_LIMIT {
        if let Some(Data::Hash(h)) = &mut req.data {
            h.pop();
        }
    }
    req
}

/// Random bytes of a random length in lo..hi.
fn rb(rng: &mut impl Rng, lo: usize, hi: usize) -> Vec<u8> {
    let n = rng.gen_range(lo..hi);
    vcore::rand_bytes(rng, n)
}

fn gen_status(rng: &mut impl Rng) -> i32 {
    match rng.gen_range(0..12) {
        0..=6 => 1,
        7 | 8 => 2,
        9 => 0,
        10 => rng.gen_range(3..300),
        _ => *[-1i32, i32::MIN, i32::MAX].choose(rng).unwrap(),
    }
}

fn gen_responses(rng: &mut impl Rng, bodies: &[Vec<u8>], small: bool) -> Vec<HeaderResponse> {
    let n = if small { rng.gen_range(1..=4) } else { rng.gen_range(1..=40) };
    (0..n)
        .map(|_| {
            let body = if small {
                match rng.gen_range(0..5) {
                    0 => vec![],
                    1 => rb(rng, 1, 4),
                    2 => rb(rng, 120, 136), // 1- vs 2-byte delimiter
                    _ => rb(rng, 0, 90),
                }
            } else {
                match rng.gen_range(0..10) {
                    0 => vec![],
                    1 => rb(rng, 0, 3000),
                    2 => rb(rng, 16_000, 17_000), // 2- vs 3-byte delimiter
                    _ => bodies.choose(rng).unwrap().clone(),
                }
            };
            HeaderResponse { body, status_code: gen_status(rng) }
        })
        .collect()
}

/// End offsets of each message inside the written stream (independent of prost's framing code:
/// own varint length computation).
fn varint_len(mut v: u64) -> usize {
    let mut n = 1;
    while v >= 0x80 {
        v >>= 7;
        n += 1;
    }
    n
}

fn message_ends(resps: &[HeaderResponse]) -> Vec<usize> {
    let mut ends = Vec::new();
    let mut pos = 0usize;
    for r in resps {
        // body: field 1 (bytes) omitted when empty; status: field 2 (varint, sign-extended to 64 bit) omitted when 0
        let mut l = 0usize;
        if !r.body.is_empty() {
            l += 1 + varint_len(r.body.len() as u64) + r.body.len();
        }
        if r.status_code != 0 {
            l += 1 + varint_len(r.status_code as i64 as u64);
        }
        pos += varint_len(l as u64) + l;
        ends.push(pos);
    }
    ends
}

fn resp_summary(v: &[HeaderResponse]) -> String {
    let mut s = format!("{} msg(s) [", v.len());
    for r in v.iter().take(6) {
        s.push_str(&format!("(status {}, body {}B #{:08x}) ", r.status_code, r.body.len(), vcore::hash64(&r.body) as u32));
    }
    s.push(']');
    s
}

fn req_summary(r: &HeaderRequest) -> String {
    match &r.data {
        None => format!("data=None amount={}", r.amount),
        Some(Data::Origin(o)) => format!("origin={o} amount={}", r.amount),
        Some(Data::Hash(h)) => format!("hash[{}B]={} amount={}", h.len(), vcore::hex(h), r.amount),
    }
}

struct Mon<'a> {
    ctx: &'a Ctx,
}

impl Mon<'_> {
    fn panic(&self, op: &str, p: &str, detail: vcore::Value) {
        self.ctx.violation(&format!("C30/{op}/panic/{}", panic_site(p)), &format!("{op} panicked: {p}"), detail);
    }

    /// One request: write, read back whole under several chunkings, then truncated.
    fn request_case(&self, rt: &mut Rt, rng: &mut ChaCha8Rng, req: &HeaderRequest, every_cut: bool) {
        let ctx = self.ctx;
        let bytes = match write_request(rt, req) {
            Err(p) => return self.panic("write_request", &p, json!({"request": req_summary(req)})),
            Ok(Err(e)) => {
                return ctx.violation("C30/write_request/error", &format!("writing a request into memory failed: {e}"), json!({"request": req_summary(req)}));
            }
            Ok(Ok(b)) => b,
        };
        if bytes.len() > REQUEST_SIZE_LIMIT {
            ctx.inconclusive("harness: generated request exceeds the request size limit");
            return;
        }
        if bytes.len() == REQUEST_SIZE_LIMIT {
            ctx.count("request/exactly-at-size-limit");
        }
        // whole stream
        for _ in 0..3 {
            let (chunking, pend) = (gen_chunking(rng), gen_pending(rng));
            let end = if rng.gen_range(0..6) == 0 { End::Stall } else { End::Eof };
            let sub = ChaCha8Rng::from_seed(rng.r#gen());
            let (out, st) = read_request(rt, ChunkReader::new(bytes.clone(), chunking, pend, end, sub));
            ctx.eval();
            let detail = || json!({"request": req_summary(req), "encoded": vcore::hex_full(&bytes), "chunking": format!("{chunking:?}"), "pending_pct": pend, "end": format!("{end:?}")});
            match out {
                Read::Discard => ctx.count("discarded/wall-clock-budget"),
                Read::Panic(p) => self.panic("read_request", &p, detail()),
                Read::Val(Ok(v)) if &v == req => {
                    ctx.count(&format!("request/roundtrip-ok/{end:?}"));
                    if st.reads > 1 {
                        ctx.count("request/roundtrip-ok/multi-chunk");
                    }
                    if st.pendings > 0 {
                        ctx.count("request/roundtrip-ok/with-pending");
                    }
                    ctx.nontrivial(&("req", &bytes, format!("{chunking:?}"), pend));
                }
                Read::Val(Ok(v)) => ctx.violation(
                    "C30/read_request/roundtrip-mismatch",
                    &format!("read back a different request: {}", req_summary(&v)),
                    detail(),
                ),
                Read::Val(Err(e)) if end == End::Stall => {
                    // a stream that is never closed: an error is tolerated, a wrong value is not
                    let _ = e;
                    ctx.count("request/stall-error-tolerated");
                }
                Read::Val(Err(e)) => ctx.violation(
                    "C30/read_request/roundtrip-error",
                    &format!("complete request stream was rejected: {e}"),
                    detail(),
                ),
            }
        }
        // truncated
        let cuts: Vec<usize> = if every_cut {
            (0..bytes.len()).collect()
        } else {
            let mut c: Vec<usize> = vec![0, 1.min(bytes.len() - 1), bytes.len() - 1, bytes.len().saturating_sub(2)];
            for _ in 0..6 {
                c.push(rng.gen_range(0..bytes.len()));
            }
            c.sort();
            c.dedup();
            c
        };
        for cut in cuts {
            let (chunking, pend) = (gen_chunking(rng), gen_pending(rng));
            let end = *[End::Eof, End::Eof, End::Eof, End::Error, End::Stall].choose(rng).unwrap();
            let sub = ChaCha8Rng::from_seed(rng.r#gen());
            let (out, _) = read_request(rt, ChunkReader::new(bytes[..cut].to_vec(), chunking, pend, end, sub));
            ctx.eval();
            let detail = || json!({"request": req_summary(req), "encoded": vcore::hex_full(&bytes), "delivered_bytes": cut, "chunking": format!("{chunking:?}"), "pending_pct": pend, "end": format!("{end:?}")});
            match out {
                Read::Discard => ctx.count("discarded/wall-clock-budget"),
                Read::Panic(p) => self.panic("read_request", &p, detail()),
                Read::Val(Err(_)) => {
                    ctx.count(&format!("request/truncated-rejected/{end:?}"));
                    ctx.nontrivial(&("req-cut", &bytes, cut));
                }
                Read::Val(Ok(v)) => ctx.violation(
                    "C30/read_request/truncated-accepted",
                    &format!("request cut after {cut} of {} bytes was accepted as {}", bytes.len(), req_summary(&v)),
                    detail(),
                ),
            }
        }
    }

    /// One response list.
    fn response_case(&self, rt: &mut Rt, rng: &mut ChaCha8Rng, resps: &[HeaderResponse], cuts: Cuts, big: bool) {
        let ctx = self.ctx;
        let bytes = match write_response(rt, resps) {
            Err(p) => return self.panic("write_response", &p, json!({"responses": resp_summary(resps)})),
            Ok(Err(e)) => {
                return ctx.violation("C30/write_response/error", &format!("writing responses into memory failed: {e}"), json!({"responses": resp_summary(resps)}));
            }
            Ok(Ok(b)) => b,
        };
        let ends = message_ends(resps);
        if *ends.last().unwrap() != bytes.len() {
            // the harness's framing arithmetic disagrees with what was written: report as a write problem
            // only if a reference encoding (prost, per message) agrees with the harness
            let reference: usize = resps.iter().map(|r| r.encode_length_delimited_to_vec().len()).sum();
            if reference == *ends.last().unwrap() {
                ctx.violation(
                    "C30/write_response/wrong-length",
                    &format!("{} bytes written for messages that encode to {} bytes", bytes.len(), reference),
                    json!({"responses": resp_summary(resps)}),
                );
            } else {
                ctx.inconclusive("harness: message_ends disagrees with prost's encoded length");
            }
            return;
        }
        if bytes.len() > RESPONSE_SIZE_LIMIT {
            ctx.inconclusive("harness: generated response list exceeds the size limit");
            return;
        }
        if bytes.len() == RESPONSE_SIZE_LIMIT {
            ctx.count("response/exactly-at-size-limit");
        }
        if bytes.len() > RESPONSE_SIZE_LIMIT / 2 {
            ctx.count("response/larger-than-half-limit");
        }
        let pick_chunking = |rng: &mut ChaCha8Rng| if big { if rng.gen_bool(0.2) { Chunking::Whole } else { Chunking::Large } } else { gen_chunking(rng) };
        // whole stream
        for _ in 0..if big { 2 } else { 3 } {
            let (chunking, pend) = (pick_chunking(rng), gen_pending(rng));
            let end = if rng.gen_range(0..6) == 0 { End::Stall } else { End::Eof };
            let sub = ChaCha8Rng::from_seed(rng.r#gen());
            let (out, st) = read_response(rt, ChunkReader::new(bytes.clone(), chunking, pend, end, sub));
            ctx.eval();
            let detail = || json!({"responses": resp_summary(resps), "stream_len": bytes.len(), "chunking": format!("{chunking:?}"), "pending_pct": pend, "end": format!("{end:?}")});
            match out {
                Read::Discard => ctx.count("discarded/wall-clock-budget"),
                Read::Panic(p) => self.panic("read_response", &p, detail()),
                Read::Val(Ok(v)) if v == resps => {
                    ctx.count(&format!("response/roundtrip-ok/{end:?}"));
                    if st.reads > 1 {
                        ctx.count("response/roundtrip-ok/multi-chunk");
                    }
                    if st.pendings > 0 {
                        ctx.count("response/roundtrip-ok/with-pending");
                    }
                    ctx.count_n("response/messages-roundtripped", v.len() as u64);
                    ctx.nontrivial(&("resp", vcore::hash64(&bytes), format!("{chunking:?}"), pend));
                    ctx.sample(|| detail());
                }
                Read::Val(Ok(v)) => ctx.violation(
                    "C30/read_response/roundtrip-mismatch",
                    &format!("read back different responses: {}", resp_summary(&v)),
                    detail(),
                ),
                Read::Val(Err(_)) if end == End::Stall => ctx.count("response/stall-error-tolerated"),
                Read::Val(Err(e)) => ctx.violation(
                    "C30/read_response/roundtrip-error",
                    &format!("complete response stream was rejected: {e}"),
                    detail(),
                ),
            }
        }
        // truncated
        let cut_list: Vec<usize> = match cuts {
            Cuts::Every => (0..bytes.len()).collect(),
            Cuts::Boundaries(extra) => {
                let mut c = vec![0usize];
                for e in &ends {
                    for d in -2i64..=2 {
                        let x = *e as i64 + d;
                        if x >= 0 && (x as usize) < bytes.len() {
                            c.push(x as usize);
                        }
                    }
                }
                for _ in 0..extra {
                    c.push(rng.gen_range(0..bytes.len()));
                }
                c.sort();
                c.dedup();
                c
            }
        };
        for cut in cut_list {
            let (chunking, pend) = (pick_chunking(rng), gen_pending(rng));
            let end = *[End::Eof, End::Eof, End::Eof, End::Error, End::Stall].choose(rng).unwrap();
            let sub = ChaCha8Rng::from_seed(rng.r#gen());
            let (out, _) = read_response(rt, ChunkReader::new(bytes[..cut].to_vec(), chunking, pend, end, sub));
            ctx.eval();
            let k = ends.iter().filter(|e| **e <= cut).count();
            let detail = || json!({"responses": resp_summary(resps), "message_end_offsets": ends.iter().take(12).collect::<Vec<_>>(), "stream_len": bytes.len(), "delivered_bytes": cut, "whole_messages_delivered": k, "chunking": format!("{chunking:?}"), "pending_pct": pend, "end": format!("{end:?}")});
            match out {
                Read::Discard => ctx.count("discarded/wall-clock-budget"),
                Read::Panic(p) => self.panic("read_response", &p, detail()),
                Read::Val(Err(_)) => {
                    ctx.count(if k == 0 { "response/truncated-rejected/no-whole-message" } else { "response/truncated-rejected/despite-whole-messages" });
                    ctx.nontrivial(&("resp-cut", vcore::hash64(&bytes), cut));
                }
                Read::Val(Ok(v)) if v.is_empty() => ctx.violation(
                    "C30/read_response/truncated-empty-ok",
                    "truncated response stream produced Ok(empty list) instead of an error",
                    detail(),
                ),
                Read::Val(Ok(v)) if k > 0 && v == resps[..k] => {
                    ctx.count("response/truncated-partial-prefix");
                    if ends[k - 1] != cut {
                        ctx.count("response/truncated-partial-prefix/cut-inside-next-message");
                    }
                    ctx.nontrivial(&("resp-cut", vcore::hash64(&bytes), cut));
                }
                Read::Val(Ok(v)) => {
                    let kind = if v.len() > k {
                        "more-messages-than-delivered"
                    } else if v.len() <= resps.len() && v == resps[..v.len()] {
                        "shorter-prefix-than-delivered"
                    } else {
                        "not-a-prefix"
                    };
                    ctx.violation(
                        &format!("C30/read_response/truncated-wrong-value/{kind}"),
                        &format!("stream cut after {cut} of {} bytes ({k} whole messages) produced {}", bytes.len(), resp_summary(&v)),
                        detail(),
                    )
                }
            }
        }
    }

    fn garbage_case(&self, rt: &mut Rt, rng: &mut ChaCha8Rng, seed_bytes: &[u8], as_request: bool) {
        let ctx = self.ctx;
        let mut data = if rng.gen_bool(0.3) { rb(rng, 0, 1500) } else { seed_bytes.to_vec() };
        let mut how = vec!["random"];
        if data == seed_bytes {
            how.clear();
            for _ in 0..rng.gen_range(1..4) {
                how.push(vcore::mutate_bytes(rng, &mut data));
            }
        }
        let (chunking, pend) = (gen_chunking(rng), gen_pending(rng));
        let end = *[End::Eof, End::Eof, End::Error, End::Stall].choose(rng).unwrap();
        let sub = ChaCha8Rng::from_seed(rng.r#gen());
        let reader = ChunkReader::new(data.clone(), chunking, pend, end, sub);
        ctx.eval();
        let detail = || json!({"bytes": vcore::hex_full(&data[..data.len().min(4096)]), "len": data.len(), "mutation": how, "chunking": format!("{chunking:?}"), "end": format!("{end:?}")});
        if as_request {
            match read_request(rt, reader).0 {
                Read::Panic(p) => self.panic("read_request", &p, detail()),
                Read::Val(Ok(_)) => ctx.count("garbage/request/value"),
                Read::Val(Err(_)) => ctx.count("garbage/request/error"),
                Read::Discard => ctx.count("discarded/wall-clock-budget"),
            }
        } else {
            match read_response(rt, reader).0 {
                Read::Panic(p) => self.panic("read_response", &p, detail()),
                Read::Val(Ok(_)) => ctx.count("garbage/response/value"),
                Read::Val(Err(_)) => ctx.count("garbage/response/error"),
                Read::Discard => ctx.count("discarded/wall-clock-budget"),
            }
        }
        ctx.nontrivial(&("garbage", &data, as_request));
    }
}

#[derive(Clone, Copy)]
enum Cuts {
    Every,
    Boundaries(usize),
}

/// Response lists filling the size limit (thorough only).
fn gen_big(rng: &mut impl Rng, which: u64) -> Vec<HeaderResponse> {
    let limit = RESPONSE_SIZE_LIMIT;
    // framing overhead of one message with non-empty body of len b and status 1:
    // delimiter + (1 + varint(b) + b) + 2
    let single = |total: usize| -> Vec<HeaderResponse> {
        // find body length whose framed size is exactly `total`
        let mut b = total - 12;
        for _ in 0..64 {
            let r = HeaderResponse { body: vec![0; b], status_code: 1 };
            let l = message_ends(std::slice::from_ref(&r))[0];
            if l == total {
                return vec![r];
            }
            if l > total {
                b -= 1;
            } else {
                b += 1;
            }
        }
        // no exact fit (delimiter width boundary): stay below
        vec![HeaderResponse { body: vec![0; total - 16], status_code: 1 }]
    };
    let mut v = match which % 4 {
        0 => single(limit),
        1 => single(limit - 1),
        2 => {
            // 40 messages filling the limit exactly
            let mut v: Vec<HeaderResponse> = (0..39).map(|_| HeaderResponse { body: vec![0; rng.gen_range(200_000..260_000)], status_code: gen_status(rng) }).collect();
            let used = *message_ends(&v).last().unwrap();
            v.extend(single(limit - used));
            v
        }
        _ => {
            let n = rng.gen_range(2..20);
            let per = (limit - rng.gen_range(0..100_000)) / n - 16;
            (0..n).map(|_| HeaderResponse { body: vec![0; per], status_code: gen_status(rng) }).collect()
        }
    };
    for r in v.iter_mut() {
        // cheap non-constant content
        let mut x: u64 = rng.r#gen();
        for c in r.body.chunks_mut(4096) {
            x = x.wrapping_mul(6364136223846793005).wrapping_add(1442695040888963407);
            c[0] = (x >> 33) as u8;
        }
    }
    v
}

pub fn run(ctx: &Ctx) {
    ctx.rule(
        "Requests: random HeaderRequest (data none/origin/hash of 0..1006 bytes, boundary amounts; encodings up to \
         exactly the 1024-byte limit). Response lists: 1..40 messages with real encoded ExtendedHeaders, empty, random and \
         delimiter-width-boundary bodies, status codes incl. unknown/negative; small lists (1..4 short messages) for \
         every-byte truncation; thorough adds lists filling the 10 MiB limit (exactly, limit-1, 40 messages, few huge). \
         Each stream is written by the real codec and read back (a) whole, 2-3 times, under chunkings {whole, 1, 2..7, \
         8..600 fixed, random<=3/17/300/5000} with 0..90 % interleaved Pending and EOF or a stall at the end, (b) cut \
         at every byte (requests and small lists) or at every message boundary ±2 plus random offsets, ended by EOF / \
         I/O error / stall, (c) as garbage: random bytes and 1..3 byte-level mutations of valid streams. \
         Non-trivial = a read whose result was compared with the written value; distinct by (stream, chunking or cut).",
    );
    ctx.assume("the value handed to write_* is the ground truth; message boundaries are computed by the harness's own varint arithmetic (cross-checked against the stream length)");
    ctx.assume("requests/response lists larger than the size limits and empty response lists are outside the statement (not generated)");
    ctx.assume("tokio paused clock: Pending+wake never advances time, a stalled stream is ended by the codec's own timeout in virtual time; reads slower than 1/4 of the wall-clock limit measured by read_up_to (std Instant) are discarded, not judged");

    // real header bodies
    let mut cg = ChainGen::new(
        ctx.rng(0, 1),
        "c30-chain",
        3,
        &[5, 7, 9],
        10,
        ChainGen::start_time_for(8, Duration::from_secs(6), Duration::from_secs(3600)),
        Duration::from_secs(6),
    );
    let bodies: Vec<Vec<u8>> = cg.next_many(8).into_iter().map(|h| h.encode_vec()).collect();

    let shards = ctx.cores();
    // every response read costs ~0.7 ms: read_up_to zero-fills a 10 MiB buffer per call
    let n_req = ctx.scale3(6u64, 400, 6000);
    let n_small = ctx.scale3(4u64, 64, 1600);
    let n_lists = ctx.scale3(2u64, 72, 1800);
    let n_garbage = ctx.scale3(20u64, 2000, 40_000);
    let n_big = ctx.scale3(0u64, 0, 32);
    ctx.par(shards, |shard| {
        let mon = Mon { ctx };
        let mut rt = Rt::new();
        for case in (shard as u64..n_req).step_by(shards) {
            let mut rng = ctx.rng(1, case);
            let req = gen_request(&mut rng);
            // every-byte truncation for all but the largest requests in quick
            let every = ctx.quick() && req.encode_length_delimited_to_vec().len() <= 200 || !ctx.quick() || case % 8 == 0;
            mon.request_case(&mut rt, &mut rng, &req, every);
            ctx.count("cases/request");
        }
        for case in (shard as u64..n_small).step_by(shards) {
            let mut rng = ctx.rng(2, case);
            let resps = gen_responses(&mut rng, &bodies, true);
            mon.response_case(&mut rt, &mut rng, &resps, Cuts::Every, false);
            ctx.count("cases/response-small-every-byte");
        }
        for case in (shard as u64..n_lists).step_by(shards) {
            let mut rng = ctx.rng(3, case);
            let resps = gen_responses(&mut rng, &bodies, false);
            mon.response_case(&mut rt, &mut rng, &resps, Cuts::Boundaries(10), false);
            ctx.count("cases/response-list");
        }
        for case in (shard as u64..n_garbage).step_by(shards) {
            let mut rng = ctx.rng(4, case);
            let as_request = rng.gen_bool(0.7);
            let seed = if as_request {
                gen_request(&mut rng).encode_length_delimited_to_vec()
            } else {
                let small = rng.gen_bool(0.5);
                let v = gen_responses(&mut rng, &bodies, small);
                let mut b = Vec::new();
                for r in v.iter().take(5) {
                    b.extend(r.encode_length_delimited_to_vec());
                }
                b
            };
            mon.garbage_case(&mut rt, &mut rng, &seed, as_request);
        }
        for case in (shard as u64..n_big).step_by(shards) {
            let mut rng = ctx.rng(5, case);
            let resps = gen_big(&mut rng, case);
            mon.response_case(&mut rt, &mut rng, &resps, Cuts::Boundaries(4), true);
            ctx.count("cases/response-at-size-limit");
        }
    });

    // coverage floors guard against a vacuous pass; once a violation is recorded the verdict is
    // 'violated' and must not be masked by a floor the defect itself may have starved
    if !ctx.tiny() && ctx.violation_count() == 0 {
        for (name, min) in [
            ("request/roundtrip-ok/Eof", 500),
            ("request/roundtrip-ok/multi-chunk", 300),
            ("request/roundtrip-ok/with-pending", 200),
            ("request/truncated-rejected/Eof", 2000),
            ("request/truncated-rejected/Stall", 500),
            ("request/exactly-at-size-limit", 5),
            ("response/roundtrip-ok/Eof", 300),
            ("response/roundtrip-ok/multi-chunk", 200),
            ("response/roundtrip-ok/with-pending", 150),
            ("response/truncated-partial-prefix", 2000),
            ("response/truncated-partial-prefix/cut-inside-next-message", 1000),
            ("response/truncated-rejected/no-whole-message", 500),
            ("garbage/request/error", 200),
            ("garbage/response/error", 200),
        ] {
            ctx.floor(name, min);
        }
        if !ctx.quick() {
            ctx.floor("response/exactly-at-size-limit", 8);
        }
        // at most 5 % of the reads may be lost to the wall-clock guard
        if ctx.counter("discarded/wall-clock-budget") * 20 > ctx.evaluations() {
            ctx.inconclusive("too many reads exceeded the wall-clock budget (machine overloaded?)");
        }
    }
}
