//! C29 — the header-ex server answers every request correctly without crashing.
//!
//! The real `HeaderExServerHandler` (through `VHeaderExServer`: real `on_request_received`, real
//! `poll`, recording `ResponseSender`) serves an `InMemoryStore` filled with islands of one honest
//! chain. For every request the recorded answer is compared with the answer the property text
//! prescribes, computed from the *set of stored heights* kept by the harness (BTreeSet model):
//!
//! * head request            -> the stored head, or a single not-found when the store is empty
//! * height request          -> the longest run of consecutive stored headers starting at `origin`,
//!                              capped at min(amount, 512); a single not-found when that is empty
//! * hash request            -> that header, or a single not-found
//! * invalid request         -> a single response with status INVALID
//! * exactly one response per request, no panic in `on_request_received` / `poll`.
//!
//! Requests the text does not classify unambiguously (amount 0, head request with amount > 1,
//! hash of the wrong length, hash with amount != 1) are accepted with either reading.

use std::collections::{BTreeSet, HashMap};
use std::sync::Arc;
use std::sync::atomic::{AtomicBool, Ordering};
use std::task::{Context, Poll, Wake, Waker};

use celestia_proto::p2p::pb::header_request::Data;
use celestia_proto::p2p::pb::{HeaderRequest, HeaderResponse};
use celestia_types::ExtendedHeader;
use libp2p::PeerId;
use lumina_node::store::{InMemoryStore, Store, VerifiedExtendedHeaders};
use lumina_node::verif::header_ex::VHeaderExServer;
use tendermint_proto::Protobuf;
use vcore::{Ctx, Rng, SliceRandom, guard, json, panic_site};
use vgen::chain::ChainGen;

const CAP: u64 = 512;
const ST_INVALID: i32 = 0;
const ST_OK: i32 = 1;
const ST_NOT_FOUND: i32 = 2;

/// Wake flag: tells whether anything asked to be polled again.
struct Flag(AtomicBool);
impl Wake for Flag {
    fn wake(self: Arc<Self>) {
        self.0.store(true, Ordering::SeqCst);
    }
    fn wake_by_ref(self: &Arc<Self>) {
        self.0.store(true, Ordering::SeqCst);
    }
}

/// Drive a future that never really waits (InMemoryStore) to completion on this thread.
fn now<F: std::future::Future>(f: F) -> F::Output {
    let flag = Arc::new(Flag(AtomicBool::new(false)));
    let waker = Waker::from(flag);
    let mut cx = Context::from_waker(&waker);
    let mut f = std::pin::pin!(f);
    for _ in 0..1_000_000 {
        if let Poll::Ready(v) = f.as_mut().poll(&mut cx) {
            return v;
        }
    }
    panic!("harness: store future did not complete");
}

struct World {
    chain: Vec<ExtendedHeader>, // chain[i] has height i + 1
    by_hash: HashMap<Vec<u8>, u64>,
}

impl World {
    fn header(&self, h: u64) -> &ExtendedHeader {
        &self.chain[(h - 1) as usize]
    }
    fn n(&self) -> u64 {
        self.chain.len() as u64
    }
}

/// What the text allows as the answer.
#[derive(Clone, Debug, PartialEq, Eq)]
enum Exp {
    Invalid,
    NotFound,
    Headers(Vec<u64>),
}

#[derive(Clone, Copy, Debug, PartialEq, Eq, Hash)]
enum Class {
    Head,
    Height,
    Hash,
    Invalid,
    Ambiguous,
}

impl Class {
    fn name(self) -> &'static str {
        match self {
            Class::Head => "head-request",
            Class::Height => "height-request",
            Class::Hash => "hash-request",
            Class::Invalid => "invalid-request",
            Class::Ambiguous => "ambiguous-request",
        }
    }
}

fn run_from(stored: &BTreeSet<u64>, origin: u64, amount: u64) -> Vec<u64> {
    let cap = amount.min(CAP);
    let mut v = Vec::new();
    let mut h = origin as u128;
    while (v.len() as u64) < cap && h <= u64::MAX as u128 && stored.contains(&(h as u64)) {
        v.push(h as u64);
        h += 1;
    }
    v
}

fn head_answer(stored: &BTreeSet<u64>) -> Exp {
    match stored.iter().next_back() {
        Some(h) => Exp::Headers(vec![*h]),
        None => Exp::NotFound,
    }
}

fn height_answer(stored: &BTreeSet<u64>, origin: u64, amount: u64) -> Exp {
    let run = run_from(stored, origin, amount);
    if run.is_empty() { Exp::NotFound } else { Exp::Headers(run) }
}

fn hash_answer(w: &World, stored: &BTreeSet<u64>, hash: &[u8]) -> Exp {
    match w.by_hash.get(hash) {
        Some(h) if stored.contains(h) => Exp::Headers(vec![*h]),
        _ => Exp::NotFound,
    }
}

/// Request class and the set of answers the property text allows.
fn model(w: &World, stored: &BTreeSet<u64>, req: &HeaderRequest) -> (Class, Vec<Exp>) {
    match (&req.data, req.amount) {
        (None, _) => (Class::Invalid, vec![Exp::Invalid]),
        // head request
        (Some(Data::Origin(0)), 1) => (Class::Head, vec![head_answer(stored)]),
        (Some(Data::Origin(0)), _) => (Class::Ambiguous, vec![Exp::Invalid, head_answer(stored)]),
        // height request
        (Some(Data::Origin(_)), 0) => (Class::Ambiguous, vec![Exp::Invalid, Exp::NotFound]),
        (Some(Data::Origin(o)), a) => (Class::Height, vec![height_answer(stored, *o, a)]),
        // hash request
        (Some(Data::Hash(h)), 1) if h.len() == 32 => (Class::Hash, vec![hash_answer(w, stored, h)]),
        (Some(Data::Hash(h)), _) => (Class::Ambiguous, vec![Exp::Invalid, hash_answer(w, stored, h)]),
    }
}

/// Compare a recorded answer with one allowed answer. Ok or a coarse mismatch kind.
fn matches(w: &World, stored: &BTreeSet<u64>, req: &HeaderRequest, got: &[HeaderResponse], exp: &Exp) -> Result<(), &'static str> {
    match exp {
        Exp::Invalid | Exp::NotFound => {
            let want = if *exp == Exp::Invalid { ST_INVALID } else { ST_NOT_FOUND };
            if got.len() != 1 {
                return Err(if got.is_empty() { "empty-response-list" } else { "headers-instead-of-single-status" });
            }
            if got[0].status_code != want {
                return Err("wrong-status");
            }
            Ok(())
        }
        Exp::Headers(hs) => {
            if got.len() as u64 > CAP {
                return Err("more-than-512-headers");
            }
            if got.len() > hs.len() {
                // longer than the text allows: which bound was broken?
                let amount_broken = got.len() as u64 > req.amount;
                return Err(if amount_broken { "more-than-amount" } else { "run-continues-past-gap" });
            }
            if got.iter().any(|r| r.status_code != ST_OK) {
                return Err("wrong-status");
            }
            for (r, h) in got.iter().zip(hs) {
                match ExtendedHeader::decode(&r.body[..]) {
                    Ok(d) if &d == w.header(*h) && stored.contains(h) => {}
                    Ok(_) => return Err("wrong-header"),
                    Err(_) => return Err("undecodable-body"),
                }
            }
            if got.len() < hs.len() {
                return Err("run-shorter-than-stored");
            }
            Ok(())
        }
    }
}

enum Outcome {
    Responses(Vec<Vec<HeaderResponse>>), // every response list recorded for the tag
    Panic(String),
}

/// Submit `reqs` to one server instance, drive `poll` until nothing can make progress.
/// Returns per request outcome, or Err(panic) if anything panicked (caller then isolates).
fn drive(store: &Arc<InMemoryStore>, reqs: &[HeaderRequest], rng: &mut impl Rng) -> Result<Vec<Vec<Vec<HeaderResponse>>>, String> {
    let flag = Arc::new(Flag(AtomicBool::new(false)));
    let waker = Waker::from(flag.clone());
    let mut cx = Context::from_waker(&waker);
    let mut server = std::mem::ManuallyDrop::new(VHeaderExServer::new(store.clone()));
    let mut got: Vec<Vec<Vec<HeaderResponse>>> = vec![Vec::new(); reqs.len()];
    let mut unknown_tag = false;
    let peer = PeerId::random_with(rng);
    let res = guard(|| {
        let mut collect = |server: &mut VHeaderExServer<InMemoryStore>| {
            for (tag, resp) in server.take_responses() {
                match got.get_mut(tag as usize) {
                    Some(slot) => slot.push(resp),
                    None => unknown_tag = true,
                }
            }
        };
        for (i, r) in reqs.iter().enumerate() {
            server.on_request_received(peer, r.clone(), i as u64);
            // sometimes poll between submissions
            if i % 3 == 1 {
                let _ = server.poll(&mut cx);
            }
        }
        collect(&mut server);
        // closed system: no timers, no other tasks. Pending without a wake = will never progress.
        for _ in 0..(reqs.len() * 4 + 64) {
            flag.0.store(false, Ordering::SeqCst);
            let p = server.poll(&mut cx);
            collect(&mut server);
            if p.is_pending() && !flag.0.load(Ordering::SeqCst) {
                break;
            }
        }
    });
    // dropping a handler whose task panicked must not take the harness down
    let _ = guard(move || unsafe { std::mem::ManuallyDrop::drop(&mut server) });
    res?;
    if unknown_tag {
        return Err("harness: response for a tag that was never submitted".into());
    }
    Ok(got)
}

trait PeerIdExt {
    fn random_with(rng: &mut impl Rng) -> PeerId;
}
impl PeerIdExt for PeerId {
    fn random_with(rng: &mut impl Rng) -> PeerId {
        let mut seed = [0u8; 32];
        rng.fill_bytes(&mut seed);
        let kp = libp2p::identity::Keypair::ed25519_from_bytes(seed).expect("32 bytes");
        kp.public().to_peer_id()
    }
}

fn run_requests(store: &Arc<InMemoryStore>, reqs: &[HeaderRequest], rng: &mut impl Rng) -> Vec<Outcome> {
    match drive(store, reqs, rng) {
        Ok(v) => v.into_iter().map(Outcome::Responses).collect(),
        Err(_) => {
            // something in the batch panicked: isolate by running each request on its own server
            reqs.iter()
                .map(|r| match drive(store, std::slice::from_ref(r), rng) {
                    Ok(mut v) => Outcome::Responses(v.pop().unwrap()),
                    Err(p) => Outcome::Panic(p),
                })
                .collect()
        }
    }
}

// ---------------------------------------------------------------------------------------------
// generation

/// Islands of stored heights inside 1..=n.
fn gen_islands(rng: &mut impl Rng, n: u64) -> Vec<(u64, u64)> {
    match rng.gen_range(0..10) {
        0 => vec![],
        1 => vec![(1, n)],
        2 => {
            // one long island (> 513) not starting at 1
            let a = rng.gen_range(2..=n - 520);
            let b = rng.gen_range(a + 513..=n);
            vec![(a, b)]
        }
        3 => {
            // long island and a short one above a 1-height gap
            let a = rng.gen_range(1..40);
            let b = a + rng.gen_range(510..=515);
            vec![(a, b), (b + 2, (b + 2 + rng.gen_range(0..30)).min(n))]
        }
        4 => {
            let h = rng.gen_range(1..=n);
            vec![(h, h)]
        }
        _ => {
            let mut v = Vec::new();
            let mut pos = rng.gen_range(1..6);
            while pos <= n && v.len() < 12 {
                let len = match rng.gen_range(0..5) {
                    0 => 1,
                    1 => rng.gen_range(1..5),
                    2 => rng.gen_range(1..80),
                    3 => rng.gen_range(500..530),
                    _ => rng.gen_range(1..300),
                };
                let b = (pos + len - 1).min(n);
                v.push((pos, b));
                pos = b + 1 + match rng.gen_range(0..3) {
                    0 => 1,
                    1 => rng.gen_range(1..4),
                    _ => rng.gen_range(1..120),
                };
            }
            v
        }
    }
}

/// Build the store: islands inserted bottom-up (each above the head), then extra holes punched
/// with `remove_height`. Returns the store and the harness's own record of what is stored.
fn build_store(w: &World, rng: &mut impl Rng) -> (InMemoryStore, BTreeSet<u64>, &'static str) {
    let islands = gen_islands(rng, w.n());
    let store = InMemoryStore::new();
    let mut stored = BTreeSet::new();
    for (a, b) in &islands {
        let hs: Vec<ExtendedHeader> = (*a..=*b).map(|h| w.header(h).clone()).collect();
        // honest, consecutive slice of the honest chain: verified by construction
        let v = unsafe { VerifiedExtendedHeaders::new_unchecked(hs) };
        now(store.insert(v)).expect("harness: inserting an island above the head");
        stored.extend(*a..=*b);
    }
    let mut how = "islands";
    if !stored.is_empty() && rng.gen_bool(0.5) {
        how = "islands+remove_height";
        let k = rng.gen_range(1..8);
        for _ in 0..k {
            let all: Vec<u64> = stored.iter().copied().collect();
            if all.is_empty() {
                break;
            }
            let h = *all.choose(rng).unwrap();
            let len = if rng.gen_bool(0.6) { 1 } else { rng.gen_range(1..6) };
            for x in h..h + len {
                if stored.remove(&x) {
                    now(store.remove_height(x)).expect("harness: remove_height of a stored height");
                }
            }
        }
    }
    (store, stored, how)
}

fn edges(stored: &BTreeSet<u64>) -> Vec<u64> {
    let mut v = Vec::new();
    for h in stored {
        if !stored.contains(&(h - 1)) || !stored.contains(&(h + 1)) {
            v.extend([h - 1, *h, h + 1]);
        }
    }
    v
}

fn gen_origin(rng: &mut impl Rng, w: &World, edges: &[u64]) -> u64 {
    match rng.gen_range(0..12) {
        0 => *[1u64, 2, 511, 512, 513].choose(rng).unwrap(),
        1 | 2 | 3 if !edges.is_empty() => *edges.choose(rng).unwrap(),
        4 => u64::MAX - rng.gen_range(0..600),
        5 => u64::MAX - rng.gen_range(0..3),
        6 => u64::MAX,
        7 => *[i64::MAX as u64 - 1, i64::MAX as u64, i64::MAX as u64 + 1, 1 << 32, u32::MAX as u64].choose(rng).unwrap(),
        8 => w.n() + rng.gen_range(0..4),
        _ => rng.gen_range(1..=w.n()),
    }
}

fn gen_amount(rng: &mut impl Rng, stored: &BTreeSet<u64>, origin: u64) -> u64 {
    match rng.gen_range(0..12) {
        0 => *[1u64, 2, 511, 512, 513].choose(rng).unwrap(),
        1 => 1,
        2 | 3 => {
            // around the length of the stored run at origin
            let l = run_from(stored, origin, u64::MAX).len() as u64;
            (l + rng.gen_range(0..3)).saturating_sub(1).max(1)
        }
        4 => u64::MAX - rng.gen_range(0..600),
        5 => u64::MAX,
        6 => *[1u64 << 32, u32::MAX as u64, i64::MAX as u64, 1024, 10_000].choose(rng).unwrap(),
        7 => rng.gen_range(500..530),
        _ => rng.gen_range(1..600),
    }
}

fn gen_request(rng: &mut impl Rng, w: &World, stored: &BTreeSet<u64>, edges: &[u64]) -> HeaderRequest {
    match rng.gen_range(0..100) {
        // head
        0..=5 => HeaderRequest { data: Some(Data::Origin(0)), amount: 1 },
        // height
        6..=69 => {
            let o = gen_origin(rng, w, edges);
            HeaderRequest { data: Some(Data::Origin(o)), amount: gen_amount(rng, stored, o) }
        }
        // hash, well-formed
        70..=81 => {
            let hash = match rng.gen_range(0..3) {
                0 => vcore::rand_bytes(rng, 32),
                _ => {
                    // hash of a chain header: stored or not
                    let h = if rng.gen_bool(0.6) && !stored.is_empty() {
                        *stored.iter().nth(rng.gen_range(0..stored.len())).unwrap()
                    } else {
                        rng.gen_range(1..=w.n())
                    };
                    w.header(h).hash().as_bytes().to_vec()
                }
            };
            HeaderRequest { data: Some(Data::Hash(hash)), amount: 1 }
        }
        // no data
        82..=85 => HeaderRequest { data: None, amount: *[0u64, 1, 2, 512, u64::MAX].choose(rng).unwrap() },
        // amount 0
        86..=89 => {
            let data = if rng.gen_bool(0.7) {
                Data::Origin(gen_origin(rng, w, edges))
            } else {
                Data::Hash(w.header(rng.gen_range(1..=w.n())).hash().as_bytes().to_vec())
            };
            HeaderRequest { data: Some(data), amount: 0 }
        }
        // origin 0 with amount != 1
        90..=92 => HeaderRequest { data: Some(Data::Origin(0)), amount: *[0u64, 2, 512, 513, u64::MAX].choose(rng).unwrap() },
        // hash of a wrong length
        93..=96 => {
            let len = *[0usize, 1, 31, 33, 64, 1000].choose(rng).unwrap();
            let mut hash = w.header(rng.gen_range(1..=w.n())).hash().as_bytes().to_vec();
            hash.resize(len, 7);
            HeaderRequest { data: Some(Data::Hash(hash)), amount: *[1u64, 1, 0, 2].choose(rng).unwrap() }
        }
        // well-formed hash with amount != 1
        _ => {
            let h = rng.gen_range(1..=w.n());
            HeaderRequest { data: Some(Data::Hash(w.header(h).hash().as_bytes().to_vec())), amount: *[2u64, 512, u64::MAX].choose(rng).unwrap() }
        }
    }
}

fn req_json(r: &HeaderRequest) -> vcore::Value {
    match &r.data {
        None => json!({"data": null, "amount": r.amount.to_string()}),
        Some(Data::Origin(o)) => json!({"origin": o.to_string(), "amount": r.amount.to_string()}),
        Some(Data::Hash(h)) => json!({"hash": vcore::hex_full(h), "amount": r.amount.to_string()}),
    }
}

fn islands_of(stored: &BTreeSet<u64>) -> Vec<(u64, u64)> {
    let mut v: Vec<(u64, u64)> = Vec::new();
    for h in stored {
        match v.last_mut() {
            Some(l) if l.1 + 1 == *h => l.1 = *h,
            _ => v.push((*h, *h)),
        }
    }
    v
}

fn describe(got: &[HeaderResponse]) -> String {
    let mut s = format!("{} response(s):", got.len());
    for r in got.iter().take(3) {
        let what = match r.status_code {
            ST_OK => match ExtendedHeader::decode(&r.body[..]) {
                Ok(h) => format!(" OK(height {})", h.height()),
                Err(_) => " OK(undecodable)".to_string(),
            },
            ST_NOT_FOUND => " NOT_FOUND".to_string(),
            ST_INVALID => " INVALID".to_string(),
            x => format!(" status={x}"),
        };
        s.push_str(&what);
    }
    if got.len() > 3 {
        s.push_str(" ..");
        if let Some(Ok(h)) = got.last().map(|r| ExtendedHeader::decode(&r.body[..])) {
            s.push_str(&format!(" last OK(height {})", h.height()));
        }
    }
    s
}

fn check_one(ctx: &Ctx, w: &World, stored: &BTreeSet<u64>, how: &str, req: &HeaderRequest, out: Outcome) {
    ctx.eval();
    let (class, allowed) = model(w, stored, req);
    let detail = |extra: String| {
        json!({
            "request": req_json(req),
            "stored_ranges": format!("{:?}", islands_of(stored)),
            "store_built_by": how,
            "allowed_answers": format!("{:?}", allowed.iter().map(|e| match e {
                Exp::Headers(h) if h.len() > 4 => format!("Headers({}..={}, {} headers)", h[0], h[h.len()-1], h.len()),
                e => format!("{e:?}"),
            }).collect::<Vec<_>>()),
            "observed": extra,
        })
    };
    ctx.count(&format!("requests/{}", class.name()));
    let overflow = matches!((&req.data, req.amount), (Some(Data::Origin(o)), a) if *o != 0 && o.checked_add(a.min(CAP)).is_none());
    if overflow {
        ctx.count("requests/origin+min(amount,512)>u64::MAX");
    }
    let lists = match out {
        Outcome::Panic(p) => {
            let sig = if class == Class::Height && overflow && p.contains("overflow") {
                "C29/height-request/panic-origin+amount-overflow".to_string()
            } else {
                format!("C29/{}/panic/{}", class.name(), panic_site(&p))
            };
            ctx.violation(&sig, &format!("server panicked while answering a request: {p}"), detail(format!("panic: {p}")));
            return;
        }
        Outcome::Responses(l) => l,
    };
    if lists.is_empty() {
        ctx.violation(
            &format!("C29/{}/no-response", class.name()),
            "request was never answered (handler idle, nothing left to poll)",
            detail("no response".into()),
        );
        return;
    }
    if lists.len() > 1 {
        ctx.violation(
            &format!("C29/{}/multiple-responses", class.name()),
            &format!("{} responses were sent on one request's channel", lists.len()),
            detail(lists.iter().map(|l| describe(l)).collect::<Vec<_>>().join(" | ")),
        );
        return;
    }
    let got = &lists[0];
    let mut first_err = None;
    for (i, exp) in allowed.iter().enumerate() {
        match matches(w, stored, req, got, exp) {
            Ok(()) => {
                // coverage: which kind of answer was confirmed
                let kind = match exp {
                    Exp::Invalid => "invalid".to_string(),
                    Exp::NotFound => "not-found".to_string(),
                    Exp::Headers(h) if class == Class::Height => {
                        let l = h.len() as u64;
                        if l == CAP && req.amount > CAP && stored.contains(&(h[h.len() - 1] + 1)) {
                            "run-capped-at-512".to_string()
                        } else if l == req.amount {
                            "run-of-full-amount".to_string()
                        } else {
                            "run-ended-by-gap".to_string()
                        }
                    }
                    Exp::Headers(_) => "header".to_string(),
                };
                ctx.count(&format!("confirmed/{}/{}", class.name(), kind));
                if class == Class::Ambiguous {
                    ctx.count(&format!("ambiguous-reading-taken/{i}"));
                }
                ctx.nontrivial(&(vcore::hash64(&islands_of(stored)), req_json(req).to_string()));
                ctx.sample(|| detail(describe(got)));
                return;
            }
            Err(k) => {
                // report against the reading that describes a header answer if any
                if first_err.is_none() || matches!(exp, Exp::Headers(_)) {
                    first_err = Some(k);
                }
            }
        }
    }
    let kind = first_err.unwrap_or("mismatch");
    ctx.violation(
        &format!("C29/{}/wrong-answer/{kind}", class.name()),
        &format!("answer differs from the one prescribed for the stored set: {}", describe(got)),
        detail(describe(got)),
    );
}

pub fn run(ctx: &Ctx) {
    ctx.rule(
        "Stores: InMemoryStore filled with islands of one honest 1-validator chain (heights 1..=1100; \
         empty, full, one island > 513 long, island pairs split by a 1-height gap, up to 12 random islands; half of \
         them with extra holes punched by remove_height). Requests (batches of 1..8 per server instance, \
         polled through the real poll()): head; height requests with origin from {1,2,511,512,513, every \
         stored edge and edge±1, u64::MAX-k (k<600), u64::MAX, i64::MAX±1, 2^32, above the chain, random} x amount from \
         {1,2,511,512,513, stored-run-length±1, u64::MAX-k, u64::MAX, 2^32, random<600}; hash requests \
         (stored / in chain but not stored / unknown); invalid (no data) and ambiguous requests (amount 0, origin 0 \
         with amount != 1, hash of wrong length, hash with amount != 1). Non-trivial = a request whose recorded \
         answer was compared with (and equal to) the model answer; distinct by (stored set, request).",
    );
    ctx.assume("the harness's own BTreeSet of stored heights is the ground truth (cross-checked against get_stored_header_ranges; a disagreement is inconclusive, the store itself is C19's subject)");
    ctx.assume("closed system: the handler's tasks only await the in-memory store, so Poll::Pending without a wake-up means no further progress is possible");
    ctx.assume("requests whose classification the text leaves open (amount 0, head with amount>1, hash of wrong length or amount != 1) may be answered under either reading");

    let n_chain: u64 = ctx.scale3(600, 1100, 1100);
    let mut cg = ChainGen::new(
        ctx.rng(0, 1),
        "c29-chain",
        3,
        &[10],
        1,
        ChainGen::start_time_for(n_chain, std::time::Duration::from_secs(6), std::time::Duration::from_secs(3600)),
        std::time::Duration::from_secs(6),
    );
    let chain = cg.next_many(n_chain);
    let mut by_hash = HashMap::new();
    for h in &chain {
        by_hash.insert(h.hash().as_bytes().to_vec(), h.height());
    }
    if by_hash.len() != chain.len() || chain.iter().enumerate().any(|(i, h)| h.height() != i as u64 + 1) {
        ctx.inconclusive("harness: generated chain has duplicate hashes or wrong heights");
        return;
    }
    let w = World { chain, by_hash };

    let stores = ctx.scale3(4u64, 160, 4000);
    let per_store = ctx.scale3(20usize, 60, 80);
    let shards = ctx.cores();
    ctx.par(shards, |shard| {
        for case in (shard as u64..stores).step_by(shards) {
            let mut rng = ctx.rng(1, case);
            let (store, stored, how) = build_store(&w, &mut rng);
            // ground truth cross-check
            let ranges = now(store.get_stored_header_ranges()).expect("harness: ranges");
            let from_store: Vec<(u64, u64)> = ranges.as_ref().iter().map(|r| (*r.start(), *r.end())).collect();
            if from_store != islands_of(&stored) {
                ctx.inconclusive(&format!("harness: store ranges {from_store:?} != recorded {:?}", islands_of(&stored)));
                return;
            }
            ctx.count(&format!("stores/{how}"));
            if stored.is_empty() {
                ctx.count("stores/empty");
            }
            let store = Arc::new(store);
            let ed = edges(&stored);
            let mut left = per_store;
            while left > 0 {
                let k = rng.gen_range(1..=8usize).min(left);
                left -= k;
                let reqs: Vec<HeaderRequest> = (0..k).map(|_| gen_request(&mut rng, &w, &stored, &ed)).collect();
                let outs = run_requests(&store, &reqs, &mut rng);
                for (r, o) in reqs.iter().zip(outs) {
                    check_one(ctx, &w, &stored, how, r, o);
                }
            }
        }
    });

    // coverage floors guard against a vacuous pass; once a violation is recorded the verdict is
    // 'violated' and must not be masked by a floor the defect itself may have starved
    if !ctx.tiny() && ctx.violation_count() == 0 {
        for (name, min) in [
            ("confirmed/head-request/header", 20),
            ("confirmed/head-request/not-found", 1),
            ("confirmed/height-request/run-capped-at-512", 20),
            ("confirmed/height-request/run-of-full-amount", 100),
            ("confirmed/height-request/run-ended-by-gap", 100),
            ("confirmed/height-request/not-found", 100),
            ("confirmed/hash-request/header", 50),
            ("confirmed/hash-request/not-found", 50),
            ("confirmed/invalid-request/invalid", 50),
            ("requests/origin+min(amount,512)>u64::MAX", 50),
        ] {
            ctx.floor(name, min);
        }
    }
}
