use vcore::Ctx;

mod c17;

fn main() {
    let ctx = Ctx::from_args();
    match ctx.prop.as_str() {
        "C17" => c17::run(&ctx),
        other => {
            eprintln!("unknown property {other}");
            std::process::exit(2);
        }
    }
    std::process::exit(ctx.finish());
}
