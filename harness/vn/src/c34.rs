//! C34 — data sampling respects concurrency limits and recency order; never starts blocks older
//! than the sampling window, nor prunable blocks while the pruner reports a backlog >= 512.
//!
//! Same harness as C33 (`c33_net.rs`): the real `Daser` worker over a `LoggedStore<InMemoryStore>`
//! in tokio virtual time, limits 1..6 / header-sub allowance 0..6, random insertion (new heads,
//! gaps, back-fills, re-insertions), completion (success / timeout / silence, arbitrary order),
//! pruner-report (`UpdateHighestPrunableHeight`, `UpdateNumberOfPrunableBlocks`, `WantToPrune`,
//! removals) and reconnection schedules.
//!
//! Oracle: offline checker over the single ordered log. A *start* of height h is the daser's
//! `update_sampling_metadata(h, ..)` call. Everything the oracle "knows" is reconstructed from
//! the log and never fresher than what the component itself was told:
//!  * known stored / sampled heights = the values returned by the daser's own last
//!    `get_stored_header_ranges` + `get_sampled_ranges` pair (queue refresh), plus its own marks;
//!  * in progress = started and no `SamplingResult` event yet (cleared when a disconnection has
//!    been absorbed); timed out = `SamplingResult{timed_out}` since the last absorbed disconnection;
//!  * promised = `WantToPrune(h)` answered true; while the command is in flight h counts as
//!    "maybe promised" (neither required nor forbidden);
//!  * pruner reports become certain only at the next settle marker or `WantToPrune` reply (FIFO
//!    command channel); until then every processed prefix of the pending reports is possible.
//! Checks at every start of h with n blocks in progress:
//!   n < limit, or h is the newest known stored height and n < limit + allowance;
//!   h is known stored, not sampled, not in progress, not promised, not timed out;
//!   no other such height above h (that is inside the window and not "maybe promised");
//!   h's header time is inside the sampling window (ground truth of the generated chain);
//!   not (h <= highest prunable && backlog >= 512) under at least one possible report state.

#[path = "c33_net.rs"]
mod c33_net;

use std::collections::{BTreeMap, BTreeSet};

use c33_net::*;
use vcore::{Ctx, json};
use vnode::{StoreEvent, StoreOp, StoreRet};

struct Viol {
    sig: String,
    msg: String,
    at: usize,
    h: u64,
    state: vcore::Value,
}

#[derive(Clone, Copy, Debug)]
enum Rep {
    Hp(u64),
    Nb(u64),
}

fn to_set(r: &lumina_node::store::BlockRanges) -> BTreeSet<u64> {
    r.clone().collect()
}

fn check(ctx: &Ctx, out: &RunOut) -> Result<Vec<Viol>, String> {
    let log = &out.log;
    let (limit, allowance) = (out.cfg.limit, out.cfg.allowance);
    let mut v: Vec<Viol> = Vec::new();

    let mut known_stored: Option<BTreeSet<u64>> = None;
    let mut pending_stored: Option<BTreeSet<u64>> = None;
    let mut known_sampled: BTreeSet<u64> = BTreeSet::new();
    let mut marked_since: BTreeSet<u64> = BTreeSet::new();
    let mut in_progress: BTreeSet<u64> = BTreeSet::new();
    let mut timed_out: BTreeSet<u64> = BTreeSet::new();
    let mut ever_timed_out: BTreeSet<u64> = BTreeSet::new();
    let mut promised: BTreeSet<u64> = BTreeSet::new();
    let mut wtp_inflight: Option<(u64, usize)> = None;
    let mut started_during_wtp = false;
    let mut hp: Option<u64> = None;
    let mut nb: u64 = 0;
    let mut pending_reports: Vec<(usize, Rep)> = Vec::new();
    let mut last_peers: Option<u64> = None;
    let mut peers_zero_unsettled = false;
    let mut connected = false;

    let in_window = |h: u64| out.truth.get(&h).is_some_and(|t| t.in_window);

    for (i, e) in log.iter().enumerate() {
        match e {
            Ev::Store(StoreEvent::Return {
                op: StoreOp::GetStoredHeaderRanges,
                ret: StoreRet::Ranges(r),
                ..
            }) => {
                pending_stored = Some(to_set(r));
            }
            Ev::Store(StoreEvent::Return {
                op: StoreOp::GetSampledRanges,
                ret: StoreRet::Ranges(r),
                ..
            }) => {
                if let Some(s) = pending_stored.take() {
                    ctx.count("queue_refreshes");
                    ctx.count_n(
                        "known_heights_older_than_window",
                        s.iter().filter(|h| !in_window(**h)).count() as u64,
                    );
                    known_stored = Some(s);
                    known_sampled = to_set(r);
                    marked_since.clear();
                }
            }
            Ev::Store(StoreEvent::Return {
                op: StoreOp::GetByHeight(_),
                ret: StoreRet::Err("NotFound"),
                ..
            }) => {
                ctx.count("queue_inconsistent_height_not_found");
            }
            Ev::Store(StoreEvent::Call {
                op: StoreOp::UpdateSamplingMetadata(h, _),
                ..
            }) => {
                let h = *h;
                ctx.eval();
                ctx.count("starts_checked");
                let n = in_progress.len();
                let empty = BTreeSet::new();
                let ks = known_stored.as_ref().unwrap_or(&empty);
                let head = ks.iter().next_back().copied();
                let is_head = head == Some(h);
                let state = || {
                    json!({
                        "in_progress": in_progress,
                        "known_stored_at_last_refresh": ks,
                        "known_sampled_at_last_refresh": known_sampled,
                        "marked_since_refresh": marked_since,
                        "timed_out_since_reconnect": timed_out,
                        "promised": promised,
                        "want_to_prune_in_flight": wtp_inflight.map(|x| x.0),
                        "highest_prunable_confirmed": hp,
                        "backlog_confirmed": nb,
                        "reports_pending": format!("{:?}", pending_reports.iter().map(|x| x.1).collect::<Vec<_>>()),
                    })
                };
                let mut push = |kind: &str, msg: String| {
                    v.push(Viol {
                        sig: format!("C34/start/{kind}"),
                        msg,
                        at: i,
                        h,
                        state: state(),
                    })
                };

                // eligibility of h itself
                if !ks.contains(&h) {
                    push("height-not-known-stored", format!("started height {h}, which was not in the stored ranges at the last queue refresh"));
                }
                if known_sampled.contains(&h) || marked_since.contains(&h) {
                    push("already-sampled", format!("started height {h}, which is already sampled"));
                }
                if in_progress.contains(&h) {
                    push("already-in-progress", format!("started height {h}, which is already in progress"));
                }
                if promised.contains(&h) {
                    push("promised-to-pruner", format!("started height {h}, which was promised to the pruner (WantToPrune answered true)"));
                }
                if timed_out.contains(&h) {
                    push("timed-out-since-reconnect", format!("started height {h} again although it timed out since the last reconnection"));
                }
                if out.truth.contains_key(&h) && !in_window(h) {
                    push("outside-sampling-window", format!("started height {h}, whose header is older than the sampling window"));
                }

                // concurrency
                if n >= limit {
                    if !is_head {
                        push(
                            "over-concurrency-limit",
                            format!("started height {h} (not the newest known stored height {head:?}) with {n} blocks in progress, limit {limit}"),
                        );
                    } else if n >= limit + allowance {
                        push(
                            "over-head-allowance",
                            format!("started the newest height {h} with {n} blocks in progress, limit {limit} + allowance {allowance}"),
                        );
                    } else {
                        ctx.count("starts_using_head_allowance");
                    }
                }
                if n + 1 == limit {
                    ctx.count("starts_reaching_limit");
                }

                // pruner backlog rule: forbidden only if forbidden under every possible report state
                let mut states = vec![(hp, nb)];
                let (mut a, mut b) = (hp, nb);
                for (_, r) in &pending_reports {
                    match r {
                        Rep::Hp(x) => a = Some(*x),
                        Rep::Nb(x) => b = *x,
                    }
                    states.push((a, b));
                }
                let forbidden = |s: &(Option<u64>, u64)| h <= s.0.unwrap_or(0) && s.1 >= PRUNER_THRESHOLD;
                if states.iter().all(forbidden) {
                    push(
                        "prunable-under-backlog",
                        format!("started height {h} <= highest prunable {:?} while the reported backlog is {} >= 512", states[0].0, states[0].1),
                    );
                } else if h <= hp.unwrap_or(0) && pending_reports.is_empty() {
                    ctx.count("starts_in_prunable_area_backlog_below_512");
                }
                if !pending_reports.is_empty() {
                    ctx.count("starts_with_reports_in_flight");
                }

                // recency
                let maybe = wtp_inflight.map(|x| x.0);
                let better: Vec<u64> = ks
                    .iter()
                    .copied()
                    .filter(|c| {
                        *c > h
                            && !known_sampled.contains(c)
                            && !marked_since.contains(c)
                            && !in_progress.contains(c)
                            && !promised.contains(c)
                            && !timed_out.contains(c)
                            && in_window(*c)
                            && Some(*c) != maybe
                    })
                    .collect();
                if let Some(c) = better.last() {
                    push(
                        "not-most-recent",
                        format!("started height {h} although the more recent known height {c} is stored, unsampled, idle, unpromised and not timed out"),
                    );
                }
                if ever_timed_out.contains(&h) {
                    ctx.count("starts_resampling_after_reconnect");
                }
                if ks.iter().any(|c| *c > h && promised.contains(c)) {
                    ctx.count("starts_skipping_promised_height");
                }
                if ks.iter().any(|c| *c > h && timed_out.contains(c)) {
                    ctx.count("starts_skipping_timed_out_height");
                }
                if wtp_inflight.is_some() {
                    started_during_wtp = true;
                    ctx.count("starts_during_want_to_prune");
                }
                ctx.nontrivial(&(
                    limit,
                    allowance,
                    n,
                    is_head,
                    ever_timed_out.contains(&h),
                    h <= hp.unwrap_or(0),
                    nb >= PRUNER_THRESHOLD,
                ));
                in_progress.insert(h);
            }
            Ev::Store(StoreEvent::Return {
                op: StoreOp::UpdateSamplingMetadata(h, _),
                ret,
                ..
            }) => {
                if *ret != StoreRet::Unit {
                    in_progress.remove(h);
                }
            }
            Ev::Store(StoreEvent::Call {
                op: StoreOp::MarkAsSampled(h),
                ..
            }) => {
                if in_progress.contains(h) {
                    return Err(format!("log inconsistent: mark_as_sampled({h}) without a SamplingResult event (event lost?)"));
                }
                marked_since.insert(*h);
                ctx.count("blocks_completed_ok");
            }
            Ev::Node(NodeEv::Result { h, timed_out: t }) => {
                if !in_progress.remove(h) && connected {
                    return Err(format!("log inconsistent: SamplingResult({h}) for a block that was not in progress"));
                }
                if *t {
                    timed_out.insert(*h);
                    ever_timed_out.insert(*h);
                    ctx.count("blocks_timed_out");
                }
            }
            Ev::Net(NetEv::Peers { n }) => {
                if peers_zero_unsettled && *n > 0 {
                    return Err("harness discipline: reconnection before the disconnection was settled".into());
                }
                if *n == 0 {
                    peers_zero_unsettled = true;
                } else {
                    connected = true;
                }
                last_peers = Some(*n);
            }
            Ev::Net(NetEv::Settled) => {
                for (_, r) in pending_reports.drain(..) {
                    match r {
                        Rep::Hp(x) => hp = Some(x),
                        Rep::Nb(x) => nb = x,
                    }
                }
                if peers_zero_unsettled {
                    ctx.count("disconnections");
                    ctx.count_n("blocks_aborted_by_disconnect", in_progress.len() as u64);
                    in_progress.clear();
                    timed_out.clear();
                    peers_zero_unsettled = false;
                    connected = false;
                } else if last_peers.is_some_and(|n| n > 0) {
                    // quiescent and connected: why is nothing more being started?
                    if let Some(ks) = &known_stored {
                        let top = ks
                            .iter()
                            .copied()
                            .filter(|c| {
                                !known_sampled.contains(c)
                                    && !marked_since.contains(c)
                                    && !in_progress.contains(c)
                                    && !promised.contains(c)
                                    && !timed_out.contains(c)
                                    && in_window(*c)
                            })
                            .next_back();
                        if let Some(c) = top {
                            if c <= hp.unwrap_or(0) && nb >= PRUNER_THRESHOLD {
                                ctx.count("quiescent_backlog_rule_applies_to_next_block");
                                if in_progress.len() < limit {
                                    ctx.count("quiescent_paused_by_backlog_only");
                                }
                            } else if in_progress.len() >= limit {
                                ctx.count("quiescent_at_concurrency_limit");
                            }
                        }
                    }
                }
            }
            Ev::Net(NetEv::ReportHp(x)) => pending_reports.push((i, Rep::Hp(*x))),
            Ev::Net(NetEv::ReportNb(x)) => pending_reports.push((i, Rep::Nb(*x))),
            Ev::Net(NetEv::WtpSent { h }) => {
                wtp_inflight = Some((*h, i));
                started_during_wtp = false;
            }
            Ev::Net(NetEv::WtpReply { h, granted }) => {
                let sent_at = wtp_inflight.map(|x| x.1).unwrap_or(i);
                // FIFO command channel: everything sent before the WantToPrune has been processed
                let mut rest = Vec::new();
                for (at, r) in pending_reports.drain(..) {
                    if at < sent_at {
                        match r {
                            Rep::Hp(x) => hp = Some(x),
                            Rep::Nb(x) => nb = x,
                        }
                    } else {
                        rest.push((at, r));
                    }
                }
                pending_reports = rest;
                wtp_inflight = None;
                if *granted {
                    ctx.count("want_to_prune_granted");
                    if in_progress.contains(h) {
                        // granted although the block is in progress at the reply: either it was
                        // started after the promise or promised while in progress
                        let started_in_window = started_during_wtp
                            && log[sent_at..i].iter().any(|e| {
                                matches!(e, Ev::Store(StoreEvent::Call { op: StoreOp::UpdateSamplingMetadata(x, _), .. }) if x == h)
                            });
                        if started_in_window {
                            v.push(Viol {
                                sig: "C34/start/promised-to-pruner".into(),
                                msg: format!("height {h} was promised to the pruner and started while the WantToPrune was being handled; it is in progress when the grant arrives"),
                                at: i,
                                h: *h,
                                state: json!({"in_progress": in_progress}),
                            });
                        } else {
                            ctx.count("anomaly_grant_for_block_in_progress");
                            // The daser promised the pruner a block whose sampling is in progress
                            // (started before the WantToPrune was sent, still running at the reply).
                            // This is C35's concern (Daser::want_to_prune is its mechanism): reported
                            // by check C35 through `daser_grant_scan`, only counted by C34.
                            v.push(Viol {
                                sig: "C35/daser/grants-prune-while-sampling-in-progress".into(),
                                msg: format!("the daser answered WantToPrune({h}) with true although the sampling of height {h} started before the request was sent and is still in progress when the grant arrives"),
                                at: i,
                                h: *h,
                                state: json!({"in_progress": in_progress}),
                            });
                        }
                    }
                    promised.insert(*h);
                } else {
                    ctx.count("want_to_prune_refused");
                }
            }
            _ => {}
        }
    }
    Ok(v)
}

pub fn profile() -> Profile {
    Profile {
        p_timeout: 0.15,
        w_answer: 18,
        w_answer_block: 16,
        w_timeout_err: 5,
        w_sleep_short: 8,
        w_sleep_long: 2,
        w_insert_head: 12,
        w_backfill: 6,
        w_report: 9,
        w_wtp: 6,
        w_remove: 5,
        w_toggle: 4,
        max_limit: 6,
        max_allowance: 6,
    }
}

pub fn run(ctx: &Ctx) {
    ctx.rule(
        "Each run (= one schedule): a fresh chain of 8..36 signed headers over real squares, some older than the \
         sampling window, a real Daser with concurrency limit 1..6 and header-sub allowance 0..6 over a \
         LoggedStore<InMemoryStore> in paused tokio time, and 60..260 random harness actions: new heads (also with \
         gaps), back-fills, re-insertions, completions (honest answers in arbitrary order, timeouts, silence past \
         lumina's timeout), pruner reports (highest prunable anywhere in the chain, backlog around 512), WantToPrune, \
         removals, disconnect/reconnect. Every start (update_sampling_metadata call) is checked against state \
         reconstructed from the log only. Non-trivial = start in a distinct abstract state (limit, allowance, \
         #in progress, is-newest, resample-after-reconnect, in prunable area, backlog >= 512).",
    );
    ctx.assume("Knowledge staleness the daser legitimately has is granted: stored/sampled heights as of its own last queue refresh; pruner reports count only once provably processed (settle marker / WantToPrune reply)");
    ctx.assume("Header times are monotone in height, >= 60 s inside / >= 10 min outside the sampling window; each run lasts < 20 s wall-clock (else discarded)");
    ctx.assume("A harness virtual sleep returns only after the single-threaded paused runtime was idle, i.e. after the daser absorbed everything sent before (tokio auto-advance semantics)");

    let sq = squares(ctx);
    let runs = if ctx.san() { 60 } else { ctx.scale3(4u64, 520, 10_000) };
    // `--replay FILE`: re-run only the schedule of the witness (harness decisions are seeded; lumina's
    // own coordinate choice and the wall-clock based header times differ slightly).
    let replay_case = ctx.replay.as_ref().and_then(|r| r["detail"]["run"]["case"].as_u64());
    let shards = ctx.cores();
    let prof = profile();
    ctx.par(shards, |shard| {
        for case in (shard as u64..runs).step_by(shards) {
            if replay_case.is_some_and(|c| c != case) {
                continue;
            }
            let mut rng = ctx.rng(1, case);
            let cfg = gen_cfg(&mut rng, &prof, (60, 260), ctx.tiny());
            let out = run_one(rng, cfg, sq);
            ctx.count("schedules");
            if let Some(e) = &out.harness_err {
                ctx.count("runs_discarded_harness");
                ctx.inconclusive(&format!("harness error in run {case}: {e}"));
                continue;
            }
            if out.wall.as_secs() >= 20 {
                ctx.count("runs_discarded_wallclock");
                continue;
            }
            if out.daser_fatal.is_some() {
                ctx.count("runs_daser_fatal");
            }
            let viols = match check(ctx, &out) {
                Ok(v) => v,
                Err(e) => {
                    ctx.count("runs_discarded_log_inconsistent");
                    ctx.inconclusive(&format!("run {case}: {e}"));
                    continue;
                }
            };
            let rid_h: BTreeMap<u64, u64> = out
                .log
                .iter()
                .filter_map(|e| match e {
                    Ev::Net(NetEv::Request { rid, cid, .. }) => decode_sample_cid(cid).map(|d| (*rid, d.0)),
                    _ => None,
                })
                .collect();
            for x in viols {
                if x.sig.starts_with("C35/") {
                    continue; // decided by check C35 (daser_grant_scan)
                }
                ctx.violation(
                    &x.sig,
                    &x.msg,
                    json!({
                        "run": {"stream": 1, "case": case},
                        "cfg": cfg_json(&out.cfg),
                        "oracle_state_at_start": x.state,
                        "log_index": x.at,
                        "history_of_height": excerpt(&out.log, x.at, x.h, &rid_h),
                    }),
                );
            }
            ctx.sample(|| {
                json!({
                    "case": case,
                    "cfg": cfg_json(&out.cfg),
                    "log_events": out.log.len(),
                    "daser_fatal": out.daser_fatal,
                    "starts": out.log.iter().filter_map(|e| match e {
                        Ev::Store(StoreEvent::Call { op: StoreOp::UpdateSamplingMetadata(h, _), .. }) => Some(*h),
                        _ => None,
                    }).collect::<Vec<_>>(),
                })
            });
        }
    });

    if !ctx.tiny() && !ctx.san() && replay_case.is_none() {
        let q = ctx.quick();
// floors are on what the schedules offered, not on how lumina reacted
        ctx.floor("starts_checked", if q { 4_000 } else { 80_000 });
        ctx.floor("starts_reaching_limit", if q { 500 } else { 10_000 });
        ctx.floor("starts_using_head_allowance", if q { 150 } else { 3_000 });
        ctx.floor("quiescent_backlog_rule_applies_to_next_block", if q { 50 } else { 1_000 });
        ctx.floor("starts_in_prunable_area_backlog_below_512", if q { 100 } else { 2_000 });
        ctx.floor("starts_resampling_after_reconnect", if q { 30 } else { 600 });
        ctx.floor("blocks_timed_out", if q { 300 } else { 6_000 });
        ctx.floor("want_to_prune_granted", if q { 300 } else { 6_000 });
        ctx.floor("known_heights_older_than_window", if q { 200 } else { 4_000 });
        ctx.floor("disconnections", if q { 100 } else { 2_000 });
        ctx.floor("queue_inconsistent_height_not_found", if q { 10 } else { 200 });
    }
}


/// Part of C35 ("... or a header whose sampling is in progress"): the real Daser must never grant the
/// pruner a block whose sampling is in progress. Runs the C34 schedules (real Daser, harness as
/// pruner) and reports only the grants that contradict this.
pub fn daser_grant_scan(ctx: &Ctx) {
    let sq = squares(ctx);
    let runs = if ctx.san() { 40 } else { ctx.scale3(3u64, 360, 6_000) };
    let shards = ctx.cores();
    let prof = profile();
    ctx.par(shards, |shard| {
        for case in (shard as u64..runs).step_by(shards) {
            let mut rng = ctx.rng(77, case);
            let cfg = gen_cfg(&mut rng, &prof, (60, 260), ctx.tiny());
            let out = run_one(rng, cfg, sq);
            if out.harness_err.is_some() || out.wall.as_secs() >= 20 {
                ctx.count("daser_grant_scan.runs_discarded");
                continue;
            }
            let Ok(viols) = check(ctx, &out) else {
                ctx.count("daser_grant_scan.runs_discarded");
                continue;
            };
            ctx.count("daser_grant_scan.schedules");
            ctx.eval();
            let rid_h: BTreeMap<u64, u64> = out
                .log
                .iter()
                .filter_map(|e| match e {
                    Ev::Net(NetEv::Request { rid, cid, .. }) => decode_sample_cid(cid).map(|d| (*rid, d.0)),
                    _ => None,
                })
                .collect();
            for x in viols.into_iter().filter(|x| x.sig.starts_with("C35/")) {
                ctx.violation(
                    &x.sig,
                    &x.msg,
                    json!({
                        "run": {"stream": 77, "case": case},
                        "cfg": cfg_json(&out.cfg),
                        "log_index": x.at,
                        "history_of_height": excerpt(&out.log, x.at, x.h, &rid_h),
                    }),
                );
            }
        }
    });
}
