//! C35 — the pruner only removes blocks that are safe to remove.
//!
//! The real `Pruner` worker runs (tokio virtual time) over a `LoggedStore<InMemoryStore>` and a
//! `LoggedBlockstore<InMemoryBlockstore>`, next to a mocked `Daser` whose commands this harness
//! answers. The harness also plays the syncer (fills gaps, appends heads) and the sampler (keeps a
//! set of heights whose sampling is in progress, refuses `WantToPrune` exactly for those, finishes
//! samplings with metadata + blocks + `mark_as_sampled`). Every store / blockstore call of either
//! side, every daser command with the answer given and every change of the in-progress set is
//! written to one ordered log; the oracle replays that log offline.
//!
//! Header times come from one honest chain per shard whose headers are >= 2 h apart; the window
//! sizes given to the pruner put each window edge in the middle between two header times, so
//! "inside / outside the window" is known by construction with >= 1 h of slack on either side
//! (`Time::now()` inside the pruner is the wall clock).

#![allow(dead_code)]

use std::collections::{BTreeMap, BTreeSet, HashMap, HashSet};
use std::sync::Arc;
use std::sync::atomic::{AtomicU64, Ordering};
use std::time::Duration;

use blockstore::Blockstore;
use celestia_types::ExtendedHeader;
use cid::Cid;
use lumina_node::block_ranges::BlockRanges;
use lumina_node::blockstore::InMemoryBlockstore;
use lumina_node::events::NodeEvent;
use lumina_node::store::{InMemoryStore, Store, VerifiedExtendedHeaders};
use lumina_node::verif::{self, VDaser, VDaserCmd, VEventChannel, VPruner};
use tendermint::Time;
use vcore::{ChaCha8Rng, Ctx, Rng, json};
use vgen::chain::ChainGen;
use vnode::{BlockstoreEvent, Clock, EventLog, LoggedBlockstore, LoggedStore, StoreEvent, StoreOp, StoreRet};

type LStore = LoggedStore<InMemoryStore>;
type LBlocks = LoggedBlockstore<InMemoryBlockstore>;

tokio::task_local! {
    /// Set for the harness future only: store / blockstore calls made while it is set are the
    /// environment's (syncer, sampler, set-up), all others are the pruner's.
    static HARNESS: ();
}

fn by_harness() -> bool {
    HARNESS.try_with(|_| ()).is_ok()
}

#[derive(Clone, Debug)]
enum DCmd {
    Want { height: u64, granted: bool },
    Highest(u64),
    Number(u64),
}

#[derive(Clone, Debug)]
enum Ev {
    Store { harness: bool, ev: StoreEvent },
    Block { harness: bool, ev: BlockstoreEvent },
    Daser { cmd: DCmd },
    /// The sampler started (`on`) or ended sampling of `height`.
    InProgress { height: u64, on: bool },
}

struct ShardChain {
    headers: Vec<ExtendedHeader>,
    times: Vec<Time>,
}

const HOUR: u64 = 3600;

fn build_chain(ctx: &Ctx, shard: usize, n: usize) -> ShardChain {
    let mut rng = ctx.rng(1, shard as u64);
    let steps: Vec<u64> = (0..n).map(|_| *[2u64, 2, 3, 3, 4, 7].choose(&mut rng).unwrap() * HOUR).collect();
    let total: u64 = steps[..n - 1].iter().sum::<u64>() + 3 * HOUR;
    let start = Time::now().checked_sub(Duration::from_secs(total)).unwrap();
    let mut cg = ChainGen::new(ctx.rng(2, shard as u64), "vchain", 3, &[5], 1, start, Duration::from_secs(steps[0]));
    let mut headers = Vec::with_capacity(n);
    for s in steps.iter().take(n) {
        cg.block_time = Duration::from_secs(*s);
        headers.push(cg.next());
    }
    let times = headers.iter().map(|h| h.time()).collect();
    ShardChain { headers, times }
}

use vcore::rand::seq::SliceRandom;

impl ShardChain {
    fn len(&self) -> u64 {
        self.headers.len() as u64
    }
    fn time(&self, h: u64) -> Time {
        self.times[(h - 1) as usize]
    }
    /// A cutoff such that exactly the heights `<= edge` are older than it, >= 1 h away from every header time.
    fn cutoff_after(&self, edge: u64) -> Time {
        let n = self.len();
        if edge == 0 {
            self.time(1).checked_sub(Duration::from_secs(HOUR + HOUR / 2)).unwrap()
        } else if edge >= n {
            self.time(n).checked_add(Duration::from_secs(HOUR + HOUR / 2)).unwrap()
        } else {
            let gap = self.time(edge + 1).duration_since(self.time(edge)).unwrap();
            self.time(edge).checked_add(gap / 2).unwrap()
        }
    }
}

/// What the case generator decided; ground truth for the oracle.
#[derive(Clone, Debug)]
struct Plan {
    case: u64,
    /// highest height outside the pruning window (0 = none)
    p_edge: u64,
    /// highest height outside the sampling window (0 = none)
    s_edge: u64,
    block_time: Duration,
    lo: u64,
    hi: u64,
}

impl Plan {
    fn in_pruning_window(&self, h: u64) -> bool {
        h > self.p_edge
    }
    fn in_sampling_window(&self, h: u64) -> bool {
        h > self.s_edge
    }
}

struct Run<'a> {
    ctx: &'a Ctx,
    rng: ChaCha8Rng,
    chain: &'a ShardChain,
    plan: Plan,
    log: Arc<EventLog<Ev>>,
    store: Arc<LStore>,
    blocks: Arc<LBlocks>,
    in_progress: BTreeSet<u64>,
    promised: HashSet<u64>,
    /// next free (row, column) per height for fresh sample CIDs
    next_cid: HashMap<u64, u16>,
    notes: Vec<String>,
}

impl<'a> Run<'a> {
    fn hdrs(&self, lo: u64, hi: u64) -> VerifiedExtendedHeaders {
        let v = self.chain.headers[(lo - 1) as usize..hi as usize].to_vec();
        // honest chain, adjacency known by construction; the store still verifies against stored neighbours
        unsafe { VerifiedExtendedHeaders::new_unchecked(v) }
    }

    fn fresh_cids(&mut self, h: u64, n: usize) -> Vec<Cid> {
        let next = self.next_cid.entry(h).or_insert(0);
        let mut out = Vec::new();
        for _ in 0..n {
            let k = *next;
            *next += 1;
            out.push(verif::shwap::sample_cid(k / 16, k % 16, h).expect("sample cid"));
        }
        out
    }

    async fn add_metadata(&mut self, h: u64, n: usize, put_prob: f64) {
        let cids = self.fresh_cids(h, n);
        if self.store.update_sampling_metadata(h, cids.clone()).await.is_err() {
            return;
        }
        for c in cids {
            if self.rng.gen_bool(put_prob) {
                let _ = self.blocks.put_keyed(&c, &h.to_le_bytes()).await;
            }
        }
    }

    fn set_in_progress(&mut self, h: u64, on: bool) {
        let changed = if on { self.in_progress.insert(h) } else { self.in_progress.remove(&h) };
        if changed {
            self.log.push(Ev::InProgress { height: h, on });
        }
    }

    /// Initial content of the store and blockstore.
    async fn setup(&mut self) {
        let Plan { lo, hi, .. } = self.plan;
        let reserve_top = self.rng.gen_range(0..8).min(hi - lo);
        let top = hi - reserve_top;
        let long_runs = self.rng.gen_bool(0.4);
        let p_sampled: f64 = *[0.0, 0.3, 0.6, 0.85, 0.97, 1.0].choose(&mut self.rng).unwrap();
        let p_meta: f64 = *[0.0, 0.5, 0.9].choose(&mut self.rng).unwrap();
        let p_gap: f64 = *[0.0, 0.15, 0.35].choose(&mut self.rng).unwrap();
        let mut h = lo;
        let mut to_prune = Vec::new();
        while h <= top {
            // a stored run (part of which may be pruned afterwards), then maybe an unsynced gap
            let max_run = if long_runs { 200 } else { 14 };
            let len = self.rng.gen_range(1..=max_run).min(top - h + 1);
            let (a, b) = (h, h + len - 1);
            let hs = self.hdrs(a, b);
            self.store.insert(hs).await.expect("prefill insert");
            if self.rng.gen_bool(0.3) && len >= 3 {
                let k = self.rng.gen_range(1..=(len - 2).min(5));
                let from = self.rng.gen_range(a + 1..=b - k);
                to_prune.extend(from..from + k);
            }
            h = b + 1;
            if self.rng.gen_bool(p_gap) {
                h += self.rng.gen_range(1..7);
            }
        }
        let stored: Vec<u64> = self.store.inner.get_stored_header_ranges().await.unwrap().collect();
        for &h in &stored {
            let sampled = if self.rng.gen_bool(0.1) { self.rng.gen_bool(0.5) } else { self.rng.gen_bool(p_sampled) };
            if self.rng.gen_bool(if sampled { p_meta.max(0.7) } else { p_meta * 0.6 }) {
                let n = self.rng.gen_range(1..4);
                self.add_metadata(h, n, 0.9).await;
            }
            if sampled {
                self.store.mark_as_sampled(h).await.unwrap();
            } else if self.rng.gen_bool(0.15) && !to_prune.contains(&h) {
                self.set_in_progress(h, true);
            }
        }
        for h in to_prune {
            // heights synced earlier and pruned since (their blocks went with them)
            if let Ok(Some(m)) = self.store.inner.get_sampling_metadata(h).await {
                for c in m.cids {
                    let _ = self.blocks.remove(&c).await;
                }
            }
            let _ = self.store.remove_height(h).await;
            self.set_in_progress(h, false);
        }
    }

    async fn stored(&self) -> BlockRanges {
        self.store.inner.get_stored_header_ranges().await.unwrap()
    }

    /// The sampler finishes (successfully or not) some samplings in progress.
    async fn finish_samplings(&mut self) {
        let cur: Vec<u64> = self.in_progress.iter().copied().collect();
        for h in cur {
            if !self.rng.gen_bool(0.35) {
                continue;
            }
            if self.rng.gen_bool(0.7) {
                let n = self.rng.gen_range(1..4);
                self.add_metadata(h, n, 0.95).await;
                let _ = self.store.mark_as_sampled(h).await;
                self.ctx.count("env_sampling_finished_ok");
            } else {
                if self.rng.gen_bool(0.5) {
                    self.add_metadata(h, 1, 0.5).await;
                }
                self.ctx.count("env_sampling_finished_failed");
            }
            self.set_in_progress(h, false);
        }
    }

    async fn start_samplings(&mut self) {
        let stored = self.stored().await;
        let sampled = self.store.inner.get_sampled_ranges().await.unwrap();
        let cands: Vec<u64> = stored
            .filter(|h| !sampled.contains(*h) && !self.promised.contains(h) && !self.in_progress.contains(h))
            .collect();
        if cands.is_empty() {
            return;
        }
        for _ in 0..self.rng.gen_range(1..6) {
            let h = cands[self.rng.gen_range(0..cands.len())];
            self.set_in_progress(h, true);
            self.ctx.count("env_sampling_started");
        }
    }

    async fn sample_directly(&mut self) {
        let stored = self.stored().await;
        let sampled = self.store.inner.get_sampled_ranges().await.unwrap();
        let cands: Vec<u64> = stored.filter(|h| !sampled.contains(*h) && !self.promised.contains(h)).collect();
        if cands.is_empty() {
            return;
        }
        // a run of neighbouring candidates or scattered ones
        let start = self.rng.gen_range(0..cands.len());
        let n = self.rng.gen_range(1..12);
        for &h in cands.iter().skip(start).take(n) {
            if self.rng.gen_bool(0.7) {
                self.add_metadata(h, 1, 0.9).await;
            }
            let _ = self.store.mark_as_sampled(h).await;
            self.set_in_progress(h, false);
            self.ctx.count("env_marked_sampled");
        }
    }

    /// The syncer fills (part of) an unsynced gap next to stored headers or appends new heads.
    async fn insert_headers(&mut self) {
        let stored = self.stored().await;
        let pruned = self.store.inner.get_pruned_ranges().await.unwrap();
        let synced = pruned + &stored;
        let head = stored.head().unwrap_or(self.plan.lo);
        let mut options: Vec<(u64, u64)> = Vec::new();
        let mut prev_end: Option<u64> = None;
        for r in synced.as_ref() {
            if let Some(p) = prev_end {
                let (glo, ghi) = (p + 1, *r.start() - 1);
                let len = self.rng.gen_range(1..=(ghi - glo + 1).min(6));
                if stored.contains(ghi + 1) {
                    options.push((ghi + 1 - len, ghi));
                }
                if stored.contains(glo - 1) {
                    options.push((glo, glo + len - 1));
                }
            }
            prev_end = Some(*r.end());
        }
        if head < self.plan.hi && !stored.is_empty() {
            let len = self.rng.gen_range(1..=(self.plan.hi - head).min(4));
            options.push((head + 1, head + len));
            if head + 3 < self.plan.hi && self.rng.gen_bool(0.3) {
                // a new head that leaves a gap (re-connection)
                options.push((head + 3, head + 3));
            }
        }
        if options.is_empty() {
            return;
        }
        let (a, b) = options[self.rng.gen_range(0..options.len())];
        let hs = self.hdrs(a, b);
        if self.store.insert(hs).await.is_ok() {
            self.ctx.count("env_header_ranges_inserted");
            self.notes.push(format!("insert {a}..={b}"));
        } else {
            self.ctx.count("env_header_insert_refused");
        }
    }

    async fn mutate(&mut self, n: usize) {
        for _ in 0..n {
            match self.rng.gen_range(0..10) {
                0..=2 => self.insert_headers().await,
                3..=5 => self.finish_samplings().await,
                6..=7 => self.start_samplings().await,
                _ => self.sample_directly().await,
            }
        }
    }

    async fn on_cmd(&mut self, cmd: VDaserCmd, activity: &AtomicU64) {
        match cmd {
            VDaserCmd::UpdateHighestPrunableHeight { value } => {
                self.log.push(Ev::Daser { cmd: DCmd::Highest(value) });
                self.ctx.count("daser_update_highest_prunable");
            }
            VDaserCmd::UpdateNumberOfPrunableBlocks { value } => {
                self.log.push(Ev::Daser { cmd: DCmd::Number(value) });
                self.ctx.count("daser_update_number_of_prunable");
            }
            VDaserCmd::WantToPrune { height, respond_to } => {
                if self.rng.gen_bool(0.02) {
                    // the environment moves while the pruner is computing its batch
                    self.mutate(1).await;
                    self.ctx.count("env_mutations_during_batch_computation");
                }
                let sampled = self.store.inner.get_sampled_ranges().await.unwrap().contains(height);
                let stored = self.store.inner.has_at(height).await;
                let granted = if self.in_progress.contains(&height) {
                    false
                } else if stored && !sampled && !self.promised.contains(&height) && self.rng.gen_bool(0.2) {
                    // the sampler has just picked this block
                    self.set_in_progress(height, true);
                    false
                } else {
                    self.promised.insert(height);
                    // a refusal changes nothing (the pruner asks again every round); a grant is progress
                    activity.fetch_add(1, Ordering::SeqCst);
                    true
                };
                self.log.push(Ev::Daser { cmd: DCmd::Want { height, granted } });
                self.ctx.count(if granted { "want_to_prune_granted" } else { "want_to_prune_refused" });
                let _ = respond_to.send(granted);
            }
        }
    }
}

struct Outcome {
    plan: Plan,
    log: Vec<Ev>,
    notes: Vec<String>,
    fatal: Option<String>,
    pruned_events: u64,
    panic: Option<String>,
    stalled: bool,
}

async fn run_case(ctx: &Ctx, chain: &ShardChain, case: u64) -> Outcome {
    let mut rng = ctx.rng(3, case);
    let n = chain.len();
    // heights of this case
    let size = if rng.gen_bool(0.07) { rng.gen_range(560..=n.min(1150)) } else { rng.gen_range(8..140) };
    let lo = if rng.gen_bool(0.3) { 1 } else { rng.gen_range(1..=n - size + 1) };
    let hi = lo + size - 1;
    // window edges
    let pick = |rng: &mut ChaCha8Rng| -> u64 {
        match rng.gen_range(0..10) {
            0 => 0,
            1 => lo.saturating_sub(1),
            2 => hi,
            3 => n,
            4..=6 => rng.gen_range(lo + size / 2..=hi),
            _ => rng.gen_range(lo..=hi),
        }
    };
    let (mut p_edge, mut s_edge) = (pick(&mut rng), pick(&mut rng));
    match rng.gen_range(0..6) {
        0 => s_edge = p_edge,
        1 | 2 => {
            // pruning window smaller than the sampling window
            if p_edge < s_edge {
                std::mem::swap(&mut p_edge, &mut s_edge);
            }
        }
        3 | 4 => {
            // pruning window larger than the sampling window
            if p_edge > s_edge {
                std::mem::swap(&mut p_edge, &mut s_edge);
            }
        }
        _ => {}
    }
    let block_time = match rng.gen_range(0..10) {
        0 => Duration::from_secs(12),
        1..=4 => Duration::from_micros(200),
        5..=7 => Duration::from_millis(1),
        _ => Duration::from_millis(3),
    };
    let plan = Plan { case, p_edge, s_edge, block_time, lo, hi };

    let clock = Clock::new();
    let log: Arc<EventLog<Ev>> = EventLog::new();
    let activity = Arc::new(AtomicU64::new(0));
    let (l1, a1) = (log.clone(), activity.clone());
    let store = Arc::new(LoggedStore::new(
        InMemoryStore::new(),
        clock.clone(),
        Arc::new(move |ev: StoreEvent| {
            let harness = by_harness();
            if !harness && matches!(ev, StoreEvent::Call { op: StoreOp::RemoveHeight(_), .. }) {
                a1.fetch_add(1, Ordering::SeqCst);
            }
            l1.push(Ev::Store { harness, ev })
        }),
    ));
    let l2 = log.clone();
    // In some cases the node is stopped in the middle of the pruner's work: `Pruner::stop()` is called
    // synchronously from inside the k-th blockstore removal the pruner performs, i.e. between two CID
    // removals of one block or between blocks. A header must still never be removed before all its CIDs.
    let stop_at_remove: Option<u64> = if case % 6 == 4 { Some(1 + (case / 6) % 37) } else { None };
    let pruner_cell: Arc<std::sync::OnceLock<Arc<VPruner>>> = Arc::new(std::sync::OnceLock::new());
    let (cell2, removes_by_pruner) = (pruner_cell.clone(), Arc::new(AtomicU64::new(0)));
    let stopped_mid_work = Arc::new(AtomicU64::new(0));
    let stopped2 = stopped_mid_work.clone();
    let blocks = Arc::new(LoggedBlockstore::new(
        InMemoryBlockstore::new(),
        clock.clone(),
        Arc::new(move |ev: BlockstoreEvent| {
            let harness = by_harness();
            if !harness && matches!(ev, BlockstoreEvent::Remove { .. }) {
                let n = removes_by_pruner.fetch_add(1, Ordering::SeqCst) + 1;
                if Some(n) == stop_at_remove {
                    if let Some(p) = cell2.get() {
                        p.stop();
                        stopped2.store(1, Ordering::SeqCst);
                    }
                }
            }
            l2.push(Ev::Block { harness, ev })
        }),
    ));

    let mut run = Run {
        ctx,
        rng,
        chain,
        plan: plan.clone(),
        log: log.clone(),
        store: store.clone(),
        blocks: blocks.clone(),
        in_progress: BTreeSet::new(),
        promised: HashSet::new(),
        next_cid: HashMap::new(),
        notes: Vec::new(),
    };
    run.setup().await;

    let now = Time::now();
    let window = |edge: u64| now.duration_since(chain.cutoff_after(edge)).expect("cutoff in the past");
    let (pruning_window, sampling_window) = (window(p_edge), window(s_edge));

    let events = VEventChannel::new();
    let mut subscriber = events.subscribe();
    let (daser, mut handle) = VDaser::mocked();
    let _ = vcore::take_last_panic();
    let pruner = Arc::new(VPruner::start(&daser, store.clone(), blocks.clone(), &events, block_time, pruning_window, sampling_window));
    let _ = pruner_cell.set(pruner.clone());

    let refresh_possible = block_time < Duration::from_secs(1);
    let mut rounds_left = run.rng.gen_range(0..5);
    let mut idle_ticks = 0;
    let mut last_activity = activity.load(Ordering::SeqCst);
    let mut stalled = true;
    let mut ticker = tokio::time::interval(block_time * 3);
    ticker.set_missed_tick_behavior(tokio::time::MissedTickBehavior::Delay);
    for _ in 0..400_000u32 {
        tokio::select! {
            biased;
            cmd = handle.recv_cmd() => {
                match cmd {
                    Some(cmd) => run.on_cmd(cmd, &activity).await,
                    None => { stalled = false; break; }
                }
            }
            _ = ticker.tick() => {
                let act = activity.load(Ordering::SeqCst);
                if act != last_activity {
                    last_activity = act;
                    idle_ticks = 0;
                    continue;
                }
                idle_ticks += 1;
                if idle_ticks == 1 && refresh_possible {
                    // the pruner re-reads the window edges only after min(1 s, block_time) of wall-clock
                    // time; make that refresh due (affects how much is observed, never a verdict)
                    std::thread::sleep(block_time + Duration::from_micros(100));
                }
                if idle_ticks < 3 {
                    continue;
                }
                if rounds_left == 0 {
                    stalled = false;
                    break;
                }
                rounds_left -= 1;
                let n = run.rng.gen_range(1..4);
                run.mutate(n).await;
                ctx.count("env_mutation_rounds");
                idle_ticks = 0;
            }
        }
    }
    pruner.stop();
    if stopped_mid_work.load(Ordering::SeqCst) == 1 {
        ctx.count("cases_pruner_stopped_inside_a_blockstore_removal");
    }
    for _ in 0..10_000u32 {
        tokio::select! {
            biased;
            _ = pruner.join() => break,
            cmd = handle.recv_cmd() => {
                if let Some(cmd) = cmd {
                    run.on_cmd(cmd, &activity).await;
                }
            }
        }
    }
    let mut fatal = None;
    let mut pruned_events = 0;
    while let Ok(info) = subscriber.try_recv() {
        match info.event {
            NodeEvent::FatalPrunerError { error } => fatal = Some(error),
            NodeEvent::PrunedHeaders { .. } => pruned_events += 1,
            _ => {}
        }
    }
    let panic = vcore::take_last_panic();
    Outcome { plan, log: log.snapshot(), notes: run.notes, fatal, pruned_events, panic, stalled }
}

fn ranges_of(set: &BTreeSet<u64>) -> Vec<(u64, u64)> {
    let mut out: Vec<(u64, u64)> = Vec::new();
    for &h in set {
        match out.last_mut() {
            Some(l) if l.1 + 1 == h => l.1 = h,
            _ => out.push((h, h)),
        }
    }
    out
}

fn model_eq(set: &BTreeSet<u64>, r: &BlockRanges) -> bool {
    let got: Vec<(u64, u64)> = r.as_ref().iter().map(|x| (*x.start(), *x.end())).collect();
    ranges_of(set) == got
}

/// Shadow of the store / blockstore / sampler state, rebuilt from the log.
#[derive(Default)]
struct Model {
    stored: BTreeSet<u64>,
    pruned: BTreeSet<u64>,
    sampled: BTreeSet<u64>,
    meta: HashMap<u64, Vec<Cid>>,
    /// CIDs currently in the blockstore (put returned Ok, no later remove returned Ok)
    blocks: HashSet<Vec<u8>>,
    in_progress: BTreeSet<u64>,
    last_answer: HashMap<u64, bool>,
}

fn judge(ctx: &Ctx, out: &Outcome) -> Result<(), String> {
    let plan = &out.plan;
    let mut m = Model::default();
    // verdicts prepared at the call of a pruner `remove_height`, emitted if it returned Ok
    let mut pending: BTreeMap<u64, (u64, Vec<(&'static str, String)>, &'static str)> = BTreeMap::new();
    let mut snapshot: (String, String, String) = Default::default();
    let mut removed_in_batch = 0u64;
    let mut removed_total = 0u64;
    let mut protected_seen = false;
    let mut classes: BTreeSet<&'static str> = BTreeSet::new();

    let fmt = |set: &BTreeSet<u64>| format!("{:?}", ranges_of(set));
    for ev in &out.log {
        match ev {
            Ev::InProgress { height, on } => {
                if *on {
                    m.in_progress.insert(*height);
                } else {
                    m.in_progress.remove(height);
                }
            }
            Ev::Daser { cmd } => {
                if let DCmd::Want { height, granted } = cmd {
                    m.last_answer.insert(*height, *granted);
                }
            }
            Ev::Block { ev, .. } => match ev {
                BlockstoreEvent::Put { cid, ok: true, .. } => {
                    m.blocks.insert(cid.clone());
                }
                BlockstoreEvent::Remove { cid, ok: true, .. } => {
                    m.blocks.remove(cid);
                    ctx.count("blockstore_removes");
                }
                _ => {}
            },
            Ev::Store { harness, ev } => match ev {
                StoreEvent::Call { id, op: StoreOp::RemoveHeight(h), .. } if !*harness => {
                    let h = *h;
                    let mut v: Vec<(&'static str, String)> = Vec::new();
                    let sampled = m.sampled.contains(&h);
                    let synced = |x: u64| m.stored.contains(&x) || m.pruned.contains(&x);
                    let class;
                    if plan.in_pruning_window(h) {
                        v.push(("inside-pruning-window", format!("height {h} is inside the pruning window (newest height outside it: {})", plan.p_edge)));
                        class = "inside_pruning_window";
                    } else if plan.in_sampling_window(h) {
                        class = "inside_sampling_window_sampled_inner";
                        if !sampled {
                            v.push(("unsampled-inside-sampling-window", format!("height {h} is inside the sampling window (newest height outside it: {}) and not sampled", plan.s_edge)));
                        }
                        let below_gap = h > 1 && !synced(h - 1);
                        let top = m.stored.iter().next_back().copied().max(m.pruned.iter().next_back().copied()).unwrap_or(h);
                        let above_gap = h < top && !synced(h + 1);
                        if below_gap || above_gap {
                            v.push((
                                "borders-unsynced-gap",
                                format!(
                                    "height {h} is inside the sampling window and height {} next to it is neither stored nor pruned",
                                    if below_gap { h - 1 } else { h + 1 }
                                ),
                            ));
                        } else if h == top {
                            // the newest synced header: nothing above it is synced; the text speaks of gaps only
                            ctx.count("removed_newest_synced_header_inside_sampling_window");
                        }
                    } else if sampled {
                        class = "outside_both_windows_sampled";
                    } else {
                        class = "outside_both_windows_unsampled";
                        match m.last_answer.get(&h) {
                            Some(true) => ctx.count("removed_unsampled_after_grant"),
                            Some(false) => ctx.count("removed_unsampled_after_refusal"),
                            None => ctx.count("removed_unsampled_never_asked"),
                        }
                    }
                    if m.in_progress.contains(&h) {
                        v.push(("sampling-in-progress", format!("the sampler is sampling height {h} (last WantToPrune answer: {:?})", m.last_answer.get(&h))));
                    }
                    if let Some(cids) = m.meta.get(&h) {
                        let left: Vec<String> = cids.iter().filter(|c| m.blocks.contains(&c.to_bytes())).map(|c| c.to_string()).collect();
                        if !left.is_empty() {
                            v.push(("cid-left-in-blockstore", format!("height {h}: {} of {} CIDs of its sampling metadata are still in the blockstore: {left:?}", left.len(), cids.len())));
                        }
                        if !cids.is_empty() {
                            ctx.count("removed_heights_with_cids");
                        }
                    }
                    pending.insert(*id, (h, v, class));
                }
                StoreEvent::Return { id, op, ret, .. } => {
                    let ok = !matches!(ret, StoreRet::Err(_));
                    match op {
                        StoreOp::Insert(hs) if ok => {
                            for (h, _) in hs {
                                m.stored.insert(*h);
                                m.pruned.remove(h);
                                m.sampled.remove(h);
                            }
                        }
                        StoreOp::MarkAsSampled(h) if ok => {
                            m.sampled.insert(*h);
                        }
                        StoreOp::UpdateSamplingMetadata(h, cids) if ok => {
                            let e = m.meta.entry(*h).or_default();
                            for c in cids {
                                if !e.contains(c) {
                                    e.push(*c);
                                }
                            }
                        }
                        StoreOp::RemoveHeight(h) => {
                            let prepared = pending.remove(id);
                            if ok {
                                m.stored.remove(h);
                                m.sampled.remove(h);
                                m.meta.remove(h);
                                m.pruned.insert(*h);
                            }
                            if let (true, Some((h, verdicts, class))) = (ok, prepared) {
                                ctx.eval();
                                removed_total += 1;
                                removed_in_batch += 1;
                                classes.insert(class);
                                ctx.count(&format!("removed_{class}"));
                                for (kind, msg) in verdicts {
                                    ctx.violation(
                                        &format!("C35/remove/{kind}"),
                                        &format!("pruner removed a header it must keep: {msg}"),
                                        json!({
                                            "case": plan.case, "height": h,
                                            "newest_height_outside_pruning_window": plan.p_edge,
                                            "newest_height_outside_sampling_window": plan.s_edge,
                                            "block_time_us": plan.block_time.as_micros() as u64,
                                            "pruner_last_read": {"stored": snapshot.0, "pruned": snapshot.1, "sampled": snapshot.2},
                                            "at_removal": {"stored": fmt(&m.stored), "pruned": fmt(&m.pruned), "sampled": fmt(&m.sampled), "in_progress": fmt(&m.in_progress)},
                                            "environment_changes": out.notes,
                                        }),
                                    );
                                }
                            } else if !ok && !*harness {
                                ctx.count("pruner_remove_height_failed");
                            }
                        }
                        // the pruner's own reads: cross-check the shadow state, remember the snapshot
                        StoreOp::GetStoredHeaderRanges if !*harness => {
                            if let StoreRet::Ranges(r) = ret {
                                if !model_eq(&m.stored, r) {
                                    return Err(format!("shadow stored set {} != store answer {r}", fmt(&m.stored)));
                                }
                                snapshot.0 = r.to_string();
                            }
                            if removed_in_batch >= 512 {
                                ctx.count("batches_of_512");
                            }
                            if removed_in_batch > 0 {
                                ctx.count("batches_with_removals");
                            }
                            removed_in_batch = 0;
                            ctx.count("pruner_iterations");
                        }
                        StoreOp::GetPrunedRanges if !*harness => {
                            if let StoreRet::Ranges(r) = ret {
                                if !model_eq(&m.pruned, r) {
                                    return Err(format!("shadow pruned set {} != store answer {r}", fmt(&m.pruned)));
                                }
                                snapshot.1 = r.to_string();
                            }
                        }
                        StoreOp::GetSampledRanges if !*harness => {
                            if let StoreRet::Ranges(r) = ret {
                                if !model_eq(&m.sampled, r) {
                                    return Err(format!("shadow sampled set {} != store answer {r}", fmt(&m.sampled)));
                                }
                                snapshot.2 = r.to_string();
                            }
                        }
                        _ => {}
                    }
                }
                _ => {}
            },
        }
    }
    if removed_in_batch >= 512 {
        ctx.count("batches_of_512");
    }

    // what was (rightly) kept although it is outside the pruning window: the opportunities to get it wrong
    let top = m.stored.iter().next_back().copied().max(m.pruned.iter().next_back().copied()).unwrap_or(0);
    for &h in &m.stored {
        if plan.in_pruning_window(h) {
            ctx.count("kept_inside_pruning_window");
            protected_seen = true;
            continue;
        }
        let synced = |x: u64| m.stored.contains(&x) || m.pruned.contains(&x);
        let edge = (h > 1 && !synced(h - 1)) || (h < top && !synced(h + 1));
        if plan.in_sampling_window(h) {
            if !m.sampled.contains(&h) {
                ctx.count("kept_unsampled_inside_sampling_window");
                protected_seen = true;
            } else if edge {
                ctx.count("kept_sampled_gap_border_inside_sampling_window");
                protected_seen = true;
            } else if h == top {
                ctx.count("kept_newest_synced_header_inside_sampling_window");
            } else {
                ctx.count("kept_prunable_inside_sampling_window");
            }
        } else if m.in_progress.contains(&h) {
            ctx.count("kept_sampling_in_progress");
            protected_seen = true;
        } else {
            ctx.count("kept_prunable_outside_both_windows");
        }
    }
    ctx.count(match plan.p_edge.cmp(&plan.s_edge) {
        std::cmp::Ordering::Greater => "cases_pruning_window_smaller_than_sampling_window",
        std::cmp::Ordering::Less => "cases_pruning_window_larger_than_sampling_window",
        std::cmp::Ordering::Equal => "cases_windows_equal",
    });
    ctx.count_n("removals_observed", removed_total);
    if removed_total > 0 && protected_seen {
        ctx.nontrivial(&(plan.case, plan.p_edge, plan.s_edge, removed_total, classes));
    }
    ctx.sample(|| {
        json!({
            "case": plan.case, "heights": [plan.lo, plan.hi],
            "newest_height_outside_pruning_window": plan.p_edge,
            "newest_height_outside_sampling_window": plan.s_edge,
            "removed": removed_total, "left_stored": fmt(&m.stored), "pruned": fmt(&m.pruned),
            "environment_changes": out.notes,
        })
    });
    Ok(())
}

pub fn run(ctx: &Ctx) {
    // The Daser side of "never removes a header whose sampling is in progress": the real Daser must
    // not grant such a block to the pruner (real Daser, harness as pruner; see c34.rs).
    crate::c34::daser_grant_scan(ctx);
    ctx.rule(
        "Case = a slice (8..140, 7 % of the cases 560..1150 heights) of one honest chain per shard (headers 2-7 h apart) stored \
         with runs, unsynced gaps and heights pruned earlier; random sampled sets, sampling metadata with 1-3 sample \
         CIDs whose blocks are (mostly) in the blockstore, a set of heights whose sampling is in progress; window \
         sizes chosen so that each window edge lies in the middle between two header times (pruning window \
         smaller / larger / equal to the sampling window, edges also below / above all stored heights); block_time \
         200 us..3 ms (window-edge cache refreshes) or 12 s (it never does). While the real Pruner runs the harness \
         answers WantToPrune (refuse iff sampling in progress, sometimes starting one at that moment), fills gaps, \
         appends heads, finishes samplings (metadata + blocks + mark_as_sampled) and starts new ones, at quiescent \
         points and while the pruner computes a batch. Non-trivial = case in which the pruner removed >= 1 header \
         and >= 1 protected header (inside pruning window / unsampled or gap border inside sampling window / \
         sampling in progress) existed at the end.",
    );
    ctx.assume("header times and window sizes: in/outside a window is fixed by construction with >= 1 h slack; a run lasts far less");
    ctx.assume("'sampling in progress' = membership in the harness's in-progress set, which the mocked daser's WantToPrune answers reflect exactly (granted heights are never sampled afterwards)");
    ctx.assume("'borders an unsynced gap' = a neighbouring height below the newest synced height is neither stored nor pruned at the moment of removal (height 0 and the space above the newest synced header are not gaps)");
    ctx.assume("shadow store state rebuilt from LoggedStore returns (cross-checked against every range snapshot the pruner reads)");

    let shards = ctx.cores();
    let cases: u64 = if ctx.tiny() { 2 } else { ctx.scale(2_000, 30_000) };
    let chain_len = if ctx.tiny() { 160 } else { 1200 };
    let only: Option<u64> = ctx.replay.as_ref().and_then(|r| r.get("detail")?.get("case")?.as_u64());

    // 16 chains for the whole run; a case always uses chain `case % 16` (independent of the shard count)
    let built: std::sync::Mutex<Vec<(usize, ShardChain)>> = std::sync::Mutex::new(Vec::new());
    let next_chain = AtomicU64::new(0);
    ctx.par(shards, |_| {
        loop {
            let i = next_chain.fetch_add(1, Ordering::SeqCst) as usize;
            if i >= 16 {
                break;
            }
            if only.is_some_and(|c| (c % 16) as usize != i) {
                continue;
            }
            let c = build_chain(ctx, i, chain_len);
            built.lock().unwrap().push((i, c));
        }
    });
    let mut built = built.into_inner().unwrap();
    built.sort_by_key(|x| x.0);
    let chains: HashMap<u64, ShardChain> = built.into_iter().map(|(i, c)| (i as u64, c)).collect();
    let chains = &chains;
    let next_case = AtomicU64::new(0);
    ctx.par(shards, |_shard| {
        let rt = tokio::runtime::Builder::new_current_thread().enable_time().start_paused(true).build().unwrap();
        loop {
            // cases are handed out dynamically (a case's content depends only on its number)
            let case = match only {
                Some(c) if next_case.fetch_add(1, Ordering::SeqCst) == 0 => c,
                Some(_) => break,
                None => {
                    let c = next_case.fetch_add(1, Ordering::SeqCst);
                    if c >= cases {
                        break;
                    }
                    c
                }
            };
            let chain = &chains[&(case % 16)];
            let out = rt.block_on(HARNESS.scope((), run_case(ctx, chain, case)));
            ctx.count("cases");
            if let Some(p) = &out.panic {
                ctx.inconclusive(&format!("a task panicked in case {case}: {p}"));
                return;
            }
            if out.stalled {
                ctx.inconclusive(&format!("case {case}: pruner did not become quiescent within the step bound"));
                return;
            }
            if let Some(e) = &out.fatal {
                ctx.count("pruner_fatal_errors");
                ctx.extra("last_pruner_fatal_error", json!({"case": case, "error": e}));
            }
            ctx.count_n("pruned_headers_events", out.pruned_events);
            if let Err(e) = judge(ctx, &out) {
                ctx.inconclusive(&format!("harness shadow state diverged in case {case}: {e}"));
                return;
            }
        }
    });

    if only.is_none() && !ctx.tiny() {
        let q = ctx.quick();
        ctx.floor("cases", if q { 2_000 } else { 30_000 });
        ctx.floor("removals_observed", if q { 15_000 } else { 300_000 });
        ctx.floor("removed_outside_both_windows_sampled", 2_000);
        ctx.floor("removed_outside_both_windows_unsampled", 2_000);
        ctx.floor("removed_inside_sampling_window_sampled_inner", 2_000);
        ctx.floor("removed_heights_with_cids", 2_000);
        ctx.floor("want_to_prune_granted", 2_000);
        ctx.floor("cases_pruner_stopped_inside_a_blockstore_removal", ctx.scale(60, 900));
        ctx.floor("want_to_prune_refused", 500);
        ctx.floor("kept_sampling_in_progress", 200);
        ctx.floor("kept_sampled_gap_border_inside_sampling_window", 200);
        ctx.floor("kept_unsampled_inside_sampling_window", 500);
        ctx.floor("kept_inside_pruning_window", 2_000);
        ctx.floor("cases_pruning_window_smaller_than_sampling_window", 300);
        ctx.floor("cases_pruning_window_larger_than_sampling_window", 300);
        ctx.floor("batches_of_512", 10);
        ctx.floor("env_mutations_during_batch_computation", 100);
    }
}
