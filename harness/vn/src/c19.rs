//! C19 — header stores conform to one abstract store model.
//!
//! Random histories (valid and invalid insert batches of every rejection kind, removals,
//! re-insertions, sampling marks, metadata updates) are applied in lock step to `InMemoryStore`,
//! `RedbStore::in_memory()` and `EitherStore` wrapping each. The executable `StoreModel`
//! (c19_model.rs) predicts the admissible result kinds of every operation and, after every
//! operation, the answer of every query of a full sweep.

#[path = "c19_model.rs"]
mod c19_model;

use c19_model::{Cfg, common_assumptions, run_histories};
use vcore::Ctx;

pub fn run(ctx: &Ctx) {
    ctx.rule(
        "history = chain tree (main chain of U headers, forks branching off it incl. nested forks, a chain with another \
         chain id) + random ops: inserts (Vec / new_unchecked / single header; valid at every admissible place: empty store, \
         new head adjacent or detached, gap fill from either side or both; invalid: broken batch (gap, swap, fork member, \
         foreign member, repeated header, reversed), neighbour mismatch left/right, constraint violations (inside, overlap \
         start/end, superset, island), duplicate hash of a stored header or inside the batch at first/middle/last position), \
         corrected batches, remove_height (tail/head/middle/absent), mark_as_sampled, update_sampling_metadata with \
         overlapping CID lists. After every op: result kind vs model, full sweep (head, head_height, 3 range sets, \
         get_by_height/has_at/get_sampling_metadata for 0..=U+1, get_by_hash/has for every hash ever generated, 6 get_range) \
         vs model on 4 backends. Non-trivial history = >=1 rejected op, >=1 removal, >=1 re-insertion of a removed height; \
         distinct = hash of the final abstract state.",
    );
    common_assumptions(ctx);
    let cfg = Cfg {
        prop: "C19",
        universes: ctx.scale(vec![10, 20, 32], vec![16, 32, 64, 128, 200]),
        ops: ctx.scale(100, 300),
        max_batch: ctx.scale(8, 16),
        w: [30, 22, 16, 12, 14],
        p_correct: 0.5,
        forks_everywhere: false,
        n_forks: 4,
        histories: ctx.scale(64, 112),
        positional: false,
    };
    ctx.extra("config", vcore::json!(format!("{cfg:?}")));
    run_histories(ctx, &cfg);
    ctx.floor("histories_nontrivial", ctx.scale(32, 70));
    for k in [
        "insert_rejected_HeadersVerificationFailed",
        "insert_rejected_NeighborsVerificationFailed",
        "insert_rejected_ConstraintsNotMet",
        "insert_rejected_HashExists",
        "remove_height_rejected_NotFound",
        "mark_as_sampled_rejected_NotFound",
        "update_sampling_metadata_rejected_NotFound",
        "reinsert_after_removal",
        "corrected_batches_inserted",
        "insert_intent_valid",
    ] {
        ctx.floor(k, 20);
    }
}
