//! Shared engine of the store monitors C19 (conformance to one abstract model), C20 (failed
//! operations leave the store unchanged) and C21 (fork-free hash-linked segments).
//!
//! One *history* = a generated tree of header chains (main chain, forks branching off it, nested
//! forks, a foreign chain with another chain id) + a random sequence of store operations applied
//! in lock step to `InMemoryStore`, `RedbStore::in_memory()`, `EitherStore::Left(InMemoryStore)`
//! and `EitherStore::Right(RedbStore)`. An executable `StoreModel` (maps and sets, written from
//! the `Store` trait documentation and the property text) predicts the set of admissible result
//! kinds of every operation; after every operation a full query sweep of every backend is
//! compared with the model (C19), with the sweep taken before the operation if the operation
//! returned an error (C20), and checked for the chain invariant with generation ground truth (C21).
//!
//! The engine produces findings for all three properties; each `cNN.rs` reports its own.

#![allow(dead_code)]

use std::collections::{BTreeMap, BTreeSet, HashMap, HashSet};
use std::ops::Bound;
use std::time::Duration;

use celestia_types::ExtendedHeader;
use celestia_types::hash::Hash;
use cid::Cid;
use lumina_node::store::{
    BlockRanges, EitherStore, InMemoryStore, RedbStore, Store, StoreError, VerifiedExtendedHeaders,
};
use tendermint_proto::Protobuf;
use vcore::{ChaCha8Rng, Ctx, Rng, SeedableRng, SliceRandom, Value, guard, hash64, json, panic_site};
use vgen::chain::{ChainGen, Val};
use vnode::store_err_kind;

// ---------------------------------------------------------------------------------------------
// Header pool with generation ground truth
// ---------------------------------------------------------------------------------------------

pub struct Hdr {
    pub h: ExtendedHeader,
    pub height: u64,
    pub hash: Hash,
    /// 64-bit hash of the protobuf encoding (identity of the full header, not only its `hash()`).
    pub enc: u64,
    /// Ground truth by construction: the header this one was generated on top of.
    pub parent: Option<usize>,
    /// First chain that contains it.
    pub chain: usize,
    /// `commit.block_id.hash` was overwritten with the hash of another header.
    pub tampered: bool,
}

pub struct Chain {
    pub name: String,
    pub by_height: BTreeMap<u64, usize>,
    pub vals: Vec<Val>,
    pub chain_id: tendermint::chain::Id,
    pub app_version: u64,
    /// Height of the last header shared with the chain it was forked from (0 = root chain).
    pub branch: u64,
}

pub struct Pool {
    pub hdrs: Vec<Hdr>,
    by_enc: HashMap<u64, usize>,
    pub chains: Vec<Chain>,
    /// Distinct `hash()` values ever presented, in sweep order.
    pub hashes: Vec<Hash>,
    hash_ix: HashMap<Hash, usize>,
    pub universe: u64,
    block_time: Duration,
    fork_rng: ChaCha8Rng,
}

fn encoding_hash(h: &ExtendedHeader) -> u64 {
    hash64(&h.clone().encode_vec()[..])
}

impl Pool {
    fn intern(&mut self, h: &ExtendedHeader, parent: Option<usize>, chain: usize, tampered: bool) -> usize {
        let enc = encoding_hash(h);
        if let Some(i) = self.by_enc.get(&enc) {
            if &self.hdrs[*i].h == h {
                return *i;
            }
        }
        let idx = self.hdrs.len();
        let hash = h.commit.block_id.hash;
        self.hdrs.push(Hdr {
            h: h.clone(),
            height: h.header.height.value(),
            hash,
            enc,
            parent,
            chain,
            tampered,
        });
        self.by_enc.insert(enc, idx);
        if !self.hash_ix.contains_key(&hash) {
            self.hash_ix.insert(hash, self.hashes.len());
            self.hashes.push(hash);
        }
        idx
    }

    fn add_chain(&mut self, g: &ChainGen, name: String, branch: u64) -> usize {
        let ci = self.chains.len();
        let mut by_height = BTreeMap::new();
        let mut prev = None;
        for h in &g.headers {
            let idx = self.intern(h, prev, ci, false);
            by_height.insert(h.header.height.value(), idx);
            prev = Some(idx);
        }
        self.chains.push(Chain {
            name,
            by_height,
            vals: g.vals.clone(),
            chain_id: g.chain_id.clone(),
            app_version: g.app_version,
            branch,
        });
        ci
    }

    pub fn hash_index(&self, h: &Hash) -> Option<usize> {
        self.hash_ix.get(h).copied()
    }

    /// Identity of a header returned by a store.
    pub fn ident(&self, h: &ExtendedHeader) -> V {
        let enc = encoding_hash(h);
        match self.by_enc.get(&enc) {
            Some(i) if &self.hdrs[*i].h == h => V::Hdr(*i),
            _ => V::Foreign(enc),
        }
    }

    /// Copy of header `base` whose `hash()` is overwritten with `dup`.
    pub fn tamper(&mut self, base: usize, dup: Hash) -> usize {
        let mut h = self.hdrs[base].h.clone();
        h.commit.block_id.hash = dup;
        let (parent, chain) = (self.hdrs[base].parent, self.hdrs[base].chain);
        self.intern(&h, parent, chain, true)
    }

    /// `n` fresh headers generated on top of pool header `tip` (same validators as its chain), so
    /// that they hash-link to whatever `tip.hash()` is (also for a tampered tip).
    pub fn extend_from(&mut self, tip: usize, n: u64) -> Vec<usize> {
        let c = &self.chains[self.hdrs[tip].chain];
        let tip_h = self.hdrs[tip].h.clone();
        let mut seed = [0u8; 32];
        self.fork_rng.fill(&mut seed);
        let mut g = ChainGen {
            rng: ChaCha8Rng::from_seed(seed),
            chain_id: c.chain_id.clone(),
            app_version: c.app_version,
            vals: c.vals.clone(),
            time: (tip_h.header.time + self.block_time).unwrap(),
            block_time: self.block_time,
            headers: vec![tip_h],
            signers: vec![],
            next_height: self.hdrs[tip].height + 1,
        };
        let chain = self.hdrs[tip].chain;
        let mut prev = tip;
        let mut out = Vec::new();
        for _ in 0..n {
            let h = g.next();
            prev = self.intern(&h, Some(prev), chain, false);
            out.push(prev);
        }
        out
    }

    pub fn describe(&self, batch: &[usize]) -> String {
        if batch.is_empty() {
            return "[]".into();
        }
        let items: Vec<String> = batch
            .iter()
            .map(|i| {
                let h = &self.hdrs[*i];
                format!(
                    "{}@{}{}",
                    self.chains[h.chain].name,
                    h.height,
                    if h.tampered { "!" } else { "" }
                )
            })
            .collect();
        format!("[{}]", items.join(" "))
    }
}

/// Shape of the chain tree of one history.
#[derive(Clone, Debug)]
pub struct TreeSpec {
    pub universe: u64,
    /// (fork height on the main chain, number of own headers)
    pub forks: Vec<(u64, u64)>,
    pub n_vals: usize,
}

pub fn build_pool(rng: &mut ChaCha8Rng, spec: &TreeSpec) -> Pool {
    let u = spec.universe;
    let bt = Duration::from_secs(1);
    // every header time is >= 3 days in the past (far away from the clock-drift check)
    let start = ChainGen::start_time_for(u + 64, bt, Duration::from_secs(3 * 86_400));
    let powers: Vec<u64> = (0..spec.n_vals).map(|_| rng.gen_range(1..100)).collect();
    let mut pool = Pool {
        hdrs: Vec::new(),
        by_enc: HashMap::new(),
        chains: Vec::new(),
        hashes: Vec::new(),
        hash_ix: HashMap::new(),
        universe: u,
        block_time: bt,
        fork_rng: ChaCha8Rng::from_seed(rng.r#gen()),
    };
    let mut main = ChainGen::new(ChaCha8Rng::from_seed(rng.r#gen()), "verif-main", 2, &powers, 1, start, bt);
    let mut forks: Vec<(ChainGen, u64)> = Vec::new();
    for h in 1..=u {
        main.next();
        for (k, len) in spec.forks.iter().filter(|f| f.0 == h) {
            let n = (*len).min(u - h);
            if n == 0 {
                continue;
            }
            let mut f = main.fork(rng.r#gen());
            if n >= 4 && rng.gen_bool(0.5) {
                // nested fork half way
                f.next_many(n / 2);
                let mut g = f.fork(rng.r#gen());
                g.next_many(n - n / 2);
                forks.push((g, *k + n / 2));
                f.next_many(n - n / 2);
            } else {
                f.next_many(n);
            }
            forks.push((f, *k));
        }
    }
    pool.add_chain(&main, "main".into(), 0);
    for (i, (f, k)) in forks.iter().enumerate() {
        pool.add_chain(f, format!("f{i}k{k}"), *k);
    }
    let fpowers: Vec<u64> = (0..spec.n_vals).map(|_| rng.gen_range(1..100)).collect();
    let mut foreign = ChainGen::new(ChaCha8Rng::from_seed(rng.r#gen()), "verif-other", 2, &fpowers, 1, start, bt);
    foreign.next_many(u);
    pool.add_chain(&foreign, "other".into(), 0);
    pool
}

/// "y is the adjacent successor of x" as stated by `ExtendedHeader::verify` documentation, on
/// public fields only (heights adjacent, same chain id, later time, validator-set hand-over,
/// hash link). Times of generated headers are far in the past, so the clock-drift rule never
/// decides.
pub fn links(x: &ExtendedHeader, y: &ExtendedHeader) -> bool {
    y.header.height.value() == x.header.height.value() + 1
        && y.header.chain_id == x.header.chain_id
        && y.header.time.after(x.header.time)
        && y.header.validators_hash == x.header.next_validators_hash
        && y.header.last_block_id.map(|b| b.hash).unwrap_or_default() == x.commit.block_id.hash
}

// ---------------------------------------------------------------------------------------------
// Queries, values, sweeps
// ---------------------------------------------------------------------------------------------

#[derive(Clone, Debug, PartialEq, Eq, Hash)]
pub enum Q {
    Head,
    HeadHeight,
    Stored,
    Sampled,
    Pruned,
    ByHeight(u64),
    HasAt(u64),
    Meta(u64),
    ByHash(usize),
    Has(usize),
    Range(Option<u64>, Option<u64>),
}

impl Q {
    pub fn name(&self) -> &'static str {
        match self {
            Q::Head => "get_head",
            Q::HeadHeight => "head_height",
            Q::Stored => "get_stored_header_ranges",
            Q::Sampled => "get_sampled_ranges",
            Q::Pruned => "get_pruned_ranges",
            Q::ByHeight(_) => "get_by_height",
            Q::HasAt(_) => "has_at",
            Q::Meta(_) => "get_sampling_metadata",
            Q::ByHash(_) => "get_by_hash",
            Q::Has(_) => "has",
            Q::Range(..) => "get_range",
        }
    }
}

#[derive(Clone, Debug, PartialEq, Eq, Hash)]
pub enum V {
    /// Header of the pool (full identity).
    Hdr(usize),
    /// A header that was never given to the store (by encoding hash).
    Foreign(u64),
    Hdrs(Vec<V>),
    U(u64),
    B(bool),
    Ranges(Vec<(u64, u64)>),
    /// Sampling metadata: `None` = not set; `Some(sorted distinct cid indices)`.
    Meta(Option<Vec<usize>>),
    Err(&'static str),
    /// Model wildcard: the documentation does not fix the answer.
    Any,
}

fn same(got: &V, want: &V) -> bool {
    matches!(want, V::Any) || got == want
}

#[derive(Clone, Debug, Default)]
pub struct Sweep {
    pub singles: Vec<V>, // head, head_height, stored, sampled, pruned
    pub by_height: Vec<V>,
    pub has_at: Vec<V>,
    pub meta: Vec<V>,
    pub by_hash: Vec<V>,
    pub has: Vec<V>,
    pub ranges: Vec<V>,
    /// Exact CID lists (order, duplicates) for cross-backend observation.
    pub meta_exact: Vec<Option<Vec<usize>>>,
}

const SINGLES: [Q; 5] = [Q::Head, Q::HeadHeight, Q::Stored, Q::Sampled, Q::Pruned];

pub struct Plan {
    /// heights 0..=universe+1
    pub heights: Vec<u64>,
    pub ranges: Vec<(Option<u64>, Option<u64>)>,
}

fn normalize(r: &BlockRanges) -> Vec<(u64, u64)> {
    let mut out: Vec<(u64, u64)> = Vec::new();
    for x in r.as_ref().iter() {
        let (a, b) = (*x.start(), *x.end());
        if a > b {
            continue;
        }
        if let Some(last) = out.last_mut() {
            if a <= last.1.saturating_add(1) && a >= last.0 {
                last.1 = last.1.max(b);
                continue;
            }
        }
        out.push((a, b));
    }
    out
}

fn err_v(e: &StoreError) -> V {
    V::Err(store_err_kind(e))
}

fn bound(lo: Option<u64>, hi: Option<u64>) -> (Bound<u64>, Bound<u64>) {
    (
        lo.map(Bound::Included).unwrap_or(Bound::Unbounded),
        hi.map(Bound::Included).unwrap_or(Bound::Unbounded),
    )
}

async fn sweep_store<S: Store>(s: &S, plan: &Plan, pool: &Pool, cid_ix: &HashMap<Cid, usize>) -> Sweep {
    let mut w = Sweep::default();
    w.singles.push(match s.get_head().await {
        Ok(h) => pool.ident(&h),
        Err(e) => err_v(&e),
    });
    w.singles.push(match s.head_height().await {
        Ok(h) => V::U(h),
        Err(e) => err_v(&e),
    });
    for (i, r) in [
        s.get_stored_header_ranges().await,
        s.get_sampled_ranges().await,
        s.get_pruned_ranges().await,
    ]
    .into_iter()
    .enumerate()
    {
        let _ = i;
        w.singles.push(match r {
            Ok(r) => V::Ranges(normalize(&r)),
            Err(e) => err_v(&e),
        });
    }
    for &h in &plan.heights {
        w.by_height.push(match s.get_by_height(h).await {
            Ok(x) => pool.ident(&x),
            Err(e) => err_v(&e),
        });
        w.has_at.push(V::B(s.has_at(h).await));
        match s.get_sampling_metadata(h).await {
            Ok(None) => {
                w.meta.push(V::Meta(None));
                w.meta_exact.push(None);
            }
            Ok(Some(m)) => {
                let exact: Vec<usize> = m.cids.iter().map(|c| cid_ix.get(c).copied().unwrap_or(usize::MAX)).collect();
                let mut set = exact.clone();
                set.sort();
                set.dedup();
                w.meta.push(V::Meta(Some(set)));
                w.meta_exact.push(Some(exact));
            }
            Err(e) => {
                w.meta.push(err_v(&e));
                w.meta_exact.push(None);
            }
        }
    }
    for hash in &pool.hashes {
        w.by_hash.push(match s.get_by_hash(hash).await {
            Ok(x) => pool.ident(&x),
            Err(e) => err_v(&e),
        });
        w.has.push(V::B(s.has(hash).await));
    }
    for (lo, hi) in &plan.ranges {
        w.ranges.push(match s.get_range(bound(*lo, *hi)).await {
            Ok(v) => V::Hdrs(v.iter().map(|x| pool.ident(x)).collect()),
            Err(e) => err_v(&e),
        });
    }
    w
}

/// First query on which two sweeps differ. `got` may be longer than `want` in the by-hash
/// sections (hashes presented later); only the common prefix is compared.
pub fn diff(plan: &Plan, got: &Sweep, want: &Sweep) -> Option<(Q, V, V)> {
    for (i, q) in SINGLES.iter().enumerate() {
        if !same(&got.singles[i], &want.singles[i]) {
            return Some((q.clone(), got.singles[i].clone(), want.singles[i].clone()));
        }
    }
    for (i, h) in plan.heights.iter().enumerate() {
        if !same(&got.has_at[i], &want.has_at[i]) {
            return Some((Q::HasAt(*h), got.has_at[i].clone(), want.has_at[i].clone()));
        }
        if !same(&got.by_height[i], &want.by_height[i]) {
            return Some((Q::ByHeight(*h), got.by_height[i].clone(), want.by_height[i].clone()));
        }
        if !same(&got.meta[i], &want.meta[i]) {
            return Some((Q::Meta(*h), got.meta[i].clone(), want.meta[i].clone()));
        }
    }
    let n = got.by_hash.len().min(want.by_hash.len());
    for i in 0..n {
        if !same(&got.has[i], &want.has[i]) {
            return Some((Q::Has(i), got.has[i].clone(), want.has[i].clone()));
        }
        if !same(&got.by_hash[i], &want.by_hash[i]) {
            return Some((Q::ByHash(i), got.by_hash[i].clone(), want.by_hash[i].clone()));
        }
    }
    for (i, (lo, hi)) in plan.ranges.iter().enumerate() {
        if !same(&got.ranges[i], &want.ranges[i]) {
            return Some((Q::Range(*lo, *hi), got.ranges[i].clone(), want.ranges[i].clone()));
        }
    }
    None
}

// ---------------------------------------------------------------------------------------------
// The abstract store model
// ---------------------------------------------------------------------------------------------

#[derive(Clone, Copy, Debug, PartialEq, Eq, Hash)]
pub enum Via {
    /// `Vec<ExtendedHeader>` (internally verified by `TryInto<VerifiedExtendedHeaders>`).
    Vec,
    /// `unsafe VerifiedExtendedHeaders::new_unchecked`.
    Unchecked,
    /// a single `ExtendedHeader` (`From<ExtendedHeader>`).
    Single,
}

#[derive(Clone, Debug)]
pub enum Op {
    Insert {
        batch: Vec<usize>,
        via: Via,
        /// What the generator meant to build (coverage only; the model decides the prediction).
        intent: &'static str,
        /// (position of the defect inside the batch, batch length)
        pos: Option<(usize, usize)>,
        /// A batch for the same slot that is valid in the current state.
        base: Option<Vec<usize>>,
        /// This is the corrected batch of a failed insert of that kind.
        corrects: Option<&'static str>,
    },
    Remove(u64),
    Mark(u64),
    Meta(u64, Vec<usize>),
}

impl Op {
    pub fn name(&self) -> &'static str {
        match self {
            Op::Insert { .. } => "insert",
            Op::Remove(_) => "remove_height",
            Op::Mark(_) => "mark_as_sampled",
            Op::Meta(..) => "update_sampling_metadata",
        }
    }
    pub fn describe(&self, pool: &Pool) -> String {
        match self {
            Op::Insert { batch, via, intent, pos, corrects, .. } => format!(
                "insert {via:?} {} intent={intent}{}{}",
                pool.describe(batch),
                pos.map(|(p, l)| format!(" defect@{p}/{l}")).unwrap_or_default(),
                corrects.map(|k| format!(" (corrected batch after {k})")).unwrap_or_default()
            ),
            Op::Remove(h) => format!("remove_height {h}"),
            Op::Mark(h) => format!("mark_as_sampled {h}"),
            Op::Meta(h, c) => format!("update_sampling_metadata {h} cids={c:?}"),
        }
    }
}

#[derive(Clone, Default, Debug)]
pub struct StoreModel {
    /// height -> header
    pub stored: BTreeMap<u64, usize>,
    /// hash() -> height of the stored header carrying it
    pub by_hash: HashMap<Hash, u64>,
    pub sampled: BTreeSet<u64>,
    pub pruned: BTreeSet<u64>,
    /// height -> every CID added since the header was (last) inserted
    pub meta: BTreeMap<u64, BTreeSet<usize>>,
}

pub fn to_ranges(it: impl Iterator<Item = u64>) -> Vec<(u64, u64)> {
    let mut out: Vec<(u64, u64)> = Vec::new();
    for h in it {
        match out.last_mut() {
            Some(l) if l.1 + 1 == h => l.1 = h,
            _ => out.push((h, h)),
        }
    }
    out
}

impl StoreModel {
    pub fn head(&self) -> Option<u64> {
        self.stored.keys().next_back().copied()
    }
    pub fn stored_ranges(&self) -> Vec<(u64, u64)> {
        to_ranges(self.stored.keys().copied())
    }

    /// The result kinds the documentation admits for this insert ("Ok" alone if no rejection
    /// reason applies). When several rejection reasons apply at once, the text does not say which
    /// one is reported, so all of them are admitted.
    pub fn predict_insert(&self, pool: &Pool, batch: &[usize], via: Via) -> Vec<&'static str> {
        if batch.is_empty() {
            return vec!["Ok"];
        }
        let hs: Vec<&Hdr> = batch.iter().map(|i| &pool.hdrs[*i]).collect();
        if via == Via::Vec && !hs.windows(2).all(|w| links(&w[0].h, &w[1].h)) {
            // rejected by the conversion, before the store is consulted
            return vec!["HeadersVerificationFailed"];
        }
        let a = hs[0].height;
        let b = hs[hs.len() - 1].height;
        let mut errs = Vec::new();
        // insertion constraints (property C18 / `check_insertion_constraints` documentation)
        let valid = a >= 1 && a <= b;
        let overlap = valid && self.stored.range(a..=b).next().is_some();
        let prev_stored = a > 1 && self.stored.contains_key(&(a - 1));
        let next_stored = self.stored.contains_key(&(b + 1));
        let admitted_place = self.stored.is_empty() || self.head().is_some_and(|hd| a > hd) || prev_stored || next_stored;
        if !valid || overlap || !admitted_place {
            errs.push("ConstraintsNotMet");
        } else {
            let mut bad = false;
            if prev_stored {
                bad |= !links(&pool.hdrs[self.stored[&(a - 1)]].h, &hs[0].h);
            }
            if next_stored {
                bad |= !links(&hs[hs.len() - 1].h, &pool.hdrs[self.stored[&(b + 1)]].h);
            }
            if bad {
                errs.push("NeighborsVerificationFailed");
            }
        }
        let mut seen = HashSet::new();
        if hs.iter().any(|h| self.by_hash.contains_key(&h.hash) || !seen.insert(h.hash)) {
            errs.push("HashExists");
        }
        if errs.is_empty() { vec!["Ok"] } else { errs }
    }

    pub fn predict(&self, pool: &Pool, op: &Op) -> Vec<&'static str> {
        match op {
            Op::Insert { batch, via, .. } => self.predict_insert(pool, batch, *via),
            Op::Remove(h) | Op::Mark(h) | Op::Meta(h, _) => {
                if self.stored.contains_key(h) { vec!["Ok"] } else { vec!["NotFound"] }
            }
        }
    }

    /// Apply an operation the model predicts to succeed.
    pub fn apply(&mut self, pool: &Pool, op: &Op) {
        match op {
            Op::Insert { batch, .. } => {
                for i in batch {
                    let h = &pool.hdrs[*i];
                    self.stored.insert(h.height, *i);
                    self.by_hash.insert(h.hash, h.height);
                    self.pruned.remove(&h.height);
                    // a freshly inserted header is neither sampled nor has metadata (removal
                    // cleared both)
                }
            }
            Op::Remove(h) => {
                if let Some(i) = self.stored.remove(h) {
                    self.by_hash.remove(&pool.hdrs[i].hash);
                }
                self.sampled.remove(h);
                self.meta.remove(h);
                self.pruned.insert(*h);
            }
            Op::Mark(h) => {
                self.sampled.insert(*h);
            }
            Op::Meta(h, cids) => {
                self.meta.entry(*h).or_default().extend(cids.iter().copied());
            }
        }
    }

    /// Invariants of the model itself (harness sanity; the property states them).
    pub fn invariant(&self) -> Result<(), String> {
        if !self.sampled.iter().all(|h| self.stored.contains_key(h)) {
            return Err("sampled is not within stored".into());
        }
        if self.pruned.iter().any(|h| self.stored.contains_key(h)) {
            return Err("pruned intersects stored".into());
        }
        if !self.meta.keys().all(|h| self.stored.contains_key(h)) {
            return Err("metadata for a height that is not stored".into());
        }
        if self.by_hash.len() != self.stored.len() {
            return Err("hash index size differs from height index".into());
        }
        Ok(())
    }

    pub fn expect(&self, pool: &Pool, plan: &Plan) -> Sweep {
        let nf = || V::Err("NotFound");
        let mut w = Sweep::default();
        match self.head() {
            Some(hd) => {
                w.singles.push(V::Hdr(self.stored[&hd]));
                w.singles.push(V::U(hd));
            }
            None => {
                w.singles.push(nf());
                w.singles.push(nf());
            }
        }
        w.singles.push(V::Ranges(self.stored_ranges()));
        w.singles.push(V::Ranges(to_ranges(self.sampled.iter().copied())));
        w.singles.push(V::Ranges(to_ranges(self.pruned.iter().copied())));
        for h in &plan.heights {
            match self.stored.get(h) {
                Some(i) => {
                    w.by_height.push(V::Hdr(*i));
                    w.has_at.push(V::B(true));
                    w.meta.push(V::Meta(self.meta.get(h).map(|s| s.iter().copied().collect())));
                }
                None => {
                    w.by_height.push(nf());
                    w.has_at.push(V::B(false));
                    w.meta.push(nf());
                }
            }
        }
        for hash in &pool.hashes {
            match self.by_hash.get(hash) {
                Some(h) => {
                    w.by_hash.push(V::Hdr(self.stored[h]));
                    w.has.push(V::B(true));
                }
                None => {
                    w.by_hash.push(nf());
                    w.has.push(V::B(false));
                }
            }
        }
        for (lo, hi) in &plan.ranges {
            w.ranges.push(self.expect_range(*lo, *hi));
        }
        w
    }

    /// `get_range` documentation: unbounded start = height 1, unbounded end = head; error if the
    /// range contains a height that is not in the store. Cases the text leaves open (empty store
    /// with what error, empty/inverted ranges, a start above the head with an unbounded end) are
    /// either fixed by "not found" being the only plausible kind or returned as `Any`.
    fn expect_range(&self, lo: Option<u64>, hi: Option<u64>) -> V {
        let Some(head) = self.head() else {
            return V::Err("NotFound");
        };
        let a = lo.unwrap_or(1);
        let b = hi.unwrap_or(head);
        if a > b {
            return V::Any;
        }
        if (a..=b).all(|h| self.stored.contains_key(&h)) {
            V::Hdrs((a..=b).map(|h| V::Hdr(self.stored[&h])).collect())
        } else {
            V::Err("NotFound")
        }
    }

    pub fn state_hash(&self) -> u64 {
        let s: Vec<(u64, usize)> = self.stored.iter().map(|(a, b)| (*a, *b)).collect();
        let m: Vec<(u64, Vec<usize>)> = self.meta.iter().map(|(a, b)| (*a, b.iter().copied().collect())).collect();
        hash64(&(s, &self.sampled, &self.pruned, m))
    }
}

// ---------------------------------------------------------------------------------------------
// C21 invariant on a sweep
// ---------------------------------------------------------------------------------------------

/// Returns (kind, message) of the first violation of "fork-free hash-linked segments" visible in
/// the sweep: consecutive heights that both answer `get_by_height` must verify as adjacent (real
/// `verify_adjacent`) and be parent/child in the generated tree; every header the store returns
/// (by height or by hash) must be found by its own hash and at its own height, as itself.
pub fn chain_invariant(pool: &Pool, plan: &Plan, w: &Sweep) -> Option<(&'static str, String)> {
    let at = |h: u64| -> Option<&V> { plan.heights.iter().position(|x| *x == h).map(|i| &w.by_height[i]) };
    for (i, h) in plan.heights.iter().enumerate() {
        let V::Hdr(x) = &w.by_height[i] else {
            if let V::Foreign(e) = &w.by_height[i] {
                return Some(("get_by_height/returns-unknown-header", format!("height {h}: header with encoding hash {e:x} was never given to the store")));
            }
            continue;
        };
        let hx = &pool.hdrs[*x];
        if hx.height != *h {
            return Some(("get_by_height/wrong-height", format!("get_by_height({h}) returned a header of height {}", hx.height)));
        }
        // by-hash coherence
        if let Some(ix) = pool.hash_index(&hx.hash) {
            if ix < w.by_hash.len() && w.by_hash[ix] != V::Hdr(*x) {
                return Some((
                    "get_by_hash/differs-from-get_by_height",
                    format!(
                        "header {} stored at height {h}: get_by_hash(its hash) = {}",
                        pool.describe(&[*x]),
                        match &w.by_hash[ix] {
                            V::Hdr(o) => pool.describe(&[*o]),
                            other => format!("{other:?}"),
                        }
                    ),
                ));
            }
        }
        // link to the next height
        if let Some(V::Hdr(y)) = at(h + 1) {
            let hy = &pool.hdrs[*y];
            let verified = hx.h.verify_adjacent(&hy.h);
            if let Err(e) = verified {
                return Some((
                    "consecutive-heights/verify_adjacent-fails",
                    format!("heights {h},{}: {} then {}: {e}", h + 1, pool.describe(&[*x]), pool.describe(&[*y])),
                ));
            }
            if hy.parent != Some(*x) {
                return Some((
                    "consecutive-heights/not-parent-and-child-in-generated-tree",
                    format!("heights {h},{}: {} then {}", h + 1, pool.describe(&[*x]), pool.describe(&[*y])),
                ));
            }
        }
    }
    // every height of a stored range (as reported by `get_stored_header_ranges`) must hold a
    // header: a "stored segment" with a hole is not a hash-linked segment
    if let Some(V::Ranges(rs)) = w.singles.get(2) {
        let maxh = plan.heights.iter().copied().max().unwrap_or(0);
        for (a, b) in rs {
            for h in *a..=(*b).min(maxh) {
                if !matches!(at(h), Some(V::Hdr(_))) {
                    return Some((
                        "stored-range/height-without-header",
                        format!("stored ranges {rs:?} contain height {h}, but get_by_height({h}) = {:?}", at(h)),
                    ));
                }
            }
        }
    }
    for (ix, v) in w.by_hash.iter().enumerate() {
        match v {
            V::Hdr(x) => {
                let hx = &pool.hdrs[*x];
                if hx.hash != pool.hashes[ix] {
                    return Some(("get_by_hash/returns-header-with-other-hash", format!("hash #{ix}: got {}", pool.describe(&[*x]))));
                }
                if at(hx.height) != Some(&V::Hdr(*x)) {
                    return Some((
                        "get_by_hash/header-not-at-its-height",
                        format!(
                            "get_by_hash returns {} but get_by_height({}) = {}",
                            pool.describe(&[*x]),
                            hx.height,
                            match at(hx.height) {
                                Some(V::Hdr(o)) => pool.describe(&[*o]),
                                other => format!("{other:?}"),
                            }
                        ),
                    ));
                }
            }
            V::Foreign(e) => {
                return Some(("get_by_hash/returns-unknown-header", format!("hash #{ix}: header with encoding hash {e:x}")));
            }
            _ => {}
        }
    }
    None
}

// ---------------------------------------------------------------------------------------------
// Backends
// ---------------------------------------------------------------------------------------------

pub enum Be {
    Mem(InMemoryStore),
    Redb(RedbStore),
    Either(EitherStore<InMemoryStore, RedbStore>),
}

macro_rules! with_store {
    ($be:expr, $s:ident => $body:expr) => {
        match $be {
            Be::Mem($s) => $body,
            Be::Redb($s) => $body,
            Be::Either($s) => $body,
        }
    };
}

impl Be {
    async fn clone_mem(&self) -> Option<Be> {
        match self {
            Be::Mem(s) => Some(Be::Mem(s.async_clone().await)),
            Be::Either(EitherStore::Left(s)) => Some(Be::Either(EitherStore::Left(s.async_clone().await))),
            _ => None,
        }
    }
}

pub struct Slot {
    pub name: &'static str,
    /// underlying implementation (signature component)
    pub base: &'static str,
    pub be: Option<Be>,
    pub last: Sweep,
}

async fn apply_op<S: Store>(s: &S, op: &Op, pool: &Pool, cids: &[Cid]) -> Result<(), StoreError> {
    match op {
        Op::Insert { batch, via, .. } => {
            let hs: Vec<ExtendedHeader> = batch.iter().map(|i| pool.hdrs[*i].h.clone()).collect();
            match via {
                Via::Vec => s.insert(hs).await,
                // SAFETY (logical): this is the documented escape hatch; the store must not
                // corrupt itself whatever it is given.
                Via::Unchecked => s.insert(unsafe { VerifiedExtendedHeaders::new_unchecked(hs) }).await,
                Via::Single => s.insert(hs.into_iter().next().expect("single")).await,
            }
        }
        Op::Remove(h) => s.remove_height(*h).await,
        Op::Mark(h) => s.mark_as_sampled(*h).await,
        Op::Meta(h, c) => s.update_sampling_metadata(*h, c.iter().map(|i| cids[*i]).collect()).await,
    }
}

// ---------------------------------------------------------------------------------------------
// Workload generation
// ---------------------------------------------------------------------------------------------

#[derive(Clone, Debug)]
pub struct Cfg {
    pub prop: &'static str,
    pub universes: Vec<u64>,
    pub ops: usize,
    pub max_batch: u64,
    /// weights: valid insert, failing insert, remove, mark, metadata
    pub w: [u32; 5],
    /// probability that a failed insert is followed by its corrected batch
    pub p_correct: f64,
    /// forks at every height of the universe (short), else `n_forks` random fork points
    pub forks_everywhere: bool,
    pub n_forks: usize,
    pub histories: u64,
    /// prefer batches of >= 2 headers for neighbour-mismatch and duplicate-hash inserts
    /// (more defects at first/middle/last positions)
    pub positional: bool,
}

pub struct Gen<'a> {
    pub rng: &'a mut ChaCha8Rng,
    pub cfg: &'a Cfg,
    pub n_cids: usize,
    pub pending: Option<(Vec<usize>, &'static str)>,
}

fn gaps(model: &StoreModel) -> Vec<(u64, u64)> {
    // maximal non-stored intervals below the head
    let mut out = Vec::new();
    let mut next = 1u64;
    for (a, b) in model.stored_ranges() {
        if a > next {
            out.push((next, a - 1));
        }
        next = b + 1;
    }
    out
}

impl Gen<'_> {
    fn chain_batch(&mut self, pool: &Pool, a: u64, b: u64, ok: impl Fn(&[usize]) -> bool) -> Option<Vec<usize>> {
        let mut order: Vec<usize> = (0..pool.chains.len()).collect();
        order.shuffle(self.rng);
        for c in order {
            let ch = &pool.chains[c];
            let batch: Option<Vec<usize>> = (a..=b).map(|h| ch.by_height.get(&h).copied()).collect();
            if let Some(batch) = batch {
                if ok(&batch) {
                    return Some(batch);
                }
            }
        }
        None
    }

    /// A slot [a,b] that satisfies the insertion constraints in the current state.
    fn pick_slot(&mut self, model: &StoreModel, u: u64, min_len: u64) -> Option<(u64, u64)> {
        let maxl = self.cfg.max_batch.max(min_len);
        let len = if self.rng.gen_bool(0.3) { self.rng.gen_range(min_len..=min_len.max(2)) } else { self.rng.gen_range(min_len..=maxl) };
        let Some(head) = model.head() else {
            let a = if self.rng.gen_bool(0.4) { 1 } else { self.rng.gen_range(1..=u) };
            let b = (a + len - 1).min(u);
            return (b - a + 1 >= min_len).then_some((a, b));
        };
        let gs = gaps(model);
        for _ in 0..8 {
            let choice = self.rng.gen_range(0..10);
            if choice < 4 || gs.is_empty() {
                // above the head
                if head >= u {
                    if gs.is_empty() {
                        return None;
                    }
                    continue;
                }
                let a = if self.rng.gen_bool(0.65) { head + 1 } else { (head + 1 + self.rng.gen_range(1..=4)).min(u) };
                let b = (a + len - 1).min(u);
                if b - a + 1 >= min_len {
                    return Some((a, b));
                }
            } else {
                let (g0, g1) = *gs.choose(self.rng).unwrap();
                let glen = g1 - g0 + 1;
                if glen < min_len {
                    continue;
                }
                let l = len.min(glen).max(min_len);
                let left_ok = g0 > 1; // something is stored just below the gap
                // gaps lie below the head, so the height just above the gap is always stored
                let kind = self.rng.gen_range(0..3);
                if kind == 0 && glen <= maxl {
                    return Some((g0, g1));
                }
                if kind == 1 && left_ok {
                    return Some((g0, g0 + l - 1));
                }
                return Some((g1 - l + 1, g1));
            }
        }
        None
    }

    /// A batch that the model predicts to be accepted in the current state.
    fn pick_base(&mut self, model: &StoreModel, pool: &Pool, min_len: u64) -> Option<Vec<usize>> {
        for _ in 0..6 {
            let Some((a, b)) = self.pick_slot(model, pool.universe, min_len) else {
                continue;
            };
            if let Some(batch) = self.chain_batch(pool, a, b, |bt| model.predict_insert(pool, bt, Via::Unchecked) == ["Ok"]) {
                return Some(batch);
            }
        }
        None
    }

    fn via_for(&mut self, len: usize) -> Via {
        match self.rng.gen_range(0..10) {
            0..=5 => Via::Vec,
            6..=7 => Via::Unchecked,
            _ if len == 1 => Via::Single,
            _ => Via::Vec,
        }
    }

    fn gen_valid(&mut self, model: &StoreModel, pool: &Pool) -> Option<Op> {
        if self.rng.gen_ratio(1, 40) {
            return Some(Op::Insert { batch: vec![], via: Via::Vec, intent: "empty", pos: None, base: None, corrects: None });
        }
        let batch = self.pick_base(model, pool, 1)?;
        let via = self.via_for(batch.len());
        Some(Op::Insert { batch, via, intent: "valid", pos: None, base: None, corrects: None })
    }

    fn sibling(&mut self, pool: &Pool, idx: usize, foreign: bool) -> Option<usize> {
        let h = pool.hdrs[idx].height;
        let mut cands: Vec<usize> = pool
            .chains
            .iter()
            .filter(|c| (c.name == "other") == foreign)
            .filter_map(|c| c.by_height.get(&h).copied())
            .filter(|i| *i != idx)
            .collect();
        cands.sort();
        cands.dedup();
        cands.choose(self.rng).copied()
    }

    fn gen_failing(&mut self, model: &StoreModel, pool: &mut Pool) -> Option<Op> {
        let family = self.rng.gen_range(0..100);
        if family < 30 {
            // ---- batch that is not internally consistent (Vec path) ----
            let base = self.pick_base(model, pool, 2)?;
            let l = base.len();
            let p = self.rng.gen_range(0..l);
            let mut batch = base.clone();
            let intent = match self.rng.gen_range(0..6) {
                0 if l >= 3 => {
                    let p = p.clamp(1, l - 2);
                    batch.remove(p);
                    "hvf_gap"
                }
                1 => {
                    let p = p.min(l - 2);
                    batch.swap(p, p + 1);
                    "hvf_swap"
                }
                2 => match self.sibling(pool, base[p], false) {
                    Some(s) => {
                        batch[p] = s;
                        "hvf_fork"
                    }
                    None => {
                        batch.reverse();
                        "hvf_reverse"
                    }
                },
                3 => match self.sibling(pool, base[p], true) {
                    Some(s) => {
                        batch[p] = s;
                        "hvf_foreign"
                    }
                    None => {
                        batch.reverse();
                        "hvf_reverse"
                    }
                },
                4 => {
                    batch.insert(p, base[p]);
                    "hvf_dup_header"
                }
                _ => {
                    batch.reverse();
                    "hvf_reverse"
                }
            };
            return Some(Op::Insert { batch, via: Via::Vec, intent, pos: Some((p, l)), base: Some(base), corrects: None });
        }
        if family < 50 && self.rng.gen_bool(0.5) {
            // ---- exact closure of a gap by a batch that links to the UPPER stored neighbour but not
            // to the LOWER one (possible when a fork header was stored as a new head above the gap)
            let mut found: Option<Vec<usize>> = None;
            'search: for (g0, g1) in gaps(model) {
                if g0 <= 1 || g1 - g0 + 1 > self.cfg.max_batch.max(1) {
                    continue;
                }
                let (Some(lo), Some(up)) = (model.stored.get(&(g0 - 1)), model.stored.get(&(g1 + 1))) else { continue };
                for ch in pool.chains.iter() {
                    let batch: Option<Vec<usize>> = (g0..=g1).map(|h| ch.by_height.get(&h).copied()).collect();
                    let Some(batch) = batch else { continue };
                    let first = &pool.hdrs[batch[0]].h;
                    let last = &pool.hdrs[*batch.last().unwrap()].h;
                    if links(last, &pool.hdrs[*up].h) && !links(&pool.hdrs[*lo].h, first) {
                        found = Some(batch);
                        break 'search;
                    }
                }
            }
            if let Some(batch) = found {
                if model.predict_insert(pool, &batch, Via::Vec) == ["NeighborsVerificationFailed"] {
                    let l = batch.len();
                    let via = if self.rng.gen_bool(0.7) { Via::Vec } else { Via::Unchecked };
                    return Some(Op::Insert { batch, via, intent: "nvf_left_exact_closure", pos: Some((0, l)), base: None, corrects: None });
                }
            }
        }
        if family < 50 {
            // ---- internally consistent batch that does not link to a stored neighbour ----
            let min_len = if self.cfg.positional && self.rng.gen_bool(0.6) { 2 } else { 1 };
            let base = self.pick_base(model, pool, min_len)?;
            let (a, b) = (pool.hdrs[base[0]].height, pool.hdrs[*base.last().unwrap()].height);
            let batch = self.chain_batch(pool, a, b, |bt| model.predict_insert(pool, bt, Via::Vec) == ["NeighborsVerificationFailed"])?;
            let left_bad = a > 1 && model.stored.get(&(a - 1)).is_some_and(|p| !links(&pool.hdrs[*p].h, &pool.hdrs[batch[0]].h));
            let l = batch.len();
            let via = if self.rng.gen_bool(0.7) { Via::Vec } else { Via::Unchecked };
            return Some(Op::Insert {
                batch,
                via,
                intent: if left_bad { "nvf_left" } else { "nvf_right" },
                pos: Some((if left_bad { 0 } else { l - 1 }, l)),
                base: Some(base),
                corrects: None,
            });
        }
        if family < 70 {
            // ---- range that violates the insertion constraints ----
            let rs = model.stored_ranges();
            if rs.is_empty() {
                return None;
            }
            let u = pool.universe;
            let (r0, r1) = *rs.choose(self.rng).unwrap();
            let len = self.rng.gen_range(1..=self.cfg.max_batch);
            let (a, b, intent) = match self.rng.gen_range(0..7) {
                0 => {
                    // inside a stored range (typical re-delivery)
                    let a = self.rng.gen_range(r0..=r1);
                    (a, (a + len - 1).min(r1), "cnm_inside")
                }
                1 => {
                    // overlaps the upper end
                    let a = self.rng.gen_range(r0..=r1);
                    (a, (r1 + self.rng.gen_range(1..=3)).min(u), "cnm_overlap_end")
                }
                2 => {
                    // overlaps the lower end
                    let b = self.rng.gen_range(r0..=r1);
                    (r0.saturating_sub(self.rng.gen_range(1..=3)).max(1), b, "cnm_overlap_start")
                }
                3 => {
                    // superset
                    (r0.saturating_sub(1).max(1), (r1 + 1).min(u), "cnm_superset")
                }
                4 => {
                    // only the last header of the batch is already stored
                    (r0.saturating_sub(self.rng.gen_range(1..=4)).max(1), r0, "cnm_last_header_stored")
                }
                5 => {
                    // only the first header of the batch is already stored
                    (r1, (r1 + self.rng.gen_range(1..=4)).min(u), "cnm_first_header_stored")
                }
                _ => {
                    // island below the head, touching nothing
                    let gs: Vec<(u64, u64)> = gaps(model).into_iter().filter(|(g0, g1)| g1 - g0 >= 2 || (*g0 == 1 && g1 - g0 >= 1)).collect();
                    let (g0, g1) = *gs.choose(self.rng)?;
                    let lo = if g0 == 1 { 1 } else { g0 + 1 };
                    let a = self.rng.gen_range(lo..=g1 - 1);
                    (a, self.rng.gen_range(a..=g1 - 1), "cnm_island")
                }
            };
            if a > b {
                return None;
            }
            let batch = self.chain_batch(pool, a, b, |bt| model.predict_insert(pool, bt, Via::Vec).contains(&"ConstraintsNotMet"))?;
            let l = batch.len();
            let via = self.via_for(l);
            let base = self.pick_base(model, pool, 1);
            // position of the first height of the batch that is already stored (if any)
            let p = batch.iter().position(|i| model.stored.contains_key(&pool.hdrs[*i].height)).unwrap_or(0);
            return Some(Op::Insert { batch, via, intent, pos: Some((p, l)), base, corrects: None });
        }
        // ---- duplicate hash: a header whose hash() equals the hash of another header ----
        let min_len = if self.cfg.positional && self.rng.gen_bool(0.7) { 2 } else { 1 };
        let base = self.pick_base(model, pool, min_len)?;
        let l = base.len();
        let p = self.rng.gen_range(0..l);
        let in_batch = p >= 1 && (model.stored.is_empty() || self.rng.gen_bool(0.4));
        let (dup, intent_a, intent_b) = if in_batch {
            let q = self.rng.gen_range(0..p);
            (pool.hdrs[base[q]].hash, "dup_in_batch_relinked", "dup_in_batch_unchecked")
        } else {
            let stored: Vec<usize> = model.stored.values().copied().collect();
            let x = *stored.choose(self.rng)?;
            (pool.hdrs[x].hash, "dup_of_stored_relinked", "dup_of_stored_unchecked")
        };
        let t = pool.tamper(base[p], dup);
        let mut batch = base.clone();
        batch[p] = t;
        if self.rng.gen_bool(0.5) {
            // keep the batch internally hash-linked: regenerate the headers above the tampered one
            let tail = pool.extend_from(t, (l - p - 1) as u64);
            batch.truncate(p + 1);
            batch.extend(tail);
            let via = if self.rng.gen_bool(0.8) { Via::Vec } else { Via::Unchecked };
            Some(Op::Insert { batch, via, intent: intent_a, pos: Some((p, l)), base: Some(base), corrects: None })
        } else {
            Some(Op::Insert { batch, via: Via::Unchecked, intent: intent_b, pos: Some((p, l)), base: Some(base), corrects: None })
        }
    }

    fn some_height(&mut self, model: &StoreModel, u: u64, p_stored: f64) -> u64 {
        let stored: Vec<u64> = model.stored.keys().copied().collect();
        if !stored.is_empty() && self.rng.gen_bool(p_stored) {
            match self.rng.gen_range(0..10) {
                0..=2 => stored[0],
                3..=4 => *stored.last().unwrap(),
                _ => *stored.choose(self.rng).unwrap(),
            }
        } else {
            match self.rng.gen_range(0..6) {
                0 => 0,
                1 => u + 1,
                2 if !model.pruned.is_empty() => *model.pruned.iter().nth(self.rng.gen_range(0..model.pruned.len())).unwrap(),
                _ => self.rng.gen_range(1..=u),
            }
        }
    }

    pub fn next_op(&mut self, model: &StoreModel, pool: &mut Pool) -> Op {
        if let Some((base, kind)) = self.pending.take() {
            if self.rng.gen_bool(self.cfg.p_correct) {
                let via = self.via_for(base.len());
                return Op::Insert { batch: base, via, intent: "corrected", pos: None, base: None, corrects: Some(kind) };
            }
        }
        let u = pool.universe;
        let total: u32 = self.cfg.w.iter().sum();
        for _ in 0..20 {
            let mut x = self.rng.gen_range(0..total);
            let mut k = 0;
            while x >= self.cfg.w[k] {
                x -= self.cfg.w[k];
                k += 1;
            }
            let op = match k {
                0 => self.gen_valid(model, pool),
                1 => self.gen_failing(model, pool),
                2 => Some(Op::Remove(self.some_height(model, u, 0.85))),
                3 => Some(Op::Mark(self.some_height(model, u, 0.85))),
                _ => {
                    let h = self.some_height(model, u, 0.85);
                    let n = self.rng.gen_range(0..=4);
                    let cids = (0..n).map(|_| self.rng.gen_range(0..self.n_cids)).collect();
                    Some(Op::Meta(h, cids))
                }
            };
            if let Some(op) = op {
                return op;
            }
        }
        Op::Remove(self.some_height(model, u, 1.0))
    }
}

// ---------------------------------------------------------------------------------------------
// Running histories
// ---------------------------------------------------------------------------------------------

pub struct Finding {
    pub prop: &'static str,
    pub sig: String,
    pub msg: String,
}

fn pos_class(p: usize, l: usize) -> &'static str {
    if l == 1 {
        "only"
    } else if p == 0 {
        "first"
    } else if p == l - 1 {
        "last"
    } else {
        "middle"
    }
}

fn make_cids(rng: &mut ChaCha8Rng, n: usize) -> Vec<Cid> {
    (0..n)
        .map(|_| {
            let digest: [u8; 32] = rng.r#gen();
            let mh = multihash::Multihash::<64>::wrap(0x12, &digest).expect("multihash");
            Cid::new_v1(0x55, mh)
        })
        .collect()
}

fn vfmt(pool: &Pool, v: &V) -> String {
    match v {
        V::Hdr(i) => pool.describe(&[*i]),
        V::Hdrs(v) => format!("{} headers", v.len()),
        other => format!("{other:?}"),
    }
}

/// Run one history; findings of all three properties are returned, coverage goes to `ctx`.
pub fn run_history(ctx: &Ctx, cfg: &Cfg, case: u64) -> (Vec<Finding>, Vec<String>) {
    let mut rng = ctx.rng(19, case);
    let universe = *cfg.universes.choose(&mut rng).unwrap();
    let forks: Vec<(u64, u64)> = if cfg.forks_everywhere {
        (1..universe).map(|k| (k, rng.gen_range(2..=5))).collect()
    } else {
        (0..cfg.n_forks).map(|_| (rng.gen_range(1..universe), rng.gen_range(2..=universe / 2 + 2))).collect()
    };
    let spec = TreeSpec { universe, forks, n_vals: if rng.gen_ratio(1, 4) { 2 } else { 1 } };
    let mut pool = build_pool(&mut rng, &spec);
    // generator sanity: every generated child links to its parent by the model's predicate
    for h in &pool.hdrs {
        if let Some(p) = h.parent {
            if !links(&pool.hdrs[p].h, &h.h) {
                ctx.inconclusive("harness: generated child does not link to its parent");
                return (vec![], vec![]);
            }
        }
    }
    let n_cids = 8;
    let cids = make_cids(&mut rng, n_cids);
    let cid_ix: HashMap<Cid, usize> = cids.iter().enumerate().map(|(i, c)| (*c, i)).collect();
    let mut plan = Plan { heights: (0..=universe + 1).collect(), ranges: vec![(None, None)] };
    for _ in 0..5 {
        let a = rng.gen_range(0..=universe);
        let b = rng.gen_range(a..=universe + 1);
        plan.ranges.push(match rng.gen_range(0..4) {
            0 => (Some(a), None),
            1 => (None, Some(b)),
            _ => (Some(a.max(1)), Some(b.max(1))),
        });
    }

    let rt = tokio::runtime::Builder::new_current_thread()
        .max_blocking_threads(2)
        .build()
        .expect("runtime");
    let mk = |name: &'static str| -> Option<Be> {
        rt.block_on(async {
            match name {
                "in_memory" => Some(Be::Mem(InMemoryStore::new())),
                "redb" => RedbStore::in_memory().await.ok().map(Be::Redb),
                "either_in_memory" => Some(Be::Either(EitherStore::Left(InMemoryStore::new()))),
                _ => RedbStore::in_memory().await.ok().map(|s| Be::Either(EitherStore::Right(s))),
            }
        })
    };
    let mut slots: Vec<Slot> = [("in_memory", "in_memory"), ("redb", "redb"), ("either_in_memory", "in_memory"), ("either_redb", "redb")]
        .into_iter()
        .map(|(name, base)| Slot { name, base, be: mk(name), last: Sweep::default() })
        .collect();
    if slots.iter().any(|s| s.be.is_none()) {
        ctx.inconclusive("harness: could not open an in-memory redb store");
        return (vec![], vec![]);
    }

    let mut model = StoreModel::default();
    let mut findings: Vec<Finding> = Vec::new();
    let mut log: Vec<String> = Vec::new();
    let header: String = format!("case={case} U={universe}");
    log.push(format!("chains: {:?}", pool.chains.iter().map(|c| c.name.clone()).collect::<Vec<_>>()));

    // initial sweep
    let want0 = model.expect(&pool, &plan);
    for s in slots.iter_mut() {
        let be = s.be.as_ref().unwrap();
        match guard(|| rt.block_on(async { with_store!(be, st => sweep_store(st, &plan, &pool, &cid_ix).await) })) {
            Ok(w) => {
                if let Some((q, got, want)) = diff(&plan, &w, &want0) {
                    findings.push(Finding {
                        prop: "C19",
                        sig: format!("C19/{}/{}/mismatch/on-empty-store", s.base, q.name()),
                        msg: format!("{header}: empty {}: {q:?} = {}, model {}", s.name, vfmt(&pool, &got), vfmt(&pool, &want)),
                    });
                    s.be = None;
                }
                s.last = w;
            }
            Err(p) => {
                findings.push(Finding { prop: "C19", sig: format!("C19/{}/sweep/panic/{}", s.base, panic_site(&p)), msg: format!("{header}: sweep of empty store panicked: {p}") });
                s.be = None;
            }
        }
    }

    let mut had_reject = false;
    let mut had_reinsert = false;
    let mut had_remove = false;
    let mut g = Gen { rng: &mut rng, cfg, n_cids, pending: None };

    for step in 0..cfg.ops {
        let op = g.next_op(&model, &mut pool);
        let allowed = model.predict(&pool, &op);
        let predicted_ok = allowed == ["Ok"];
        let desc = op.describe(&pool);
        log.push(format!("#{step} {desc} => model {allowed:?}"));
        if log.len() > 400 {
            log.remove(0);
        }
        ctx.count(&format!("op_{}", op.name()));

        // coverage bookkeeping from the model's classification
        if let Op::Insert { intent, pos, base, corrects, batch, .. } = &op {
            ctx.count(&format!("insert_intent_{intent}"));
            if !predicted_ok {
                had_reject = true;
                let kinds = allowed.join("+");
                ctx.count(&format!("insert_rejected_{kinds}"));
                if let Some((p, l)) = pos {
                    ctx.count(&format!("reject_{}_at_{}", kinds, pos_class(*p, *l)));
                    if *l <= 6 {
                        ctx.nontrivial(&("reject-combo", &kinds, *l, *p));
                        ctx.count(&format!("combo/{kinds}/L{l}/p{p}"));
                    }
                }
                g.pending = base.clone().map(|b| (b, allowed[0]));
            } else {
                if corrects.is_some() {
                    ctx.count("corrected_batches_inserted");
                }
                if batch.iter().any(|i| model.pruned.contains(&pool.hdrs[*i].height)) {
                    had_reinsert = true;
                    ctx.count("reinsert_after_removal");
                }
            }
        } else if !predicted_ok {
            had_reject = true;
            ctx.count(&format!("{}_rejected_NotFound", op.name()));
        } else if matches!(op, Op::Remove(_)) {
            had_remove = true;
        }

        // snapshots of the in-memory backends before an operation predicted to fail
        let mut snaps: Vec<Option<Be>> = Vec::new();
        for s in slots.iter() {
            snaps.push(match (&s.be, predicted_ok) {
                (Some(be), false) => rt.block_on(be.clone_mem()),
                _ => None,
            });
        }

        // run it everywhere
        let mut kinds: Vec<Option<String>> = Vec::new();
        for s in slots.iter() {
            let Some(be) = &s.be else {
                kinds.push(None);
                continue;
            };
            ctx.eval();
            let r = guard(|| rt.block_on(async { with_store!(be, st => apply_op(st, &op, &pool, &cids).await) }));
            kinds.push(Some(match r {
                Ok(Ok(())) => "Ok".to_string(),
                Ok(Err(e)) => {
                    let k = store_err_kind(&e);
                    if matches!(k, "StoredDataError" | "FatalDatabaseError" | "ExecutorError" | "OpenFailed" | "NamedLock") {
                        format!("{k}({e})")
                    } else {
                        k.to_string()
                    }
                }
                Err(p) => format!("Panic({p})"),
            }));
        }
        if predicted_ok {
            model.apply(&pool, &op);
            if let Err(e) = model.invariant() {
                ctx.inconclusive(&format!("harness: model invariant broken: {e}"));
                return (findings, log);
            }
        }
        let want = model.expect(&pool, &plan);

        for (si, s) in slots.iter_mut().enumerate() {
            let Some(be) = &s.be else { continue };
            let kind_full = kinds[si].clone().unwrap();
            let kind = kind_full.split('(').next().unwrap().to_string();
            let mut bad: Vec<Finding> = Vec::new();
            ctx.count(&format!("ret_{}_{}_{}", s.base, op.name(), kind));

            // (1) result kind
            if !allowed.iter().any(|a| *a == kind) {
                let site = if kind == "Panic" { format!("/{}", panic_site(kind_full.trim_start_matches("Panic(").trim_end_matches(')'))) } else { String::new() };
                bad.push(Finding {
                    prop: "C19",
                    sig: format!("C19/{}/{}/result-kind/{}-instead-of-{}{}", s.base, op.name(), kind, allowed.join("+"), site),
                    msg: format!("{}: {desc} returned {kind_full}, model admits {allowed:?}", s.name),
                });
                if let Op::Insert { corrects: Some(prev), .. } = &op {
                    if predicted_ok && kind != "Ok" {
                        bad.push(Finding {
                            prop: "C20",
                            sig: format!("C20/{}/insert/corrected-batch-rejected/{kind}", s.base),
                            msg: format!("{}: the corrected batch of an insert rejected with {prev} was itself rejected: {desc} returned {kind_full}", s.name),
                        });
                    }
                }
            } else if allowed.len() > 1 && allowed[0] != kind {
                ctx.count("obs_reported_reason_not_first_applicable");
            }

            // (2) sweep
            let sw = guard(|| rt.block_on(async { with_store!(be, st => sweep_store(st, &plan, &pool, &cid_ix).await) }));
            let w = match sw {
                Ok(w) => w,
                Err(p) => {
                    let after = format!("after-{}-{}", op.name(), kind);
                    bad.push(Finding {
                        prop: "C19",
                        sig: format!("C19/{}/sweep/panic/{}/{after}", s.base, panic_site(&p)),
                        msg: format!("{}: query sweep panicked after {desc}: {p}", s.name),
                    });
                    if kind != "Ok" {
                        bad.push(Finding {
                            prop: "C20",
                            sig: format!("C20/{}/{}/queries-panic-after-{kind}", s.base, op.name()),
                            msg: format!("{}: query sweep panicked after failed {desc}: {p}", s.name),
                        });
                    }
                    findings.extend(bad);
                    s.be = None;
                    ctx.count("backend_retired");
                    continue;
                }
            };
            ctx.evals(1);

            // (3) C20: an operation that returned an error (or panicked) left everything unchanged
            if kind != "Ok" {
                ctx.count(&format!("c20_checked_after_{kind}"));
                if let Some((q, got, before)) = diff(&plan, &w, &s.last) {
                    let pc = match &op {
                        Op::Insert { pos: Some((p, l)), .. } => format!(" defect at position {p} of {l} ({})", pos_class(*p, *l)),
                        _ => String::new(),
                    };
                    // probe: can the corrected batch still be inserted into the damaged store?
                    let mut probe = String::new();
                    if let Op::Insert { base: Some(base), .. } = &op {
                        let fix = Op::Insert { batch: base.clone(), via: Via::Vec, intent: "probe", pos: None, base: None, corrects: None };
                        let r = guard(|| rt.block_on(async { with_store!(be, st => apply_op(st, &fix, &pool, &cids).await) }));
                        probe = match r {
                            Ok(Ok(())) => "; the corrected batch is then accepted".into(),
                            Ok(Err(e)) => format!("; the corrected batch {} is then rejected: {e}", pool.describe(base)),
                            Err(p) => format!("; inserting the corrected batch {} then panics: {p}", pool.describe(base)),
                        };
                    }
                    // probe (C21): does the damaged store accept a competing fork on top of the
                    // debris, and what does the chain invariant say then? (The backend is
                    // restored or retired afterwards, so the probe does not leak.)
                    if let (Op::Insert { base: Some(base), .. }, false) = (&op, predicted_ok) {
                        let (a, b) = (pool.hdrs[base[0]].height, pool.hdrs[*base.last().unwrap()].height);
                        for c in 0..pool.chains.len() {
                            let alt: Option<Vec<usize>> = (a..=b).map(|h| pool.chains[c].by_height.get(&h).copied()).collect();
                            let Some(alt) = alt else { continue };
                            if &alt == base || model.predict_insert(&pool, &alt, Via::Vec) != ["Ok"] {
                                continue;
                            }
                            let alt_op = Op::Insert { batch: alt.clone(), via: Via::Vec, intent: "probe", pos: None, base: None, corrects: None };
                            let r = guard(|| rt.block_on(async { with_store!(be, st => apply_op(st, &alt_op, &pool, &cids).await) }));
                            ctx.count("c21_probes_on_damaged_store");
                            if let Ok(Ok(())) = r {
                                let w2 = guard(|| rt.block_on(async { with_store!(be, st => sweep_store(st, &plan, &pool, &cid_ix).await) }));
                                if let Ok(w2) = w2 {
                                    if let Some((k, m)) = chain_invariant(&pool, &plan, &w2) {
                                        bad.push(Finding {
                                            prop: "C21",
                                            sig: format!("C21/{}/{k}/after-failed-insert-left-partial-state", s.base),
                                            msg: format!(
                                                "{}: {desc} returned {kind_full} but left headers behind; then insert {} was accepted: {m}",
                                                s.name,
                                                pool.describe(&alt)
                                            ),
                                        });
                                    }
                                }
                                break;
                            }
                        }
                    }
                    bad.push(Finding {
                        prop: "C20",
                        sig: format!("C20/{}/{}/partial-state-after-{kind}", s.base, op.name()),
                        msg: format!(
                            "{}: {desc} returned {kind_full} but changed the store:{pc} {q:?} was {} and is now {}{probe}",
                            s.name,
                            vfmt(&pool, &before),
                            vfmt(&pool, &got)
                        ),
                    });
                }
            }

            // (4) C19: the sweep agrees with the model
            if let Some((q, got, wanted)) = diff(&plan, &w, &want) {
                bad.push(Finding {
                    prop: "C19",
                    sig: format!("C19/{}/{}/mismatch/after-{}-{}", s.base, q.name(), op.name(), kind),
                    msg: format!("{}: after {desc} (returned {kind_full}): {q:?} = {}, model says {}", s.name, vfmt(&pool, &got), vfmt(&pool, &wanted)),
                });
            }

            // (5) C21: chain invariant
            ctx.count("c21_invariant_checks");
            if let Some((k, m)) = chain_invariant(&pool, &plan, &w) {
                bad.push(Finding {
                    prop: "C21",
                    sig: format!("C21/{}/{k}/after-{}", s.base, op.name()),
                    msg: format!("{}: after {desc} (returned {kind_full}): {m}", s.name),
                });
            }

            s.last = w;
            if !bad.is_empty() {
                findings.extend(bad);
                // resynchronise with the model where possible, else stop using this backend
                match snaps[si].take() {
                    Some(clone) if !predicted_ok => {
                        let healed = guard(|| rt.block_on(async { with_store!(&clone, st => sweep_store(st, &plan, &pool, &cid_ix).await) }));
                        match healed {
                            Ok(hw) if diff(&plan, &hw, &want).is_none() => {
                                s.be = Some(clone);
                                s.last = hw;
                                ctx.count("backend_restored_from_pre_op_clone");
                            }
                            _ => {
                                s.be = None;
                                ctx.count("backend_retired");
                            }
                        }
                    }
                    _ => {
                        s.be = None;
                        ctx.count("backend_retired");
                    }
                }
            }
        }

        // (6) EitherStore is transparent; exact metadata lists across implementations (observation)
        for (wrapped, plain) in [(2usize, 0usize), (3, 1)] {
            if slots[wrapped].be.is_some() && slots[plain].be.is_some() {
                let (a, b) = (&slots[wrapped].last, &slots[plain].last);
                let d = diff(&plan, a, b).map(|(q, x, y)| (q, vfmt(&pool, &x), vfmt(&pool, &y))).or_else(|| {
                    (a.meta_exact != b.meta_exact).then(|| (Q::Meta(0), "cid list".to_string(), "different order/duplicates".to_string()))
                });
                if let Some((q, x, y)) = d {
                    findings.push(Finding {
                        prop: "C19",
                        sig: format!("C19/either_store/{}/differs-from-wrapped-store", q.name()),
                        msg: format!("after {desc}: {} answers {q:?} = {x}, {} answers {y}", slots[wrapped].name, slots[plain].name),
                    });
                    slots[wrapped].be = None;
                }
            }
        }
        if slots[0].be.is_some() && slots[1].be.is_some() && slots[0].last.meta_exact != slots[1].last.meta_exact {
            ctx.count("obs_metadata_cid_list_order_differs_between_backends");
        }
        if step == cfg.ops / 2 {
            ctx.sample(|| json!({"case": case, "universe": universe, "step": step, "stored": format!("{:?}", model.stored_ranges()),
                "sampled": model.sampled.len(), "pruned": format!("{:?}", to_ranges(model.pruned.iter().copied())), "last_ops": log.iter().rev().take(6).cloned().collect::<Vec<_>>()}));
        }
        if slots.iter().all(|s| s.be.is_none()) {
            break;
        }
    }

    ctx.count("histories");
    if slots.iter().all(|s| s.be.is_some()) {
        ctx.count("histories_all_backends_alive_to_the_end");
    }
    if had_reject && had_reinsert && had_remove {
        ctx.count("histories_nontrivial");
        ctx.nontrivial(&("final-state", model.state_hash()));
    }
    if model.stored_ranges().len() >= 2 {
        ctx.count("histories_ending_with_gaps");
    }
    for f in findings.iter_mut() {
        f.msg = format!("{header}: {}", f.msg);
    }
    log.insert(0, header);
    (findings, log)
}

/// Run `cfg.histories` histories sharded over threads and report the findings of `cfg.prop`.
pub fn run_histories(ctx: &Ctx, cfg: &Cfg) {
    // a history is latency-bound (every redb call is a spawn_blocking round trip), not CPU-bound
    let shards = ctx.cores() * 2;
    ctx.par(shards, |shard| {
        for case in (shard as u64..cfg.histories).step_by(shards) {
            let (findings, trace) = run_history(ctx, cfg, case);
            for f in findings {
                if f.prop == cfg.prop {
                    ctx.violation(&f.sig, &f.msg, json!({"case": case, "rng_stream": 19, "history": trace}));
                } else {
                    ctx.count(&format!("findings_belonging_to_{}", f.prop));
                    ctx.count(&format!("other/{}", f.sig));
                }
            }
        }
    });
}

pub fn common_assumptions(ctx: &Ctx) {
    ctx.assume("StoreModel (BTreeMap/BTreeSet, ~150 lines) restates the Store trait documentation and the C18/C19 text; where several rejection reasons apply at once every one of them is admitted");
    ctx.assume("removing a height clears its sampled mark and sampling metadata (both backends do; the pruner relies on it); a re-inserted header starts unsampled with metadata unset");
    ctx.assume("sampling metadata is compared as a set of CIDs (text: 'accumulates every added CID'); order/duplicates only observed");
    ctx.assume("ground truth of chain membership comes from the generator (vgen::chain::ChainGen parent links), not from lumina's verify");
    ctx.assume("IndexedDbStore is wasm-only and not exercised");
}

pub fn _unused(_: Value) {}
