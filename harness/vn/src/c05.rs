//! C05 through lumina-node: the same workload and oracle as `vt/src/c05.rs`, with the shrex
//! response codec (`ResponseCodec for Row`: length-delimited protobuf, `Row::from_raw`,
//! `Row::verify`) as the decoder/verifier under observation.

use lumina_node::verif::shrex;
use prost::Message;

#[allow(dead_code)]
#[path = "../../vt/src/c05.rs"]
mod base;

pub fn run(ctx: &vcore::Ctx) {
    base::run_with(
        ctx,
        &base::Codec {
            name: "shrex",
            direct: false,
            encode: |r| shrex::encode_row_response(r),
            frame: |r| r.encode_length_delimited_to_vec(),
            decode_verify: |b, id, dah, app| shrex::decode_and_verify_row(b, &id, dah, app),
        },
    );
}
