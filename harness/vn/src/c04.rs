//! C04 through lumina-node: the same workload and oracle as `vt/src/c04.rs`, with the shrex
//! response codec (`ResponseCodec for Sample`: length-delimited protobuf, `Sample::from_raw`,
//! `Sample::verify`) as the decoder/verifier under observation.

use lumina_node::verif::shrex;
use prost::Message;

#[allow(dead_code)]
#[path = "../../vt/src/c04.rs"]
mod base;

pub fn run(ctx: &vcore::Ctx) {
    base::run_with(
        ctx,
        &base::Codec {
            name: "shrex",
            direct: false,
            encode: |s| shrex::encode_sample_response(s),
            frame: |r| r.encode_length_delimited_to_vec(),
            decode_verify: |b, id, dah, app| shrex::decode_and_verify_sample(b, &id, dah, app),
        },
    );
}
