//! C22 — the persistent (redb) store survives crashes at any point.
//!
//! Method (fault enumeration over a recorded execution):
//!
//! 1. `CrashBackend` implements the public `redb::StorageBackend`. It applies every call to a
//!    volatile in-memory image and logs `Write{offset,data}` / `SetLen` / `Sync{eventual}` events.
//! 2. A history of 10–60 store operations (header-range inserts at the head, with gaps, gap fills
//!    from either side, removals, `mark_as_sampled`, `update_sampling_metadata`, plus rejected
//!    operations that abort their transaction) runs on
//!    `RedbStore::new(Database::builder().create_with_backend(CrashBackend))`. For every op the
//!    backend-event index at which it was called and at which it returned is recorded, and after
//!    every op a full query sweep of the live store is recorded (`S_0 .. S_n`).
//! 3. For every crash point `k` (events `[0,k)` were issued) post-crash images are built:
//!    durable prefix (everything up to and including the last completed `sync_data(false)` before
//!    `k`) + a subset of the *whole* writes issued after it. Each image is reopened through the
//!    same public API (`create_with_backend` on a fresh backend seeded with the image — redb runs
//!    its own repair — then `RedbStore::new`) and swept.
//! 4. Oracle = the property text: (1) reopen succeeds; (2) the sweep equals `S_j` for some `j` with
//!    `acked(k) <= j <= started(k)`; (3) header / hash / range indexes are mutually consistent
//!    and every returned header is byte-for-byte a generated one, adjacent stored heights verify.
//!
//! 5. Hidden state: after the sweep a removed (pruned) height next to a stored range is inserted
//!    again; it must come back without sampling metadata and unsampled (a row that survives a
//!    removal is invisible to every query until the height is re-inserted).
//!
//! Soundness decisions
//! * Only whole writes are dropped (no torn writes). `SetLen` is never dropped on its own: file
//!   length changes are applied in order (a journaling file system orders size changes; whether a
//!   lost `ftruncate` with a surviving later data write is a legal disk state is debatable, so
//!   such images are not part of the verdict). They are *explored* (family
//!   `exploration.growth_set_len_lost`, counters only): redb 2.6.3 panics on them at
//!   `page_manager.rs:243` (`assert!(file_len >= header.layout().len())`), see the report.
//! * `sync_data(true)` (only seen under a seeded `Durability::Eventual`) is treated exactly as redb
//!   documents it for backends: a write barrier, not a durability point.
//! * redb flushes its write buffer in `HashMap` iteration order, so the order of the writes of one
//!   burst differs from process to process. A crash between two writes of a burst leaves a subset
//!   of that burst's writes issued; every image reachable from there is a subset image of the
//!   crash point at the end of the burst with the same admissible op range. Crash points are
//!   therefore taken at every boundary that is adjacent to a non-write event or to an operation
//!   boundary, and subsets are chosen over the burst's writes in canonical (offset) order, which
//!   keeps the workload deterministic for a seed.

use std::collections::{BTreeSet, HashMap, HashSet};
use std::fmt::Debug;
use std::io;
use std::sync::atomic::{AtomicU64, AtomicUsize, Ordering};
use std::sync::{Arc, Mutex};

use celestia_types::ExtendedHeader;
use celestia_types::hash::Hash;
use cid::Cid;
use lumina_node::store::{RedbStore, Store};
use redb::{Database, StorageBackend};
use vcore::{ChaCha8Rng, Ctx, Rng, guard, json, panic_site};
use vgen::chain::ChainGen;
use vnode::store_err_kind;

// ---------------------------------------------------------------------------------------------
// Fault-observing backend
// ---------------------------------------------------------------------------------------------

#[derive(Clone)]
enum Ev {
    Write { off: u64, data: Arc<[u8]> },
    SetLen(u64),
    Sync { eventual: bool },
}

struct BackendState {
    image: Vec<u8>,
    log: Vec<Ev>,
    record: bool,
}

#[derive(Clone)]
struct CrashBackend(Arc<Mutex<BackendState>>);

impl Debug for CrashBackend {
    fn fmt(&self, f: &mut std::fmt::Formatter<'_>) -> std::fmt::Result {
        f.write_str("CrashBackend")
    }
}

impl CrashBackend {
    fn new(image: Vec<u8>, record: bool) -> Self {
        CrashBackend(Arc::new(Mutex::new(BackendState {
            image,
            log: Vec::new(),
            record,
        })))
    }
    fn log_len(&self) -> usize {
        self.0.lock().unwrap().log.len()
    }
    fn take_log(&self, upto: usize) -> Vec<Ev> {
        let mut g = self.0.lock().unwrap();
        g.record = false;
        let mut l = std::mem::take(&mut g.log);
        l.truncate(upto);
        l
    }
}

fn out_of_range() -> io::Error {
    io::Error::new(io::ErrorKind::InvalidInput, "index out of range")
}

impl StorageBackend for CrashBackend {
    fn len(&self) -> Result<u64, io::Error> {
        Ok(self.0.lock().unwrap().image.len() as u64)
    }

    fn read(&self, offset: u64, len: usize) -> Result<Vec<u8>, io::Error> {
        let g = self.0.lock().unwrap();
        let off = usize::try_from(offset).map_err(|_| out_of_range())?;
        match off.checked_add(len) {
            Some(end) if end <= g.image.len() => Ok(g.image[off..end].to_vec()),
            _ => Err(out_of_range()),
        }
    }

    fn set_len(&self, len: u64) -> Result<(), io::Error> {
        let mut g = self.0.lock().unwrap();
        let n = usize::try_from(len).map_err(|_| out_of_range())?;
        g.image.resize(n, 0);
        if g.record {
            g.log.push(Ev::SetLen(len));
        }
        Ok(())
    }

    fn sync_data(&self, eventual: bool) -> Result<(), io::Error> {
        let mut g = self.0.lock().unwrap();
        if g.record {
            g.log.push(Ev::Sync { eventual });
        }
        Ok(())
    }

    fn write(&self, offset: u64, data: &[u8]) -> Result<(), io::Error> {
        let mut g = self.0.lock().unwrap();
        let off = usize::try_from(offset).map_err(|_| out_of_range())?;
        match off.checked_add(data.len()) {
            Some(end) if end <= g.image.len() => {
                g.image[off..end].copy_from_slice(data);
                if g.record {
                    g.log.push(Ev::Write {
                        off: offset,
                        data: data.into(),
                    });
                }
                Ok(())
            }
            _ => Err(out_of_range()),
        }
    }
}

fn apply(img: &mut Vec<u8>, ev: &Ev) {
    match ev {
        Ev::Write { off, data } => {
            let off = *off as usize;
            let end = off + data.len();
            if end > img.len() {
                // cannot happen while length changes are applied in order; a real file would
                // be extended by the write
                img.resize(end, 0);
            }
            img[off..end].copy_from_slice(data);
        }
        Ev::SetLen(n) => img.resize(*n as usize, 0),
        Ev::Sync { .. } => {}
    }
}

// ---------------------------------------------------------------------------------------------
// Observable state of a store (full query sweep)
// ---------------------------------------------------------------------------------------------

type Res<T> = Result<T, &'static str>;

#[derive(Clone, Debug, PartialEq, Eq, Hash)]
struct HdrId {
    height: u64,
    hash: [u8; 32],
    /// the returned header is byte-for-byte the generated header with this hash
    genuine: bool,
}

#[derive(Clone, Debug, PartialEq, Eq, Hash)]
struct Sweep {
    stored: Res<Vec<(u64, u64)>>,
    sampled: Res<Vec<(u64, u64)>>,
    pruned: Res<Vec<(u64, u64)>>,
    head_height: Res<u64>,
    head: Res<HdrId>,
    /// per universe height: get_by_height, has_at
    by_height: Vec<(Res<HdrId>, bool)>,
    /// per known hash: get_by_hash (height of the answer + id), has
    by_hash: Vec<(Res<HdrId>, bool)>,
    /// per universe height: get_sampling_metadata as (number of cids, hash of the cid list)
    meta: Vec<Res<Option<(usize, u64)>>>,
    identity: Res<String>,
}

/// Ground truth of one history: every header that is ever offered to the store.
struct Truth {
    /// heights swept (one below the chain .. one above)
    heights: Vec<u64>,
    hashes: Vec<Hash>,
    by_hash: HashMap<[u8; 32], ExtendedHeader>,
    /// honest chain by height
    main: HashMap<u64, ExtendedHeader>,
}

fn hkey(h: &Hash) -> [u8; 32] {
    let mut k = [0u8; 32];
    let b = h.as_bytes();
    if b.len() == 32 {
        k.copy_from_slice(b);
    }
    k
}

impl Truth {
    fn id(&self, h: &ExtendedHeader) -> HdrId {
        let hash = hkey(&h.hash());
        HdrId {
            height: u64::from(h.height()),
            hash,
            genuine: self.by_hash.get(&hash).map(|t| t == h).unwrap_or(false),
        }
    }
}

fn ranges_vec(r: &lumina_node::store::BlockRanges) -> Vec<(u64, u64)> {
    let raw: &[std::ops::RangeInclusive<u64>] = r.as_ref();
    raw.iter().map(|x| (*x.start(), *x.end())).collect()
}

async fn sweep(store: &RedbStore, t: &Truth) -> Sweep {
    let ek = |e: lumina_node::store::StoreError| store_err_kind(&e);
    let mut by_height = Vec::with_capacity(t.heights.len());
    let mut meta = Vec::with_capacity(t.heights.len());
    for &h in &t.heights {
        let r = store.get_by_height(h).await.map(|x| t.id(&x)).map_err(ek);
        by_height.push((r, store.has_at(h).await));
        meta.push(
            store
                .get_sampling_metadata(h)
                .await
                .map(|o| {
                    o.map(|m| {
                        let bytes: Vec<Vec<u8>> = m.cids.iter().map(|c| c.to_bytes()).collect();
                        (bytes.len(), vcore::hash64(&bytes))
                    })
                })
                .map_err(ek),
        );
    }
    let mut by_hash = Vec::with_capacity(t.hashes.len());
    for hash in &t.hashes {
        let r = store.get_by_hash(hash).await.map(|x| t.id(&x)).map_err(ek);
        by_hash.push((r, store.has(hash).await));
    }
    Sweep {
        stored: store
            .get_stored_header_ranges()
            .await
            .map(|r| ranges_vec(&r))
            .map_err(ek),
        sampled: store
            .get_sampled_ranges()
            .await
            .map(|r| ranges_vec(&r))
            .map_err(ek),
        pruned: store
            .get_pruned_ranges()
            .await
            .map(|r| ranges_vec(&r))
            .map_err(ek),
        head_height: store.head_height().await.map_err(ek),
        head: store.get_head().await.map(|x| t.id(&x)).map_err(ek),
        by_height,
        by_hash,
        meta,
        identity: store
            .get_identity()
            .await
            .map(|k| k.public().to_peer_id().to_string())
            .map_err(ek),
    }
}

/// Hidden state: rows that no query shows while a height is absent, but that a continuation of
/// the history would reveal. A removed (pruned) height is inserted again (genuine header, next to
/// a stored range); a freshly inserted height must have no sampling metadata and must not be
/// marked sampled — in every prefix state the metadata of a removed height is gone.
async fn probe(store: &RedbStore, t: &Truth, s: &Sweep) -> Option<(&'static str, String)> {
    let (Ok(stored), Ok(pruned)) = (&s.stored, &s.pruned) else {
        return None;
    };
    let mut done = 0;
    for (a, b) in pruned.iter() {
        for h in [*a, *b] {
            let adjacent = (h > 1 && in_ranges(stored, h - 1)) || in_ranges(stored, h + 1);
            let Some(hdr) = t.main.get(&h) else { continue };
            if !adjacent || done >= 2 {
                continue;
            }
            done += 1;
            if store.insert(vec![hdr.clone()]).await.is_err() {
                // e.g. the neighbour is a header of the fork: not this probe's business
                return None;
            }
            match store.get_sampling_metadata(h).await {
                Ok(None) => {}
                Ok(Some(m)) => {
                    return Some((
                        "sampling-metadata-of-removed-height-resurfaces",
                        format!(
                            "height {h} re-inserted after the crash shows {} cids",
                            m.cids.len()
                        ),
                    ));
                }
                Err(e) => {
                    return Some((
                        "sampling-metadata-unreadable-after-reinsert",
                        format!("height {h}: {}", store_err_kind(&e)),
                    ));
                }
            }
            match store.get_sampled_ranges().await {
                Ok(r) if !r.contains(h) => {}
                other => {
                    return Some((
                        "removed-height-still-marked-sampled",
                        format!("height {h}: {other:?}"),
                    ));
                }
            }
            if a == b {
                break;
            }
        }
    }
    None
}

fn in_ranges(r: &[(u64, u64)], h: u64) -> bool {
    r.iter().any(|(a, b)| *a <= h && h <= *b)
}

/// Part (3) of the property: indexes mutually consistent. Returns the first broken rule.
fn consistency(
    s: &Sweep,
    t: &Truth,
    adj_cache: &mut HashMap<([u8; 32], [u8; 32]), bool>,
) -> Option<(&'static str, String)> {
    let (Ok(stored), Ok(sampled), Ok(pruned)) = (&s.stored, &s.sampled, &s.pruned) else {
        return Some((
            "ranges-unreadable",
            format!("{:?} {:?} {:?}", s.stored, s.sampled, s.pruned),
        ));
    };
    for r in [stored, sampled, pruned] {
        let mut prev_end: Option<u64> = None;
        for (a, b) in r.iter() {
            if a > b || *a == 0 || prev_end.map(|p| p + 1 >= *a).unwrap_or(false) {
                return Some(("ranges-malformed", format!("{r:?}")));
            }
            prev_end = Some(*b);
        }
    }
    let lo = *t.heights.first().unwrap();
    let hi = *t.heights.last().unwrap();
    for (a, b) in stored.iter() {
        if *a < lo || *b > hi {
            return Some(("stored-height-never-inserted", format!("{stored:?}")));
        }
    }
    for (a, b) in sampled.iter() {
        for h in *a..=*b {
            if !in_ranges(stored, h) {
                return Some(("sampled-not-stored", format!("height {h}")));
            }
        }
    }
    for (a, b) in pruned.iter() {
        if *a < lo || *b > hi {
            return Some(("pruned-height-never-inserted", format!("{pruned:?}")));
        }
        for h in *a..=*b {
            if in_ranges(stored, h) {
                return Some(("pruned-and-stored", format!("height {h}")));
            }
        }
    }
    let mut stored_hashes: HashMap<[u8; 32], u64> = HashMap::new();
    let mut prev: Option<HdrId> = None;
    for (i, &h) in t.heights.iter().enumerate() {
        let (r, has_at) = &s.by_height[i];
        let is_stored = in_ranges(stored, h);
        match r {
            Ok(id) => {
                if !is_stored {
                    return Some(("header-without-range", format!("height {h}")));
                }
                if id.height != h {
                    return Some((
                        "header-at-wrong-height",
                        format!("asked {h}, got {}", id.height),
                    ));
                }
                if !id.genuine {
                    return Some(("header-content-altered", format!("height {h}")));
                }
                if stored_hashes.insert(id.hash, h).is_some() {
                    return Some(("hash-at-two-heights", format!("height {h}")));
                }
                if let Some(p) = &prev {
                    let ok = *adj_cache.entry((p.hash, id.hash)).or_insert_with(|| {
                        let a = &t.by_hash[&p.hash];
                        let b = &t.by_hash[&id.hash];
                        a.verify_adjacent(b).is_ok()
                    });
                    if !ok {
                        return Some((
                            "adjacent-headers-do-not-verify",
                            format!("heights {} {}", p.height, h),
                        ));
                    }
                }
                prev = Some(id.clone());
            }
            Err("NotFound") => {
                if is_stored {
                    return Some(("range-without-header", format!("height {h}")));
                }
                prev = None;
            }
            Err(e) => return Some(("get_by_height-error", format!("height {h}: {e}"))),
        }
        if *has_at != is_stored {
            return Some(("has_at-disagrees-with-ranges", format!("height {h}")));
        }
        match &s.meta[i] {
            Ok(_) if is_stored => {}
            Err("NotFound") if !is_stored => {}
            m => {
                return Some((
                    "sampling-metadata-disagrees-with-ranges",
                    format!("height {h} stored={is_stored} meta={m:?}"),
                ));
            }
        }
    }
    for (i, hash) in t.hashes.iter().enumerate() {
        let key = hkey(hash);
        let (r, has) = &s.by_hash[i];
        match (r, stored_hashes.get(&key)) {
            (Ok(id), Some(h)) => {
                if id.height != *h || id.hash != key || !id.genuine {
                    return Some((
                        "hash-index-points-to-other-header",
                        format!("hash of height {h} answered with height {}", id.height),
                    ));
                }
            }
            (Err("NotFound"), None) => {}
            (Ok(id), None) => {
                return Some((
                    "hash-index-entry-without-header",
                    format!("height {}", id.height),
                ));
            }
            (Err(e), Some(h)) => {
                return Some((
                    "stored-header-not-found-by-hash",
                    format!("height {h}: {e}"),
                ));
            }
            (Err(e), None) => return Some(("get_by_hash-error", format!("{e}"))),
        }
        if *has != stored_hashes.contains_key(&key) {
            return Some(("has-disagrees-with-hash-index", format!("hash #{i}")));
        }
    }
    let top = stored.last().map(|x| x.1);
    match (&s.head_height, &s.head, top) {
        (Ok(hh), Ok(id), Some(top)) if *hh == top && id.height == top && id.genuine => {}
        (Err("NotFound"), Err("NotFound"), None) => {}
        other => return Some(("head-disagrees-with-ranges", format!("{other:?}"))),
    }
    if s.identity.is_err() {
        return Some(("identity-unreadable", format!("{:?}", s.identity)));
    }
    None
}

fn diff(a: &Sweep, b: &Sweep) -> String {
    let mut d = Vec::new();
    macro_rules! f {
        ($n:ident) => {
            if a.$n != b.$n {
                d.push(format!("{}: {:?} vs {:?}", stringify!($n), a.$n, b.$n));
            }
        };
    }
    f!(stored);
    f!(sampled);
    f!(pruned);
    f!(head_height);
    f!(identity);
    if a.head != b.head {
        d.push("head".into());
    }
    let cnt = |x: usize, n: &str, d: &mut Vec<String>| {
        if x > 0 {
            d.push(format!("{n}: {x} entries differ"));
        }
    };
    cnt(
        a.by_height
            .iter()
            .zip(&b.by_height)
            .filter(|(x, y)| x != y)
            .count(),
        "by_height",
        &mut d,
    );
    cnt(
        a.by_hash
            .iter()
            .zip(&b.by_hash)
            .filter(|(x, y)| x != y)
            .count(),
        "by_hash",
        &mut d,
    );
    cnt(
        a.meta.iter().zip(&b.meta).filter(|(x, y)| x != y).count(),
        "sampling_metadata",
        &mut d,
    );
    let mut s = d.join("; ");
    s.truncate(600);
    s
}

// ---------------------------------------------------------------------------------------------
// Operation histories
// ---------------------------------------------------------------------------------------------

#[derive(Clone)]
enum Op {
    Insert(Vec<ExtendedHeader>),
    Remove(u64),
    MarkSampled(u64),
    UpdateMeta(u64, Vec<Cid>),
}

impl Op {
    fn class(&self) -> &'static str {
        match self {
            Op::Insert(_) => "insert",
            Op::Remove(_) => "remove_height",
            Op::MarkSampled(_) => "mark_as_sampled",
            Op::UpdateMeta(..) => "update_sampling_metadata",
        }
    }
    fn describe(&self) -> String {
        match self {
            Op::Insert(v) => format!(
                "insert {}..={}",
                v.first().map(|h| u64::from(h.height())).unwrap_or(0),
                v.last().map(|h| u64::from(h.height())).unwrap_or(0)
            ),
            Op::Remove(h) => format!("remove_height {h}"),
            Op::MarkSampled(h) => format!("mark_as_sampled {h}"),
            Op::UpdateMeta(h, c) => format!("update_sampling_metadata {h} ({} cids)", c.len()),
        }
    }
}

struct OpRec {
    op: Op,
    kind: &'static str,
    /// backend-event index when the op was called / when it had returned
    started: usize,
    returned: usize,
    result: Result<(), &'static str>,
}

struct Recording {
    log: Vec<Ev>,
    /// log length when the initial `RedbStore::new` had returned
    k0: usize,
    ops: Vec<OpRec>,
    /// sweeps[j] = observable state after the first j ops
    sweeps: Vec<Sweep>,
    truth: Truth,
}

fn random_cid(rng: &mut ChaCha8Rng) -> Cid {
    let mut d = [0u8; 32];
    rng.fill(&mut d[..]);
    Cid::new_v1(0x55, multihash::Multihash::<64>::wrap(0x12, &d).unwrap())
}

struct Chains {
    base: u64,
    /// honest chain, heights base..base+n-1
    main: Vec<ExtendedHeader>,
    /// fork sharing the first `fork_at` headers; (height, header) of the diverging part
    fork: Vec<ExtendedHeader>,
}

impl Chains {
    fn hdr(&self, h: u64) -> &ExtendedHeader {
        &self.main[(h - self.base) as usize]
    }
    fn top(&self) -> u64 {
        self.base + self.main.len() as u64 - 1
    }
    fn slice(&self, a: u64, b: u64) -> Vec<ExtendedHeader> {
        (a..=b).map(|h| self.hdr(h).clone()).collect()
    }
}

fn gen_chains(rng: &mut ChaCha8Rng, n: u64) -> Chains {
    use vcore::SeedableRng;
    let base = if rng.gen_bool(0.5) {
        1
    } else {
        rng.gen_range(2..5000)
    };
    let nvals = rng.gen_range(1..=2);
    let powers: Vec<u64> = (0..nvals).map(|_| rng.gen_range(1..100)).collect();
    let block_time = std::time::Duration::from_secs(6);
    let start = ChainGen::start_time_for(n + 8, block_time, std::time::Duration::from_secs(3600));
    let mut g = ChainGen::new(
        ChaCha8Rng::from_seed(rng.r#gen()),
        "c22-chain",
        rng.gen_range(1..=6),
        &powers,
        base,
        start,
        block_time,
    );
    let fork_at = n / 2;
    g.next_many(fork_at);
    let mut f = g.fork(rng.r#gen());
    g.next_many(n - fork_at);
    let fork_len = (n - fork_at).min(6);
    let fork = f.next_many(fork_len);
    Chains {
        base,
        main: g.headers.clone(),
        fork,
    }
}

fn pick<T: Copy>(rng: &mut ChaCha8Rng, v: &[T]) -> Option<T> {
    if v.is_empty() {
        None
    } else {
        Some(v[rng.gen_range(0..v.len())])
    }
}

/// Choose the next operation from the currently stored heights (taken from the live store's own
/// answer, so the generator never drifts from the store).
fn next_op(
    rng: &mut ChaCha8Rng,
    c: &Chains,
    stored: &BTreeSet<u64>,
    bulky: bool,
    force_bulk: bool,
) -> (Op, &'static str) {
    let top = c.top();
    let all: Vec<u64> = stored.iter().copied().collect();
    if all.is_empty() {
        let a = rng.gen_range(c.base..=c.base + (c.main.len() as u64) / 3);
        let b = (a + rng.gen_range(0..6)).min(top);
        return (Op::Insert(c.slice(a, b)), "insert_first");
    }
    let head = *all.last().unwrap();
    let tail = all[0];
    // maximal runs of absent heights below the head
    let mut gaps: Vec<(u64, u64)> = Vec::new();
    let mut h = c.base;
    while h < head {
        if stored.contains(&h) {
            h += 1;
            continue;
        }
        let g0 = h;
        while !stored.contains(&h) {
            h += 1;
        }
        gaps.push((g0, h - 1));
    }
    let absent: Vec<u64> = (c.base..=top).filter(|h| !stored.contains(h)).collect();
    if force_bulk {
        let n = rng.gen_range(6000..8000);
        let cids = (0..n).map(|_| random_cid(rng)).collect();
        return (
            Op::UpdateMeta(pick(rng, &all).unwrap(), cids),
            "update_sampling_metadata_bulk",
        );
    }
    for _ in 0..20 {
        let mut w = rng.gen_range(0..100);
        if bulky && w >= 52 && rng.gen_bool(0.6) {
            // bulky histories: large values make the file grow (set_len) and, once the heights
            // are removed again, shrink
            if rng.gen_bool(0.75) {
                let n = rng.gen_range(2500..8000);
                let cids = (0..n).map(|_| random_cid(rng)).collect();
                return (
                    Op::UpdateMeta(pick(rng, &all).unwrap(), cids),
                    "update_sampling_metadata_bulk",
                );
            }
            w = 40; // removal
        }
        if w < 32 {
            // insert
            let sub = rng.gen_range(0..100);
            if sub < 45 && head < top {
                let b = (head + rng.gen_range(1..=6)).min(top);
                return (Op::Insert(c.slice(head + 1, b)), "insert_head_adjacent");
            } else if sub < 60 && head + 2 <= top {
                let a = (head + 1 + rng.gen_range(1..=4)).min(top);
                let b = (a + rng.gen_range(0..4)).min(top);
                return (Op::Insert(c.slice(a, b)), "insert_head_with_gap");
            } else if let Some((g0, g1)) = pick(rng, &gaps) {
                let left = g0 > c.base && stored.contains(&(g0 - 1));
                let len = g1 - g0 + 1;
                match rng.gen_range(0..3) {
                    0 if left && len <= 8 => {
                        return (Op::Insert(c.slice(g0, g1)), "insert_fill_both");
                    }
                    1 if left => {
                        let b = g0 + rng.gen_range(0..len.min(5));
                        return (Op::Insert(c.slice(g0, b)), "insert_fill_from_left");
                    }
                    _ => {
                        let a = g1 - rng.gen_range(0..len.min(5));
                        return (Op::Insert(c.slice(a, g1)), "insert_fill_from_right");
                    }
                }
            }
        } else if w < 52 {
            if rng.gen_bool(0.6) {
                return (Op::Remove(tail), "remove_tail");
            }
            return (Op::Remove(pick(rng, &all).unwrap()), "remove_any");
        } else if w < 67 {
            return (Op::MarkSampled(pick(rng, &all).unwrap()), "mark_as_sampled");
        } else if w < 87 {
            let n = rng.gen_range(0..4);
            let cids = (0..n).map(|_| random_cid(rng)).collect();
            return (
                Op::UpdateMeta(pick(rng, &all).unwrap(), cids),
                "update_sampling_metadata",
            );
        } else {
            // operations the store must reject (their transaction is aborted)
            match rng.gen_range(0..6) {
                0 => {
                    let a = pick(rng, &all).unwrap();
                    let b = (a + rng.gen_range(0..3)).min(top);
                    return (Op::Insert(c.slice(a, b)), "rejected_insert_overlap");
                }
                1 => {
                    // fork header next to a stored honest header
                    let cands: Vec<&ExtendedHeader> = c
                        .fork
                        .iter()
                        .skip(1)
                        .filter(|f| stored.contains(&(u64::from(f.height()) - 1)))
                        .collect();
                    if let Some(f) = pick(rng, &cands) {
                        return (Op::Insert(vec![f.clone()]), "rejected_insert_fork");
                    }
                }
                2 => {
                    // island strictly inside a gap
                    if let Some((g0, g1)) = pick(rng, &gaps) {
                        if g1 - g0 >= 2 {
                            return (
                                Op::Insert(c.slice(g0 + 1, g0 + 1)),
                                "rejected_insert_island",
                            );
                        }
                    }
                }
                3 => {
                    if let Some(h) = pick(rng, &absent) {
                        return (Op::Remove(h), "rejected_remove_absent");
                    }
                }
                4 => {
                    if let Some(h) = pick(rng, &absent) {
                        return (Op::MarkSampled(h), "rejected_mark_absent");
                    }
                }
                _ => {
                    if let Some(h) = pick(rng, &absent) {
                        return (
                            Op::UpdateMeta(h, vec![random_cid(rng)]),
                            "rejected_metadata_absent",
                        );
                    }
                }
            }
        }
    }
    (Op::MarkSampled(head), "mark_as_sampled")
}

async fn record(
    rng: &mut ChaCha8Rng,
    n_ops: usize,
    chain_len: u64,
    bulky: bool,
) -> Result<Recording, String> {
    let chains = gen_chains(rng, chain_len);
    let mut by_hash = HashMap::new();
    let mut hashes = Vec::new();
    for h in chains.main.iter().chain(chains.fork.iter()) {
        hashes.push(h.hash());
        by_hash.insert(hkey(&h.hash()), h.clone());
    }
    let lo = chains.base.saturating_sub(1).max(1);
    let truth = Truth {
        heights: (lo..=chains.top() + 1).collect(),
        hashes,
        by_hash,
        main: chains
            .main
            .iter()
            .map(|h| (u64::from(h.height()), h.clone()))
            .collect(),
    };

    let backend = CrashBackend::new(Vec::new(), true);
    let db = Database::builder()
        .create_with_backend(backend.clone())
        .map_err(|e| format!("create: {e}"))?;
    let store = RedbStore::new(Arc::new(db))
        .await
        .map_err(|e| format!("RedbStore::new: {e}"))?;
    let k0 = backend.log_len();
    let mut sweeps = vec![sweep(&store, &truth).await];
    let mut ops = Vec::with_capacity(n_ops);
    for _ in 0..n_ops {
        let stored: BTreeSet<u64> = match &sweeps.last().unwrap().stored {
            Ok(r) => r.iter().flat_map(|(a, b)| *a..=*b).collect(),
            Err(e) => return Err(format!("live store unreadable: {e}")),
        };
        // bulky histories start with three large values, which makes the file grow for certain
        let force_bulk = bulky && (1..=3).contains(&ops.len()) && !stored.is_empty();
        let (op, kind) = next_op(rng, &chains, &stored, bulky, force_bulk);
        let started = backend.log_len();
        let result = match op.clone() {
            Op::Insert(v) => store.insert(v).await,
            Op::Remove(h) => store.remove_height(h).await,
            Op::MarkSampled(h) => store.mark_as_sampled(h).await,
            Op::UpdateMeta(h, c) => store.update_sampling_metadata(h, c).await,
        }
        .map_err(|e| store_err_kind(&e));
        let returned = backend.log_len();
        ops.push(OpRec {
            op,
            kind,
            started,
            returned,
            result,
        });
        sweeps.push(sweep(&store, &truth).await);
    }
    let k_end = backend.log_len();
    let log = backend.take_log(k_end);
    drop(store);
    Ok(Recording {
        log,
        k0,
        ops,
        sweeps,
        truth,
    })
}

// ---------------------------------------------------------------------------------------------
// Reopen + sweep of one crash image
// ---------------------------------------------------------------------------------------------

static EXPLORATION_EXAMPLE: std::sync::atomic::AtomicBool =
    std::sync::atomic::AtomicBool::new(false);

enum Reopened {
    Ok(Box<Sweep>, Option<(&'static str, String)>),
    /// (stage, panic?, text)
    Failed(&'static str, bool, String),
}

fn reopen(
    rt: &tokio::runtime::Runtime,
    image: Vec<u8>,
    truth: &Truth,
    repairs: &Arc<AtomicU64>,
) -> Reopened {
    let backend = CrashBackend::new(image, false);
    let rep = repairs.clone();
    let db = match guard(|| {
        Database::builder()
            .set_repair_callback(move |_s| {
                rep.fetch_add(1, Ordering::Relaxed);
            })
            .create_with_backend(backend)
    }) {
        Ok(Ok(db)) => Arc::new(db),
        Ok(Err(e)) => return Reopened::Failed("redb-open", false, e.to_string()),
        Err(p) => return Reopened::Failed("redb-open", true, p),
    };
    match guard(|| {
        rt.block_on(async {
            let store = RedbStore::new(db).await.map_err(|e| e.to_string())?;
            let sw = sweep(&store, truth).await;
            let hidden = probe(&store, truth, &sw).await;
            Ok::<_, String>((sw, hidden))
        })
    }) {
        Ok(Ok((s, hidden))) => Reopened::Ok(Box::new(s), hidden),
        Ok(Err(e)) => Reopened::Failed("RedbStore::new", false, e),
        Err(p) => Reopened::Failed("RedbStore::new", true, p),
    }
}

// ---------------------------------------------------------------------------------------------
// Crash-image enumeration
// ---------------------------------------------------------------------------------------------

#[derive(Clone, Copy, PartialEq)]
enum Mode {
    /// a few members of every subset family per crash point
    Sampled,
    /// every member of every family; all 2^m subsets when m <= EXHAUSTIVE_MAX
    Full,
}

const EXHAUSTIVE_MAX: usize = 10;
static EXH_BURSTS: AtomicU64 = AtomicU64::new(0);
static BIG_BURSTS: AtomicU64 = AtomicU64::new(0);

/// Subsets (as sorted index lists into the droppable items `0..m`) with their family name.
fn subsets(
    rng: &mut ChaCha8Rng,
    m: usize,
    is_header: &[bool],
    mode: Mode,
) -> Vec<(&'static str, Vec<usize>)> {
    let mut out: Vec<(&'static str, Vec<usize>)> = Vec::new();
    if m == 0 {
        out.push(("clean", vec![]));
        return out;
    }
    let all: Vec<usize> = (0..m).collect();
    out.push(("all", all.clone()));
    out.push(("none", vec![]));
    if is_header.iter().any(|x| *x) && is_header.iter().any(|x| !*x) {
        out.push((
            "header_only",
            all.iter().copied().filter(|i| is_header[*i]).collect(),
        ));
        out.push((
            "all_but_header",
            all.iter().copied().filter(|i| !is_header[*i]).collect(),
        ));
    }
    if mode == Mode::Full && m <= EXHAUSTIVE_MAX {
        EXH_BURSTS.fetch_add(1, Ordering::Relaxed);
        for mask in 0u32..(1 << m) {
            out.push((
                "exhaustive",
                all.iter()
                    .copied()
                    .filter(|i| mask & (1 << i) != 0)
                    .collect(),
            ));
        }
        return out;
    }
    if mode == Mode::Full {
        BIG_BURSTS.fetch_add(1, Ordering::Relaxed);
    }
    let singles: Vec<usize> = if mode == Mode::Full {
        all.clone()
    } else {
        (0..3.min(m)).map(|_| rng.gen_range(0..m)).collect()
    };
    for &i in &singles {
        out.push((
            "drop_one",
            all.iter().copied().filter(|x| *x != i).collect(),
        ));
    }
    let singles: Vec<usize> = if mode == Mode::Full {
        all.clone()
    } else {
        (0..2.min(m)).map(|_| rng.gen_range(0..m)).collect()
    };
    for &i in &singles {
        out.push(("keep_one", vec![i]));
    }
    if m >= 2 {
        let cuts: Vec<usize> = if mode == Mode::Full {
            (1..m).collect()
        } else {
            (0..2).map(|_| rng.gen_range(1..m)).collect()
        };
        for &c in &cuts {
            out.push(("prefix", (0..c).collect()));
            out.push(("suffix", (c..m).collect()));
        }
    }
    let n_rand = if mode == Mode::Full { 12 } else { 3 };
    for r in 0..n_rand {
        let p = match r % 4 {
            0 => 0.5,
            1 => 0.85,
            2 => 0.15,
            _ => rng.gen_range(0.05..0.95),
        };
        out.push((
            "random_subset",
            all.iter().copied().filter(|_| rng.gen_bool(p)).collect(),
        ));
    }
    out
}

fn op_class_of(rec: &Recording, j: usize) -> &'static str {
    rec.ops[j].op.class()
}

fn history_json(rec: &Recording) -> vcore::Value {
    json!(
        rec.ops
            .iter()
            .enumerate()
            .map(|(i, o)| json!({
                "i": i + 1,
                "op": o.op.describe(),
                "kind": o.kind,
                "result": match o.result { Ok(()) => "Ok", Err(e) => e },
                "events": [o.started, o.returned],
            }))
            .collect::<Vec<_>>()
    )
}

/// Compact picture of the backend events per op: `W`rite count, `S`ync, `s` = eventual sync,
/// `L` = set_len.
fn shape(rec: &Recording) -> Vec<String> {
    let seg = |a: usize, b: usize| -> String {
        let mut out = String::new();
        let mut w = 0;
        for ev in &rec.log[a..b] {
            if let Ev::Write { .. } = ev {
                w += 1;
                continue;
            }
            if w > 0 {
                out += &format!("W{w} ");
                w = 0;
            }
            match ev {
                Ev::SetLen(n) => out += &format!("L({n}) "),
                Ev::Sync { eventual: false } => out += "S ",
                Ev::Sync { eventual: true } => out += "s ",
                _ => {}
            }
        }
        if w > 0 {
            out += &format!("W{w} ");
        }
        out
    };
    let mut v = vec![format!("create+RedbStore::new: {}", seg(0, rec.k0))];
    for o in &rec.ops {
        v.push(format!(
            "{} -> {}: {}",
            o.op.describe(),
            match o.result {
                Ok(()) => "Ok",
                Err(e) => e,
            },
            seg(o.started, o.returned)
        ));
    }
    v
}

fn out_identity(r: &Reopened) -> String {
    match r {
        Reopened::Ok(s, _) => format!("{:?}", s.identity),
        _ => String::new(),
    }
}

struct Outcome {
    reopened: Reopened,
    inconsistent: Option<(&'static str, String)>,
    digest: u64,
}

fn enumerate(
    ctx: &Ctx,
    rt: &tokio::runtime::Runtime,
    hist: u64,
    rec: &Recording,
    mode: Mode,
    stride: usize,
    rng: &mut ChaCha8Rng,
) {
    let log = &rec.log;
    let n = rec.ops.len();
    let digests: Vec<u64> = rec.sweeps.iter().map(vcore::hash64).collect();
    let repairs = Arc::new(AtomicU64::new(0));
    let mut adj_cache = HashMap::new();

    // crash points: every boundary adjacent to a non-write event or an op boundary
    let mut bounds: HashSet<usize> = HashSet::new();
    for o in &rec.ops {
        bounds.insert(o.started);
        bounds.insert(o.returned);
    }
    let is_write = |i: usize| matches!(log[i], Ev::Write { .. });
    let mut points: Vec<usize> = Vec::new();
    for k in rec.k0..=log.len() {
        let mid_burst = k > 0 && k < log.len() && is_write(k - 1) && is_write(k);
        if mid_burst && !bounds.contains(&k) {
            ctx.count("boundaries.mid_burst(subsumed by burst end)");
            continue;
        }
        points.push(k);
    }
    let offset = if stride > 1 {
        rng.gen_range(0..stride)
    } else {
        0
    };

    let mut durable: Vec<u8> = Vec::new();
    let mut durable_upto = 0usize; // events [0, durable_upto) are applied to `durable`
    let mut last_sync: Option<usize> = None;
    let mut scan = 0usize; // events [0, scan) inspected for syncs
    let mut cache: HashMap<(usize, Vec<usize>), Outcome> = HashMap::new();

    for (pi, &k) in points.iter().enumerate() {
        // the most interesting points (burst ends = a sync follows) are never skipped
        let before_sync = k < log.len() && matches!(log[k], Ev::Sync { .. });
        if stride > 1 && !before_sync && pi % stride != offset {
            continue;
        }
        while scan < k {
            if matches!(log[scan], Ev::Sync { eventual: false }) {
                last_sync = Some(scan);
            }
            scan += 1;
        }
        let s = last_sync.map(|x| x + 1).unwrap_or(0);
        if s > durable_upto {
            for ev in &log[durable_upto..s] {
                apply(&mut durable, ev);
            }
            durable_upto = s;
            cache.clear();
        }
        // segments of pending events, split at write barriers
        let mut segs: Vec<Vec<usize>> = vec![vec![]];
        for i in s..k {
            match log[i] {
                Ev::Sync { eventual: true } => segs.push(vec![]),
                Ev::Sync { eventual: false } => unreachable!(),
                _ => segs.last_mut().unwrap().push(i),
            }
        }
        // acked(k): ops that had returned when event k was about to be issued; started(k): ops that
        // had issued at least one backend event (an op without any backend event cannot have
        // changed the file, so counting it as not started is the stricter reading; it is still
        // covered by `acked` once it returned).
        let acked = rec.ops.iter().filter(|o| o.returned <= k).count();
        let started = rec.ops.iter().filter(|o| o.started < k).count().max(acked);
        assert!(started <= n && started - acked <= 1, "ops are sequential");
        let pending_writes: usize = segs.iter().flatten().filter(|i| is_write(**i)).count();
        ctx.count("crash_points");
        if pending_writes > 0 {
            ctx.count("crash_points.inside_commit(>=1 unsynced write)");
        } else {
            ctx.count("crash_points.nothing_unsynced");
        }
        if started > acked {
            ctx.count("crash_points.op_in_flight");
        }

        for e in 0..segs.len() {
            let last_seg = e + 1 == segs.len();
            // droppable = writes of segment e in canonical order; length changes always applied
            let mut items: Vec<usize> = segs[e].iter().copied().filter(|i| is_write(*i)).collect();
            items.sort_by_key(|i| match &log[*i] {
                Ev::Write { off, data } => (*off, data.len(), *i),
                _ => unreachable!(),
            });
            let is_header: Vec<bool> = items
                .iter()
                .map(|i| matches!(&log[*i], Ev::Write { off: 0, .. }))
                .collect();
            let fams = if last_seg {
                subsets(rng, items.len(), &is_header, mode)
            } else {
                // crash before the barrier's successors reached the disk
                let m = items.len();
                let mut v = vec![("barrier_none", vec![])];
                if m > 0 {
                    v.push((
                        "barrier_random_subset",
                        (0..m).filter(|_| rng.gen_bool(0.5)).collect(),
                    ));
                }
                v
            };
            // Exploration only, never a verdict: images in which an unsynced file *growth*
            // (set_len) is lost while later whole writes survive. Whether such a disk state is
            // inside the property's quantifier ("any subset of whole writes") is debatable, so the
            // outcome is only counted and reported.
            if last_seg
                && segs[e]
                    .iter()
                    .any(|i| matches!(log[*i], Ev::SetLen(n) if n as usize > durable.len()))
            {
                for (name, keep_data) in [("all_writes", true), ("header_write_only", false)] {
                    let mut img = durable.clone();
                    for &i in &segs[e] {
                        match &log[i] {
                            Ev::Write { off, .. } if keep_data || *off == 0 => {
                                apply(&mut img, &log[i])
                            }
                            _ => {}
                        }
                    }
                    let cname = match reopen(rt, img, &rec.truth, &repairs) {
                        Reopened::Ok(sw, _) => {
                            let ok = (acked..=started).any(|j| rec.sweeps[j] == *sw);
                            format!(
                                "exploration.growth_set_len_lost.{name}.reopen_ok.{}",
                                if ok {
                                    "admissible_state"
                                } else {
                                    "other_state"
                                }
                            )
                        }
                        Reopened::Failed(stage, is_panic, text) => {
                            if !EXPLORATION_EXAMPLE.swap(true, Ordering::Relaxed) {
                                ctx.extra(
                                    "exploration_growth_set_len_lost_example",
                                    json!({
                                        "hist": hist, "crash_after_events": k, "kept": name,
                                        "durable_file_len": durable.len(),
                                        "in_flight": if started > acked { json!(rec.ops[acked].op.describe()) } else { json!(null) },
                                        "stage": stage, "panic": is_panic, "text": text,
                                        "event_shape": shape(rec),
                                    }),
                                );
                            }
                            format!(
                                "exploration.growth_set_len_lost.{name}.reopen_failed.{stage}.{}",
                                if is_panic {
                                    panic_site(&text)
                                } else {
                                    "error".into()
                                }
                            )
                        }
                    };
                    ctx.count(&cname);
                }
            }
            let mut seen: HashSet<Vec<usize>> = HashSet::new();
            for (family, kept) in fams {
                if !seen.insert(kept.clone()) {
                    continue;
                }
                let kept_set: HashSet<usize> = kept.iter().map(|x| items[*x]).collect();
                // applied log indices after the durable prefix, in log order
                let mut applied: Vec<usize> = Vec::new();
                for seg in &segs[..e] {
                    applied.extend(seg.iter().copied());
                }
                for &i in &segs[e] {
                    if !is_write(i) || kept_set.contains(&i) {
                        applied.push(i);
                    }
                }
                let dropped = items.len() - kept.len()
                    + segs[e + 1..]
                        .iter()
                        .flatten()
                        .filter(|i| is_write(**i))
                        .count();
                ctx.count(&format!("images.{family}"));
                if dropped > 0 {
                    ctx.count("images.with_dropped_write");
                    ctx.nontrivial(&(hist, s, &applied));
                }
                let key = (e, applied.clone());
                let out = cache.entry(key).or_insert_with(|| {
                    let mut img = durable.clone();
                    for &i in &applied {
                        apply(&mut img, &log[i]);
                    }
                    ctx.eval();
                    ctx.count("reopens");
                    let reopened = reopen(rt, img, &rec.truth, &repairs);
                    let (inconsistent, digest) = match &reopened {
                        Reopened::Ok(sw, _) => (
                            consistency(sw, &rec.truth, &mut adj_cache),
                            vcore::hash64(&**sw),
                        ),
                        _ => (None, 0),
                    };
                    Outcome {
                        reopened,
                        inconsistent,
                        digest,
                    }
                });
                ctx.count("checks(crash point x image)");

                let witness = |extra: vcore::Value| {
                    let offs = |sel: &dyn Fn(usize) -> bool| -> Vec<u64> {
                        items
                            .iter()
                            .enumerate()
                            .filter(|(x, _)| sel(*x))
                            .map(|(_, i)| match &log[*i] {
                                Ev::Write { off, .. } => *off,
                                _ => 0,
                            })
                            .collect()
                    };
                    let kept_ix: HashSet<usize> = kept.iter().copied().collect();
                    json!({
                        "hist": hist,
                        "crash_after_events": k,
                        "durable_prefix_events": s,
                        "family": family,
                        "barrier_segment": e,
                        "unsynced_writes": items.len(),
                        "kept_write_offsets": offs(&|x| kept_ix.contains(&x)),
                        "dropped_write_offsets": offs(&|x| !kept_ix.contains(&x)),
                        "acked_ops": acked,
                        "started_ops": started,
                        "in_flight": if started > acked { json!(rec.ops[acked].op.describe()) } else { json!(null) },
                        "history": history_json(rec),
                        "info": extra,
                    })
                };
                let in_flight_class = if started > acked {
                    op_class_of(rec, acked)
                } else {
                    "idle"
                };

                match &out.reopened {
                    Reopened::Failed(stage, is_panic, text) => {
                        let sig = if *is_panic {
                            format!("C22/reopen/{stage}/panic/{}", panic_site(text))
                        } else {
                            format!("C22/reopen/{stage}/error")
                        };
                        ctx.violation(
                            &sig,
                            &format!(
                                "reopening a legal post-crash image failed at {stage}: {text}"
                            ),
                            witness(json!({"error": text})),
                        );
                        continue;
                    }
                    Reopened::Ok(sw, hidden) => {
                        ctx.count("reopen_ok");
                        if let Some((rule, d)) = &out.inconsistent {
                            ctx.violation(
                                &format!("C22/recovered/inconsistent-indexes/{rule}"),
                                &format!("recovered store has inconsistent indexes: {rule}: {d}"),
                                witness(json!({"rule": rule, "detail": d})),
                            );
                            continue;
                        }
                        // the node identity is created once by the very first `RedbStore::new`;
                        // it is judged separately so that the op-state classification stays sharp
                        let id_changed = sw.identity != rec.sweeps[0].identity;
                        let normalized;
                        let (sw, digest): (&Sweep, u64) = if id_changed {
                            let mut c = (**sw).clone();
                            c.identity = rec.sweeps[0].identity.clone();
                            normalized = c;
                            (&normalized, vcore::hash64(&normalized))
                        } else {
                            (&**sw, out.digest)
                        };
                        let m_ack = digest == digests[acked] && *sw == rec.sweeps[acked];
                        let m_sta = digest == digests[started] && *sw == rec.sweeps[started];
                        if (m_ack || m_sta) && id_changed {
                            ctx.violation(
                                "C22/recovered/node-identity-changed",
                                "the libp2p identity stored by the initial RedbStore::new (which had returned before the crash) was replaced after the crash",
                                witness(json!({"before": rec.sweeps[0].identity, "after": out_identity(&out.reopened)})),
                            );
                            continue;
                        }
                        if let (true, Some((rule, d))) = (m_ack || m_sta, hidden) {
                            ctx.violation(
                                &format!("C22/recovered/hidden-state/{rule}"),
                                &format!("recovered store answers every query like a prefix state but carries hidden state: {rule}: {d}"),
                                witness(json!({"rule": rule, "detail": d})),
                            );
                            continue;
                        }
                        if m_ack || m_sta {
                            if started == acked {
                                ctx.count("recovered.idle_exact_state");
                            } else if m_ack && m_sta {
                                ctx.count("recovered.in_flight_op_changes_nothing");
                            } else if m_ack {
                                ctx.count("recovered.in_flight_op_rolled_back(j=acked)");
                            } else {
                                ctx.count("recovered.in_flight_op_committed(j=started)");
                            }
                            ctx.sample(|| {
                                json!({
                                    "hist": hist, "crash_after_events": k, "family": family,
                                    "unsynced_writes": items.len(), "dropped": dropped,
                                    "acked": acked, "started": started,
                                    "recovered_to_prefix": if m_ack { acked } else { started },
                                    "in_flight": in_flight_class,
                                })
                            });
                            continue;
                        }
                        // not an admissible prefix: classify
                        // nearest earlier prefix first, then later ones
                        let other = (0..acked)
                            .rev()
                            .chain(started + 1..=n)
                            .find(|j| digests[*j] == digest && rec.sweeps[*j] == *sw);
                        match other {
                            Some(j) if j < acked => {
                                // first returned op whose effect is missing
                                let li = (j + 1..=acked)
                                    .find(|i| rec.sweeps[*i] != rec.sweeps[j])
                                    .unwrap_or(acked);
                                let lost = op_class_of(rec, li - 1);
                                ctx.violation(
                                    &format!("C22/recovered/acknowledged-op-lost/{lost}"),
                                    &format!(
                                        "state after crash equals the state after {j} ops, but {acked} ops had returned (lost: {}){}",
                                        rec.ops[li - 1].op.describe(),
                                        if id_changed { "; node identity changed too" } else { "" }
                                    ),
                                    witness(json!({"recovered_to_prefix": j})),
                                );
                            }
                            Some(j) => {
                                ctx.violation(
                                    "C22/recovered/state-of-a-later-prefix",
                                    &format!("state after crash equals the state after {j} ops, but only {started} had started"),
                                    witness(json!({"recovered_to_prefix": j})),
                                );
                            }
                            None => {
                                ctx.violation(
                                    &format!("C22/recovered/not-a-prefix-state/{in_flight_class}"),
                                    &format!(
                                        "state after crash equals the state after no prefix of the history; vs S_{acked}: {}",
                                        diff(sw, &rec.sweeps[acked])
                                    ),
                                    witness(json!({
                                        "diff_vs_acked": diff(sw, &rec.sweeps[acked]),
                                        "diff_vs_started": diff(sw, &rec.sweeps[started]),
                                    })),
                                );
                            }
                        }
                    }
                }
            }
        }
    }
    ctx.count_n("redb_repair_callbacks", repairs.load(Ordering::Relaxed));
}

// ---------------------------------------------------------------------------------------------

pub fn run(ctx: &Ctx) {
    ctx.rule(
        "histories of 10-60 store ops (inserts at head / with gap / gap fills from either side, \
         remove_height, mark_as_sampled, update_sampling_metadata, rejected ops) on RedbStore over a \
         logging redb::StorageBackend; crash points = every backend-event boundary adjacent to a \
         sync/set_len/op boundary (mid-burst boundaries are subsumed: their images are subset images \
         of the burst end); image = durable prefix + subset of whole unsynced writes (families: all, \
         none, header_only, all_but_header, drop_one, keep_one, prefix, suffix, random_subset, and \
         all 2^m subsets for m<=10 in full mode); non-trivial = image with >=1 unsynced write dropped",
    );
    ctx.assume("a write is durable only after a later sync_data(false) returned; sync_data(true) is only a write barrier (redb StorageBackend contract)");
    ctx.assume("whole writes are atomic (no torn writes) and file-length changes persist in issue order (not dropped independently of later writes)");
    ctx.assume("reference states S_j are the live store's own sweeps after each op of the recording run (self-consistency across the crash); header content is additionally compared with the generated chain");

    let replay_hist = ctx
        .replay
        .as_ref()
        .and_then(|r| r["detail"]["hist"].as_u64());
    let n_hist: usize = ctx.scale(24, 120);
    let next = AtomicUsize::new(0);
    ctx.par(ctx.cores(), |_shard| {
        let rt = tokio::runtime::Builder::new_current_thread()
            .enable_time()
            .max_blocking_threads(1)
            .build()
            .unwrap();
        loop {
            let h = next.fetch_add(1, Ordering::Relaxed);
            if h >= n_hist {
                break;
            }
            if let Some(r) = replay_hist {
                if r != h as u64 {
                    continue;
                }
            }
            let mut rng = ctx.rng(1, h as u64);
            // quick: short/medium histories, a few members of every family, every 2nd quiet
            // boundary (boundaries in front of a sync are never skipped);
            // thorough: every boundary; a third short histories in full mode (all 2^m subsets for
            // m <= 10), a third long histories, a third bulky histories (file grows and shrinks)
            let (n_ops, chain_len, mode, stride, bulky) = if ctx.quick() {
                if h % 6 == 5 {
                    (rng.gen_range(12..=20), rng.gen_range(12..=20), Mode::Sampled, 2, true)
                } else {
                    (rng.gen_range(10..=30), rng.gen_range(16..=32), Mode::Sampled, 2, false)
                }
            } else {
                match h % 3 {
                    0 => (rng.gen_range(10..=20), rng.gen_range(12..=24), Mode::Full, 1, false),
                    1 => (rng.gen_range(30..=60), rng.gen_range(24..=48), Mode::Sampled, 1, false),
                    _ => (rng.gen_range(15..=30), rng.gen_range(12..=24), Mode::Sampled, 1, true),
                }
            };
            let rec = match guard(|| rt.block_on(record(&mut rng, n_ops, chain_len, bulky))) {
                Ok(Ok(r)) => r,
                Ok(Err(e)) => {
                    ctx.inconclusive(&format!("recording run of history {h} failed: {e}"));
                    continue;
                }
                Err(p) => {
                    ctx.inconclusive(&format!("recording run of history {h} panicked: {p}"));
                    continue;
                }
            };
            ctx.count("histories");
            ctx.count(match (mode, bulky) {
                (Mode::Full, _) => "histories.full_enumeration",
                (_, true) => "histories.bulky",
                _ => "histories.sampled_families",
            });
            ctx.count_n(
                "backend_events.set_len",
                rec.log[rec.k0..].iter().filter(|e| matches!(e, Ev::SetLen(_))).count() as u64,
            );
            if h == 0 {
                ctx.extra("event_shape_of_history_0", json!(shape(&rec)));
            }
            if bulky && (h == 5 || h == 2) {
                ctx.extra("event_shape_of_first_bulky_history", json!(shape(&rec)));
            }
            ctx.count_n("backend_events", rec.log.len() as u64);
            for o in &rec.ops {
                ctx.count(&format!(
                    "ops.{}.{}",
                    o.kind,
                    if o.result.is_ok() { "ok" } else { "err" }
                ));
                ctx.count(&format!("ops_by_class.{}", o.op.class()));
            }
            // the live store itself must be consistent, else this monitor has no reference
            let mut adj = HashMap::new();
            for (j, s) in rec.sweeps.iter().enumerate() {
                if let Some((rule, d)) = consistency(s, &rec.truth, &mut adj) {
                    ctx.inconclusive(&format!(
                        "live store inconsistent without any crash (history {h}, after {j} ops): {rule}: {d} — outside C22, see C19/C21"
                    ));
                }
            }
            let mut rng2 = ctx.rng(2, h as u64);
            enumerate(ctx, &rt, h as u64, &rec, mode, stride, &mut rng2);
        }
    });

    ctx.count_n(
        "full_mode.crash_points_with_all_2^m_subsets_enumerated",
        EXH_BURSTS.load(Ordering::Relaxed),
    );
    ctx.count_n(
        "full_mode.crash_points_with_m>10_unsynced_writes(families only)",
        BIG_BURSTS.load(Ordering::Relaxed),
    );
    // coverage floors (not in replay mode; a run that already found violations is not turned into
    // "inconclusive" by them)
    if replay_hist.is_none() && ctx.violation_count() == 0 {
        ctx.floor(
            "crash_points.inside_commit(>=1 unsynced write)",
            ctx.scale(200, 1500),
        );
        ctx.floor("images.with_dropped_write", ctx.scale(2000, 20000));
        ctx.floor("recovered.in_flight_op_rolled_back(j=acked)", 50);
        ctx.floor("recovered.in_flight_op_committed(j=started)", 50);
        ctx.floor("recovered.idle_exact_state", 50);
        ctx.floor("redb_repair_callbacks", 50);
        ctx.floor("backend_events.set_len", ctx.scale(2, 20));
        for c in [
            "insert",
            "remove_height",
            "mark_as_sampled",
            "update_sampling_metadata",
        ] {
            ctx.floor(&format!("ops_by_class.{c}"), 10);
        }
    }
}
