//! C32 — header-ex requests are retried boundedly and answered once (fault enumeration).
//!
//! The real `HeaderExClientHandler` (through `VHeaderExClient` with the recording request sender) is
//! driven in tokio virtual time against a real `PeerTracker`. The harness is the network: each
//! attempt the client sends gets a scripted outcome {valid, valid shorter prefix, not-found,
//! invalid status, garbage, wrong start/hash, empty list, too many headers, each OutboundFailure}.
//! Part (a) enumerates every outcome sequence of up to three attempts over that alphabet for several
//! peer-population classes; part (b) runs random histories with several concurrent requests,
//! connects / disconnects / archival marks during the run, caller cancellation and `on_stop`.
//!
//! Offline-style oracle, evaluated incrementally over the send / outcome / answer log; a logical
//! request is identified by its unique content ((origin, amount) or hash):
//!   * at most 3 sends per request; each to a peer the tracker reported as connected at that
//!     scheduling call; the 3rd send only to an archival peer; no send after the answer / after stop;
//!   * at most one answer; Ok(v) only if one of its attempts was given a valid response carrying
//!     exactly v; Err(e) only if e is the error of the last attempt, and that last attempt was
//!     directed to an archival peer ("the final error"); after `on_stop` any error;
//!   * an answer is present as soon as the client is quiescent after a valid response, after the
//!     failure of the third attempt, and after `on_stop` (also for requests submitted later);
//!   * bounded progress: a request waiting to be (re)sent is sent within 1 s of virtual time once a
//!     connected peer of the needed kind (any; archival for the 3rd attempt) has been available
//!     continuously.
//! lumina picks peers with `thread_rng`; nothing above depends on which eligible peer was chosen.

use std::collections::HashMap;
use std::sync::Arc;
use std::sync::atomic::{AtomicBool, Ordering};
use std::task::{Context, Poll, Wake, Waker};
use std::time::Duration;

use celestia_proto::p2p::pb::header_request::Data;
use celestia_proto::p2p::pb::{HeaderRequest, HeaderResponse};
use celestia_types::ExtendedHeader;
use libp2p::PeerId;
use libp2p::request_response::OutboundFailure;
use libp2p::swarm::ConnectionId;
use lumina_node::node::{HeaderExError, P2pError};
use lumina_node::verif::header_ex::{VEvent, VHeaderExClient};
use lumina_node::verif::{VEventChannel, VPeerTracker};
use tendermint_proto::Protobuf;
use tokio::sync::oneshot;
use tokio::time::Instant;
use vcore::{ChaCha8Rng, Ctx, Rng, SliceRandom, guard, json, panic_site};
use vgen::chain::ChainGen;

const LIMIT: Duration = Duration::from_millis(1000);

struct Flag(AtomicBool);
impl Wake for Flag {
    fn wake(self: Arc<Self>) {
        self.0.store(true, Ordering::SeqCst);
    }
    fn wake_by_ref(self: &Arc<Self>) {
        self.0.store(true, Ordering::SeqCst);
    }
}

fn peer_id(rng: &mut impl Rng) -> PeerId {
    let mut digest = [0u8; 32];
    rng.fill_bytes(&mut digest);
    let mut bytes = vec![0x12, 0x20];
    bytes.extend_from_slice(&digest);
    PeerId::from_bytes(&bytes).expect("sha2-256 multihash is a valid PeerId")
}

/// Poll until quiescent or until a scheduling tick is handed out. None = watchdog.
fn poll_all(client: &mut VHeaderExClient, flag: &Arc<Flag>) -> Option<Vec<VEvent>> {
    let waker = Waker::from(flag.clone());
    let mut cx = Context::from_waker(&waker);
    let mut evs = Vec::new();
    for _ in 0..20_000 {
        flag.0.store(false, Ordering::SeqCst);
        match client.poll(&mut cx) {
            Poll::Ready(ev) => {
                evs.push(ev);
                if ev == VEvent::SchedulePendingRequests {
                    return Some(evs);
                }
            }
            Poll::Pending => {
                if !flag.0.load(Ordering::SeqCst) {
                    return Some(evs);
                }
            }
        }
    }
    None
}


/// Poll to real quiescence. lumina's response task uses `tokio::task::yield_now`, whose wake-up is
/// deferred until the runtime gets control, so after a Pending poll the harness yields once to the
/// runtime and polls again if that woke the client. Returns early with a scheduling tick.
async fn quiesce(client: &mut VHeaderExClient, flag: &Arc<Flag>) -> Option<Vec<VEvent>> {
    let mut all = Vec::new();
    for _ in 0..2_000 {
        let evs = poll_all(client, flag)?;
        let tick = evs.contains(&VEvent::SchedulePendingRequests);
        all.extend(evs);
        if tick {
            return Some(all);
        }
        flag.0.store(false, Ordering::SeqCst);
        tokio::task::yield_now().await;
        if !flag.0.load(Ordering::SeqCst) {
            return Some(all);
        }
    }
    None
}

// ---------------------------------------------------------------------------------------------
// outcomes

#[derive(Clone, Copy, Debug, PartialEq, Eq, Hash)]
enum Out {
    Valid,
    ValidPrefix,
    NotFound,
    InvalidStatus,
    Garbage,
    Wrong,
    EmptyList,
    TooMany,
    Fail(u8),
}

const ALPHABET: [Out; 12] = [
    Out::Valid,
    Out::NotFound,
    Out::InvalidStatus,
    Out::Garbage,
    Out::Wrong,
    Out::EmptyList,
    Out::TooMany,
    Out::Fail(0),
    Out::Fail(1),
    Out::Fail(2),
    Out::Fail(3),
    Out::Fail(4),
];

#[derive(Clone, Copy, Debug, PartialEq, Eq)]
enum ErrClass {
    NotFound,
    InvalidResponse,
    Outbound(u8),
    InvalidRequest,
    Cancelled,
    Other,
}

impl Out {
    fn err_class(self) -> Option<ErrClass> {
        match self {
            Out::Valid | Out::ValidPrefix => None,
            Out::NotFound => Some(ErrClass::NotFound),
            Out::InvalidStatus | Out::Garbage | Out::Wrong | Out::EmptyList | Out::TooMany => Some(ErrClass::InvalidResponse),
            Out::Fail(k) => Some(ErrClass::Outbound(k % 5)),
        }
    }
}

fn failure(k: u8) -> OutboundFailure {
    match k % 5 {
        0 => OutboundFailure::DialFailure,
        1 => OutboundFailure::Timeout,
        2 => OutboundFailure::ConnectionClosed,
        3 => OutboundFailure::UnsupportedProtocols,
        _ => OutboundFailure::Io(std::io::Error::new(std::io::ErrorKind::BrokenPipe, "harness")),
    }
}

fn classify(e: &P2pError) -> ErrClass {
    match e {
        P2pError::HeaderEx(HeaderExError::HeaderNotFound) => ErrClass::NotFound,
        P2pError::HeaderEx(HeaderExError::InvalidResponse) => ErrClass::InvalidResponse,
        P2pError::HeaderEx(HeaderExError::InvalidRequest) => ErrClass::InvalidRequest,
        P2pError::HeaderEx(HeaderExError::RequestCancelled) => ErrClass::Cancelled,
        P2pError::HeaderEx(HeaderExError::OutboundFailure(f)) => ErrClass::Outbound(match f {
            OutboundFailure::DialFailure => 0,
            OutboundFailure::Timeout => 1,
            OutboundFailure::ConnectionClosed => 2,
            OutboundFailure::UnsupportedProtocols => 3,
            OutboundFailure::Io(_) => 4,
        }),
        _ => ErrClass::Other,
    }
}

fn ok_resp(body: Vec<u8>) -> HeaderResponse {
    HeaderResponse { body, status_code: 1 }
}

struct Pool {
    chain: Vec<ExtendedHeader>, // heights 1..
    resp: Vec<HeaderResponse>,
}

impl Pool {
    fn h(&self, height: u64) -> &ExtendedHeader {
        &self.chain[(height - 1) as usize]
    }
    fn r(&self, height: u64) -> HeaderResponse {
        self.resp[(height - 1) as usize].clone()
    }
}

#[derive(Clone, Debug, PartialEq, Eq, Hash)]
enum Key {
    Range(u64, u64),
    Hash(u64), // height whose hash is requested
}

impl Key {
    fn request(&self, pool: &Pool) -> HeaderRequest {
        match self {
            Key::Range(o, a) => HeaderRequest { data: Some(Data::Origin(*o)), amount: *a },
            Key::Hash(h) => HeaderRequest { data: Some(Data::Hash(pool.h(*h).hash().as_bytes().to_vec())), amount: 1 },
        }
    }
}

fn key_of(pool: &Pool, by_hash: &HashMap<Vec<u8>, u64>, r: &HeaderRequest) -> Option<Key> {
    let _ = pool;
    match &r.data {
        Some(Data::Origin(o)) if *o > 0 => Some(Key::Range(*o, r.amount)),
        Some(Data::Hash(h)) => by_hash.get(h).map(|x| Key::Hash(*x)),
        _ => None,
    }
}

/// Wire answer for an outcome plus, for valid ones, the headers the caller must then receive.
fn wire(pool: &Pool, key: &Key, out: Out, rng: &mut impl Rng) -> (Vec<HeaderResponse>, Option<Vec<u64>>) {
    let (o, a) = match key {
        Key::Range(o, a) => (*o, *a),
        Key::Hash(h) => (*h, 1),
    };
    match out {
        Out::Valid => ((o..o + a).map(|h| pool.r(h)).collect(), Some((o..o + a).collect())),
        Out::ValidPrefix => {
            let n = if a > 1 { rng.gen_range(1..a) } else { 1 };
            ((o..o + n).map(|h| pool.r(h)).collect(), Some((o..o + n).collect()))
        }
        Out::NotFound => (vec![HeaderResponse { body: vec![], status_code: 2 }], None),
        Out::InvalidStatus => (vec![HeaderResponse { body: vec![], status_code: 0 }], None),
        Out::Garbage => {
            let n = rng.gen_range(1..300);
            (vec![ok_resp(vcore::rand_bytes(rng, n))], None)
        }
        // valid headers, but not the requested ones (start one height too high / another hash)
        Out::Wrong => ((o + 1..o + 1 + a).map(|h| pool.r(h)).collect(), None),
        Out::EmptyList => (vec![], None),
        Out::TooMany => ((o..o + a + 1).map(|h| pool.r(h)).collect(), None),
        Out::Fail(_) => unreachable!(),
    }
}

// ---------------------------------------------------------------------------------------------
// bookkeeping

struct SendRec {
    id: u64,
    peer: PeerId,
    archival: bool,
    script: Out,
    /// outcome delivered to the client (None while in flight)
    delivered: Option<(Out, Option<Vec<u64>>)>,
}

struct Req {
    key: Key,
    rx: Option<oneshot::Receiver<Result<Vec<ExtendedHeader>, P2pError>>>,
    cancelled: bool,
    answered: bool,
    sends: Vec<SendRec>,
    waiting_since: Option<Instant>,
    script: Vec<Out>,
    late_flagged: bool,
}

#[derive(Clone, Copy)]
struct PeerSnap {
    connected: bool,
    archival: bool,
}

struct World<'a> {
    ctx: &'a Ctx,
    pool: &'a Pool,
    by_hash: &'a HashMap<Vec<u8>, u64>,
    client: VHeaderExClient,
    tracker: VPeerTracker,
    peers: Vec<(PeerId, Option<ConnectionId>)>,
    next_conn: usize,
    reqs: Vec<Req>,
    index: HashMap<Key, usize>,
    stopped: bool,
    any_since: Option<Instant>,
    arch_since: Option<Instant>,
    log: Vec<String>,
    flag: Arc<Flag>,
    t0: Instant,
}

fn short(p: &PeerId) -> String {
    let s = p.to_string();
    s[s.len() - 6..].to_string()
}

impl World<'_> {
    fn note(&mut self, s: String) {
        if self.log.len() < 300 {
            let ms = Instant::now().duration_since(self.t0).as_millis();
            self.log.push(format!("+{ms}ms {s}"));
        }
    }

    fn viol(&self, sig: &str, msg: String) {
        self.ctx.violation(sig, &msg, json!({"history": self.log}));
    }

    fn refresh_availability(&mut self) {
        let v = self.tracker.peers();
        let any = v.iter().any(|p| p.connected);
        let arch = v.iter().any(|p| p.connected && p.archival);
        let now = Instant::now();
        self.any_since = if any { self.any_since.or(Some(now)) } else { None };
        self.arch_since = if arch { self.arch_since.or(Some(now)) } else { None };
    }

    fn add_peer(&mut self, rng: &mut impl Rng, connected: bool, archival: bool) {
        let p = peer_id(rng);
        if rng.gen_bool(0.4) {
            self.tracker.set_trusted(&p, true);
        }
        let mut conn = None;
        if connected {
            let c = ConnectionId::new_unchecked(self.next_conn);
            self.next_conn += 1;
            self.tracker.add_connection(&p, c);
            conn = Some(c);
        } else {
            self.tracker.add_peer_id(&p);
        }
        if archival {
            self.tracker.mark_as_archival(&p);
        }
        self.note(format!("peer {} added (connected={connected}, archival={archival})", short(&p)));
        self.peers.push((p, conn));
        self.refresh_availability();
    }

    fn submit(&mut self, key: Key, script: Vec<Out>) {
        let (tx, rx) = oneshot::channel();
        let req = key.request(self.pool);
        self.note(format!("submit {key:?}"));
        self.client.on_send_request(req, tx);
        self.index.insert(key.clone(), self.reqs.len());
        self.reqs.push(Req {
            key,
            rx: Some(rx),
            cancelled: false,
            answered: false,
            sends: Vec::new(),
            waiting_since: Some(Instant::now()),
            script,
            late_flagged: false,
        });
        self.ctx.count("requests");
    }

    /// Deliver the scripted outcome of one in-flight attempt.
    fn deliver(&mut self, ri: usize, si: usize, rng: &mut impl Rng) {
        let key = self.reqs[ri].key.clone();
        let (id, peer, out) = {
            let s = &self.reqs[ri].sends[si];
            (s.id, s.peer, s.script)
        };
        self.ctx.count(&format!("outcomes/{}", match out {
            Out::Fail(k) => format!("failure-{}", k % 5),
            o => format!("{o:?}"),
        }));
        self.note(format!("attempt {} of {key:?} (req {id} to {}): {out:?}", si + 1, short(&peer)));
        let expected = match out {
            Out::Fail(k) => {
                self.client.on_failure(peer, id, failure(k));
                None
            }
            o => {
                let (resp, exp) = wire(self.pool, &key, o, rng);
                self.client.on_response_received(peer, id, resp);
                exp
            }
        };
        let r = &mut self.reqs[ri];
        r.sends[si].delivered = Some((out, expected));
        // from now on the request waits for a resend (if it is not answered instead)
        if out.err_class().is_some() && si + 1 == r.sends.len() {
            r.waiting_since = Some(Instant::now());
        }
    }

    /// Poll to quiescence, serving scheduling ticks; record and check sends.
    async fn settle(&mut self, rng: &mut impl Rng) -> bool {
        for _ in 0..6 {
            let Some(evs) = quiesce(&mut self.client, &self.flag).await else {
                self.ctx.inconclusive("harness watchdog: client did not become quiescent");
                return false;
            };
            if !evs.contains(&VEvent::SchedulePendingRequests) {
                break;
            }
            let snap: HashMap<PeerId, PeerSnap> = self.tracker.peers().into_iter().map(|v| (v.id, PeerSnap { connected: v.connected, archival: v.archival })).collect();
            self.client.schedule_pending_requests(&self.tracker);
            for (id, peer, request) in self.client.take_sent() {
                self.ctx.eval();
                self.ctx.count("sends");
                let Some(ri) = key_of(self.pool, self.by_hash, &request).and_then(|k| self.index.get(&k).copied()) else {
                    self.viol("C32/send/unknown-request", format!("client sent {request:?} which no caller asked for"));
                    continue;
                };
                let n = self.reqs[ri].sends.len() + 1;
                let key = self.reqs[ri].key.clone();
                let ps = snap.get(&peer).copied();
                self.note(format!(
                    "send #{n} of {key:?} -> {} ({})",
                    short(&peer),
                    match ps {
                        None => "unknown to tracker".to_string(),
                        Some(s) => format!("connected={}, archival={}", s.connected, s.archival),
                    }
                ));
                if self.stopped {
                    self.viol("C32/send/after-stop", format!("{key:?} was sent after on_stop"));
                }
                if self.reqs[ri].answered {
                    self.viol("C32/send/after-answer", format!("{key:?} was sent again (send #{n}) after its caller had been answered"));
                }
                if n > 3 {
                    self.viol("C32/send/more-than-3-attempts", format!("{key:?} was sent {n} times"));
                }
                match ps {
                    Some(s) if s.connected => self.ctx.count("sends/to-connected-peer"),
                    _ => self.viol("C32/send/to-disconnected-peer", format!("send #{n} of {key:?} went to {} which is not connected", short(&peer))),
                }
                let archival = ps.is_some_and(|s| s.archival);
                if n == 3 {
                    if archival {
                        self.ctx.count("sends/third-to-archival");
                    } else {
                        self.viol("C32/send/third-attempt-to-non-archival-peer", format!("third send of {key:?} went to {}, not an archival peer", short(&peer)));
                    }
                }
                if self.reqs[ri].sends.last().is_some_and(|s| s.delivered.is_none()) {
                    self.ctx.count("sends/while-previous-attempt-in-flight");
                }
                if self.reqs[ri].cancelled {
                    self.ctx.count("sends/for-cancelled-caller");
                }
                let r = &mut self.reqs[ri];
                let script = r.script.get(n - 1).copied().unwrap_or_else(|| *ALPHABET.choose(rng).unwrap());
                r.sends.push(SendRec { id, peer, archival, script, delivered: None });
                r.waiting_since = None;
            }
        }
        true
    }

    /// Observe callers and evaluate the answer / liveness rules at a quiescent point.
    fn observe(&mut self) {
        let now = Instant::now();
        for ri in 0..self.reqs.len() {
            // answers
            let res = match self.reqs[ri].rx.as_mut() {
                None => None,
                Some(rx) => match rx.try_recv() {
                    Ok(res) => Some(Some(res)),
                    Err(oneshot::error::TryRecvError::Empty) => None,
                    Err(oneshot::error::TryRecvError::Closed) => Some(None),
                },
            };
            if let Some(res) = res {
                self.reqs[ri].rx = None;
                self.reqs[ri].answered = true;
                let key = self.reqs[ri].key.clone();
                self.ctx.count("answers");
                match res {
                    None => self.viol("C32/answer/channel-dropped", format!("the caller of {key:?} lost its channel without an answer")),
                    Some(Ok(v)) => {
                        let heights: Vec<u64> = v.iter().map(|h| h.height()).collect();
                        let same = v.iter().all(|h| h.height() >= 1 && (h.height() as usize) <= self.pool.chain.len() && self.pool.h(h.height()) == h);
                        let from_attempt = self.reqs[ri].sends.iter().position(|s| matches!(&s.delivered, Some((_, Some(exp))) if *exp == heights));
                        self.note(format!("caller of {key:?} answered Ok(heights {heights:?})"));
                        match from_attempt {
                            Some(k) if same => {
                                self.ctx.count(&format!("confirmed/ok-from-attempt-{}", k + 1));
                                if k + 1 != self.reqs[ri].sends.len() {
                                    self.ctx.count("confirmed/ok-while-later-attempt-exists");
                                }
                            }
                            _ => self.viol("C32/answer/ok-without-valid-response", format!("caller of {key:?} received Ok({heights:?}) but no attempt was given a valid response with these headers")),
                        }
                    }
                    Some(Err(e)) => {
                        let class = classify(&e);
                        self.note(format!("caller of {key:?} answered Err({e})"));
                        if self.stopped {
                            self.ctx.count(&format!("confirmed/error-after-stop/{}", if class == ErrClass::Cancelled { "cancelled" } else { "other" }));
                        } else {
                            let r = &self.reqs[ri];
                            match r.sends.last() {
                                None => self.viol("C32/answer/error-without-any-attempt", format!("caller of {key:?} received {e} although the request was never sent")),
                                Some(last) => match &last.delivered {
                                    None => self.viol("C32/answer/error-while-attempt-in-flight", format!("caller of {key:?} received {e} while attempt {} was still unanswered", r.sends.len())),
                                    Some((out, _)) => {
                                        if out.err_class() != Some(class) {
                                            self.viol(
                                                "C32/answer/wrong-error",
                                                format!("caller of {key:?} received {e} ({class:?}) but its last attempt ended with {out:?}"),
                                            );
                                        } else if !last.archival {
                                            self.viol(
                                                "C32/answer/error-before-archival-attempt",
                                                format!("caller of {key:?} received the error of attempt {} although no attempt had yet been directed to an archival peer", r.sends.len()),
                                            );
                                        } else {
                                            self.ctx.count(&format!("confirmed/final-error-after-{}-attempts", r.sends.len()));
                                            self.ctx.count(&format!("confirmed/final-error/{}", match class {
                                                ErrClass::Outbound(_) => "outbound-failure".to_string(),
                                                c => format!("{c:?}"),
                                            }));
                                        }
                                    }
                                },
                            }
                        }
                    }
                }
                let r = &self.reqs[ri];
                self.ctx.nontrivial(&(format!("{:?}", r.key), r.sends.iter().map(|s| (s.archival, format!("{:?}", s.delivered.as_ref().map(|d| d.0)))).collect::<Vec<_>>(), self.stopped));
            }
            // liveness at this quiescent point
            let r = &self.reqs[ri];
            if r.answered || r.cancelled || r.late_flagged {
                continue;
            }
            let key = r.key.clone();
            let mut flagged = true;
            if self.stopped {
                self.viol("C32/stop/caller-not-answered", format!("client stopped but the caller of {key:?} has no answer"));
            } else {
                match r.sends.last().map(|s| &s.delivered) {
                    Some(Some((out, _))) if out.err_class().is_none() => {
                        self.viol("C32/answer/missing-after-valid-response", format!("{key:?}: attempt {} got a valid response, the client is idle, the caller has no answer", r.sends.len()));
                    }
                    Some(Some(_)) if r.sends.len() >= 3 => {
                        self.viol("C32/answer/missing-after-final-attempt", format!("{key:?}: attempt {} failed, the client is idle, the caller has no answer", r.sends.len()));
                    }
                    Some(None) => flagged = false, // attempt in flight
                    _ => {
                        // waiting for the first send or a resend
                        let third = r.sends.len() == 2;
                        let avail = if third { self.arch_since } else { self.any_since };
                        flagged = false;
                        if let (Some(t0), Some(a)) = (r.waiting_since, avail) {
                            let from = t0.max(a);
                            if now.duration_since(from) >= LIMIT {
                                let kind = match r.sends.len() {
                                    0 => "first-attempt",
                                    1 => "second-attempt",
                                    _ => "archival-attempt",
                                };
                                self.viol(
                                    &format!("C32/send/not-sent-within-1s/{kind}"),
                                    format!("{key:?} has been waiting for {:?} with an eligible peer connected all the time, nothing was sent", now.duration_since(from)),
                                );
                                flagged = true;
                            }
                        } else if third {
                            self.ctx.count("waiting/for-archival-peer");
                        } else {
                            self.ctx.count("waiting/for-any-peer");
                        }
                    }
                }
            }
            if flagged {
                self.reqs[ri].late_flagged = true;
            }
        }
    }
}

fn new_world<'a>(ctx: &'a Ctx, pool: &'a Pool, by_hash: &'a HashMap<Vec<u8>, u64>, flag: &Arc<Flag>) -> World<'a> {
    let events = VEventChannel::new();
    let tracker = VPeerTracker::new(&events);
    World {
        ctx,
        pool,
        by_hash,
        client: VHeaderExClient::new(),
        tracker,
        peers: Vec::new(),
        next_conn: 0,
        reqs: Vec::new(),
        index: HashMap::new(),
        stopped: false,
        any_since: None,
        arch_since: None,
        log: Vec::new(),
        flag: flag.clone(),
        t0: Instant::now(),
    }
}

/// Population classes for the enumeration part.
#[derive(Clone, Copy, Debug)]
enum PopClass {
    AllArchival,
    Mixed,
    NoArchival,
    ArchivalArrivesLate,
}

/// (a) one request, a fixed outcome sequence, a population class. The run delivers each outcome as
/// soon as the attempt is sent and lets virtual time pass.
async fn enumerated(ctx: &Ctx, pool: &Pool, by_hash: &HashMap<Vec<u8>, u64>, flag: &Arc<Flag>, rng: &mut ChaCha8Rng, seq: &[Out], pc: PopClass, key: Key) {
    let mut w = new_world(ctx, pool, by_hash, flag);
    w.note(format!("enumerated outcome sequence {seq:?}, population {pc:?}"));
    let n = rng.gen_range(2..=5);
    for i in 0..n {
        let arch = match pc {
            PopClass::AllArchival => true,
            PopClass::Mixed => i == 0,
            PopClass::NoArchival | PopClass::ArchivalArrivesLate => false,
        };
        w.add_peer(rng, true, arch);
    }
    w.submit(key, seq.to_vec());
    let mut late_added = false;
    for step in 0..80 {
        if !w.settle(rng).await {
            return;
        }
        w.observe();
        if w.reqs[0].answered {
            break;
        }
        // deliver the outcome of an in-flight attempt, if any
        if let Some(si) = w.reqs[0].sends.iter().position(|s| s.delivered.is_none()) {
            w.deliver(0, si, rng);
            continue;
        }
        if matches!(pc, PopClass::ArchivalArrivesLate) && !late_added && w.reqs[0].sends.len() == 2 && step > 30 {
            late_added = true;
            w.add_peer(rng, true, true);
        }
        tokio::time::advance(Duration::from_millis(100)).await;
    }
    if !w.settle(rng).await {
        return;
    }
    w.observe();
    let r = &w.reqs[0];
    if !r.answered {
        // legitimately waiting only when the third attempt has no archival peer
        if matches!(pc, PopClass::NoArchival) && r.sends.len() == 2 {
            ctx.count("enumerated/waits-for-archival-peer");
        } else {
            ctx.count("enumerated/unanswered-at-end");
        }
    } else {
        ctx.count("enumerated/answered");
    }
    ctx.count("enumerated/runs");
    ctx.sample(|| json!({"history": w.log}));
}

/// (b) random history.
async fn random_history(ctx: &Ctx, pool: &Pool, by_hash: &HashMap<Vec<u8>, u64>, flag: &Arc<Flag>, rng: &mut ChaCha8Rng) {
    let mut w = new_world(ctx, pool, by_hash, flag);
    let arch_p = *[0.0, 0.3, 0.6, 1.0].choose(rng).unwrap();
    for _ in 0..rng.gen_range(0..=7) {
        let (c, a) = (rng.gen_bool(0.85), rng.gen_bool(arch_p));
        w.add_peer(rng, c, a);
    }
    let n_reqs = rng.gen_range(1..=6);
    let will_stop = rng.gen_range(0..5) == 0;
    let stop_at = rng.gen_range(5..120);
    let mut used: std::collections::HashSet<Key> = std::collections::HashSet::new();
    let steps = 160;
    for step in 0..steps {
        let draining = step >= steps - 30;
        let in_flight: Vec<(usize, usize)> = w
            .reqs
            .iter()
            .enumerate()
            .flat_map(|(ri, r)| r.sends.iter().enumerate().filter(|(_, s)| s.delivered.is_none()).map(move |(si, _)| (ri, si)))
            .collect();
        let action = if will_stop && step == stop_at && !w.stopped {
            5
        } else if draining {
            if !in_flight.is_empty() { 1 } else { 2 }
        } else {
            match rng.gen_range(0..20) {
                0..=3 if w.reqs.len() < n_reqs => 0,
                4..=9 if !in_flight.is_empty() => 1,
                10..=11 => 3,
                12 if !w.reqs.is_empty() && rng.gen_range(0..3) == 0 => 4,
                _ => 2,
            }
        };
        match action {
            0 => {
                // unique key
                for _ in 0..50 {
                    let key = if rng.gen_range(0..4) == 0 { Key::Hash(rng.gen_range(1..=40)) } else { Key::Range(rng.gen_range(1..=40), rng.gen_range(1..=6)) };
                    if used.insert(key.clone()) {
                        // outcome script biased towards failures so that retries are common
                        let script: Vec<Out> = (0..3)
                            .map(|_| match rng.gen_range(0..10) {
                                0..=2 => Out::Valid,
                                3 => Out::ValidPrefix,
                                _ => *ALPHABET[1..].choose(rng).unwrap(),
                            })
                            .collect();
                        w.submit(key, script);
                        if w.stopped {
                            ctx.count("requests/submitted-after-stop");
                        }
                        break;
                    }
                }
            }
            1 => {
                let (ri, si) = *in_flight.choose(rng).unwrap();
                w.deliver(ri, si, rng);
            }
            2 => tokio::time::advance(Duration::from_millis(100)).await,
            3 => {
                // population change
                match rng.gen_range(0..4) {
                    0 => {
                        let a = rng.gen_bool(arch_p.max(0.3));
                        w.add_peer(rng, true, a);
                    }
                    1 => {
                        let connected: Vec<usize> = w.peers.iter().enumerate().filter(|(_, p)| p.1.is_some()).map(|(i, _)| i).collect();
                        if let Some(i) = connected.choose(rng) {
                            let (p, c) = w.peers[*i];
                            w.tracker.remove_connection(&p, c.unwrap());
                            w.peers[*i].1 = None;
                            w.note(format!("peer {} disconnected", short(&p)));
                            ctx.count("population/disconnects");
                        }
                    }
                    2 => {
                        let connected: Vec<usize> = w.peers.iter().enumerate().filter(|(_, p)| p.1.is_some()).map(|(i, _)| i).collect();
                        if let Some(i) = connected.choose(rng) {
                            let p = w.peers[*i].0;
                            w.tracker.mark_as_archival(&p);
                            w.note(format!("peer {} marked archival", short(&p)));
                        }
                    }
                    _ => {
                        let gone: Vec<usize> = w.peers.iter().enumerate().filter(|(_, p)| p.1.is_none()).map(|(i, _)| i).collect();
                        if let Some(i) = gone.choose(rng) {
                            let c = ConnectionId::new_unchecked(w.next_conn);
                            w.next_conn += 1;
                            let p = w.peers[*i].0;
                            w.tracker.add_connection(&p, c);
                            w.peers[*i].1 = Some(c);
                            w.note(format!("peer {} reconnected", short(&p)));
                        }
                    }
                }
                w.refresh_availability();
            }
            4 => {
                let open: Vec<usize> = w.reqs.iter().enumerate().filter(|(_, r)| r.rx.is_some() && !r.cancelled).map(|(i, _)| i).collect();
                if let Some(i) = open.choose(rng) {
                    // the caller may already have an (unobserved) answer only if observe() missed it: it cannot,
                    // observe() runs after every step
                    w.reqs[*i].rx = None;
                    w.reqs[*i].cancelled = true;
                    let k = w.reqs[*i].key.clone();
                    w.note(format!("caller of {k:?} cancels"));
                    ctx.count("callers/cancelled");
                }
            }
            _ => {
                w.note("on_stop".into());
                w.client.on_stop();
                w.stopped = true;
                ctx.count("stops");
            }
        }
        if !w.settle(rng).await {
            return;
        }
        w.observe();
    }
    ctx.count("histories");
    if w.reqs.iter().any(|r| r.sends.len() == 3) {
        ctx.count("histories/with-third-attempt");
    }
    ctx.sample(|| json!({"history": w.log}));
}

pub fn run(ctx: &Ctx) {
    ctx.rule(
        "(a) fault enumeration: every outcome sequence of length 1..3 over the 12-letter alphabet {valid, not-found, \
         invalid status, garbage body, wrong start/hash, empty list, too many headers, DialFailure, Timeout, \
         ConnectionClosed, UnsupportedProtocols, Io} (sequences end at the first valid; thorough: all 1+11+121+1331.. \
         prefixes; quick: all sequences over a 6-letter sub-alphabet plus a random third of the rest) x population \
         classes {all archival, one archival among several, no archival, archival peer arrives late} x request shape \
         {range, hash}. (b) random histories: 0..7 peers (connected 85 %, archival 0/30/60/100 %), 1..6 concurrent \
         requests with unique (origin, amount) / hash, per-attempt outcomes from the alphabet plus 'valid shorter \
         prefix', random delivery order, connects / disconnects / archival marks / reconnects during the run, caller \
         cancellation, on_stop in 20 % of the histories (with requests submitted afterwards), 100 ms virtual steps and a \
         3 s drain phase. Non-trivial = an answered request whose answer was checked; distinct by (request, per-attempt \
         (archival?, outcome) list, stopped).",
    );
    ctx.assume("a response scripted as 'valid' consists of honest ChainGen headers for exactly the requested heights/hash; every other outcome is invalid for the request by construction");
    ctx.assume("'peers of the required kind': any connected peer for attempts 1-2, a connected archival peer for attempt 3, as seen in VPeerTracker::peers() at the scheduling call");
    ctx.assume("an Err answer is 'the final error' only if the attempt it stems from was directed to an archival peer (attempts 1-2 may hit an archival peer by chance; then an early error would go unnoticed)");

    let mut cg = ChainGen::new(
        ctx.rng(0, 1),
        "c32-chain",
        3,
        &[10],
        1,
        ChainGen::start_time_for(48, Duration::from_secs(6), Duration::from_secs(3600)),
        Duration::from_secs(6),
    );
    let chain = cg.next_many(48);
    for h in &chain {
        if let Err(e) = h.validate() {
            ctx.inconclusive(&format!("harness: generated header fails validate(): {e}"));
            return;
        }
    }
    let resp = chain.iter().map(|h| ok_resp(h.clone().encode_vec())).collect();
    let by_hash: HashMap<Vec<u8>, u64> = chain.iter().map(|h| (h.hash().as_bytes().to_vec(), h.height())).collect();
    let pool = Pool { chain, resp };

    // (a) sequences
    let mut seqs: Vec<Vec<Out>> = Vec::new();
    let errs: Vec<Out> = ALPHABET[1..].to_vec();
    let mut prefixes: Vec<Vec<Out>> = vec![vec![]];
    for _len in 0..3 {
        let mut next = Vec::new();
        for p in &prefixes {
            let mut s = p.clone();
            s.push(Out::Valid);
            seqs.push(s);
            for e in &errs {
                let mut s = p.clone();
                s.push(*e);
                next.push(s);
            }
        }
        prefixes = next;
    }
    seqs.extend(prefixes); // three failures
    let sub: [Out; 6] = [Out::Valid, Out::NotFound, Out::InvalidStatus, Out::Garbage, Out::Fail(1), Out::Fail(2)];
    let total_seqs = seqs.len();
    if ctx.quick() {
        let mut r = ctx.rng(9, 0);
        seqs.retain(|s| s.iter().all(|o| sub.contains(o)) || r.gen_range(0..3) == 0);
    }
    if ctx.tiny() {
        seqs.truncate(6);
    }
    ctx.extra("fault_sequences_total", json!(total_seqs));
    ctx.extra("fault_sequences_run", json!(seqs.len()));
    let classes = [PopClass::AllArchival, PopClass::Mixed, PopClass::NoArchival, PopClass::ArchivalArrivesLate];
    let mut jobs: Vec<(Vec<Out>, PopClass, bool)> = Vec::new();
    for s in &seqs {
        for c in classes {
            jobs.push((s.clone(), c, false));
        }
        jobs.push((s.clone(), PopClass::Mixed, true));
    }
    if !ctx.quick() {
        ctx.set_exhaustive(false);
        ctx.extra("fault_sequences_exhaustive_up_to_3_attempts", json!(true));
    }

    let histories = ctx.scale3(6u64, 4_000, 300_000);
    let shards = ctx.cores();
    ctx.par(shards, |shard| {
        let rt = tokio::runtime::Builder::new_current_thread().enable_time().start_paused(true).build().expect("runtime");
        let flag = Arc::new(Flag(AtomicBool::new(false)));
        let on_panic = |p: String, what: String| {
            if p.starts_with("vn/src/") || p.contains("/vn/src/") || p.contains("harness") {
                ctx.inconclusive(&format!("harness panicked: {p}"));
            } else {
                ctx.violation(&format!("C32/client/panic/{}", panic_site(&p)), &format!("client handler panicked: {p}"), json!({"case": what}));
            }
        };
        for (i, (seq, pc, hash)) in jobs.iter().enumerate() {
            if i % shards != shard {
                continue;
            }
            let mut rng = ctx.rng(1, i as u64);
            let key = if *hash { Key::Hash(rng.gen_range(1..=40)) } else { Key::Range(rng.gen_range(1..=40), rng.gen_range(1..=6)) };
            if let Err(p) = guard(|| rt.block_on(enumerated(ctx, &pool, &by_hash, &flag, &mut rng, seq, *pc, key))) {
                on_panic(p, format!("enumerated {seq:?} {pc:?}"));
                return;
            }
        }
        for case in (shard as u64..histories).step_by(shards) {
            let mut rng = ctx.rng(2, case);
            if let Err(p) = guard(|| rt.block_on(random_history(ctx, &pool, &by_hash, &flag, &mut rng))) {
                on_panic(p, format!("history {case}"));
                return;
            }
        }
    });

    // coverage floors guard against a vacuous pass; once a violation is recorded the verdict is
    // 'violated' and must not be masked by a floor the defect itself may have starved
    if !ctx.tiny() && ctx.violation_count() == 0 {
        for (name, min) in [
            ("enumerated/runs", 500),
            ("enumerated/waits-for-archival-peer", 50),
            ("confirmed/ok-from-attempt-1", 200),
            ("confirmed/ok-from-attempt-2", 200),
            ("confirmed/ok-from-attempt-3", 200),
            ("confirmed/final-error-after-3-attempts", 300),
            ("confirmed/final-error/NotFound", 30),
            ("confirmed/final-error/InvalidResponse", 100),
            ("confirmed/final-error/outbound-failure", 100),
            ("confirmed/error-after-stop/cancelled", 50),
            ("sends/third-to-archival", 500),
            ("waiting/for-archival-peer", 100),
            ("callers/cancelled", 100),
            ("population/disconnects", 100),
            ("requests/submitted-after-stop", 20),
            ("histories/with-third-attempt", 200),
        ] {
            ctx.floor(name, min);
        }
        if ctx.counter("enumerated/unanswered-at-end") > 0 {
            ctx.inconclusive("an enumerated fault sequence ended unanswered although an archival peer was available (run too short?)");
        }
    }
}
