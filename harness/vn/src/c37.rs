//! C37 — header subscriptions deliver a gap-free increasing stream.
//!
//! The real `BroadcastingStore` (through the `VBroadcastingStore` hook) sits on a
//! `LoggedStore<InMemoryStore>`. A driver produces the call sequences of the syncer
//! (`try_init` → `init_broadcast`, header-sub heads, batches chosen by the real
//! `calculate_range_to_fetch`, disconnections and re-connections; mode `syncer`) or, within the
//! preconditions the store and the type itself state, a freer order of range insertions (mode
//! `free`). Subscribers are tokio broadcast receivers: tasks that keep up, and receivers that are
//! only drained now and then (they may observe `Lagged`).
//!
//! Everything (store calls/returns, initialisations, announce calls, subscriptions, deliveries,
//! lag notices, quiescent checkpoints) goes into one ordered log; the oracle runs offline over it.

#![allow(dead_code)]

use std::collections::{BTreeSet, HashMap};
use std::sync::Arc;
use std::sync::atomic::{AtomicBool, Ordering};

use celestia_types::ExtendedHeader;
use celestia_types::hash::Hash;
use lumina_node::block_ranges::BlockRanges;
use lumina_node::store::{InMemoryStore, Store};
use lumina_node::verif::{self, VBroadcastingStore};
use tokio::sync::broadcast::Receiver;
use tokio::sync::broadcast::error::{RecvError, TryRecvError};
use vcore::{ChaCha8Rng, Ctx, Rng, json};
use vgen::chain::ChainGen;
use vnode::{Clock, EventLog, LoggedStore, StoreEvent, StoreOp, StoreRet};

type LStore = LoggedStore<InMemoryStore>;

#[derive(Clone, Debug)]
enum Ev {
    Store(StoreEvent),
    Subscribe { seq: u64, sub: usize, slow: bool },
    Deliver { seq: u64, sub: usize, height: u64, hash: Hash },
    Lagged { seq: u64, sub: usize, n: u64 },
    Init { seq: u64, head: u64, first: bool },
    /// `announce_insert` returned (`ok`) for the range `lo..=hi`.
    Announced { seq: u64, lo: u64, hi: u64, ok: bool },
    /// Quiescent point: the preceding `announce_insert` returned and the subscriber tasks ran
    /// until none of them made progress any more.
    Checkpoint { seq: u64 },
}

#[derive(Clone, Copy, Debug, PartialEq, Eq, Hash)]
enum Mode {
    Syncer,
    Free,
}

impl Mode {
    fn name(self) -> &'static str {
        match self {
            Mode::Syncer => "syncer",
            Mode::Free => "free",
        }
    }
}

struct Slow {
    sub: usize,
    rx: Receiver<ExtendedHeader>,
}

struct Driver<'a> {
    ctx: &'a Ctx,
    rng: ChaCha8Rng,
    chain: &'a [ExtendedHeader],
    alt: &'a [ExtendedHeader],
    clock: Arc<Clock>,
    log: Arc<EventLog<Ev>>,
    store: Arc<LStore>,
    bs: Option<VBroadcastingStore<LStore>>,
    tasks: Vec<tokio::task::JoinHandle<()>>,
    slow: Vec<Slow>,
    n_subs: usize,
    ops: Vec<String>,
    /// first network head (None before the first initialisation)
    h0: Option<u64>,
    // syncer emulation
    subjective: Option<u64>,
    connected: bool,
    batch: u64,
    net_head: u64,
    harness_error: Option<String>,
}

impl<'a> Driver<'a> {
    fn hdr(&self, h: u64) -> ExtendedHeader {
        self.chain[(h - 1) as usize].clone()
    }

    fn max_height(&self) -> u64 {
        self.chain.len() as u64
    }

    fn bs(&mut self) -> &mut VBroadcastingStore<LStore> {
        self.bs.as_mut().expect("broadcasting store")
    }

    async fn stored(&self) -> BlockRanges {
        self.store.inner.get_stored_header_ranges().await.unwrap()
    }

    async fn synced(&self) -> BlockRanges {
        let stored = self.store.inner.get_stored_header_ranges().await.unwrap();
        let pruned = self.store.inner.get_pruned_ranges().await.unwrap();
        pruned + &stored
    }

    async fn store_head(&self) -> Option<u64> {
        self.store.inner.head_height().await.ok()
    }

    fn subscribe(&mut self, slow: bool) {
        let sub = self.n_subs;
        self.n_subs += 1;
        let mut rx = self.bs().subscribe();
        self.log.push(Ev::Subscribe { seq: self.clock.tick(), sub, slow });
        self.ops.push(format!("subscribe#{sub}{}", if slow { "(slow)" } else { "" }));
        if slow {
            self.slow.push(Slow { sub, rx });
            self.ctx.count("subscribers_slow");
        } else {
            let (log, clock) = (self.log.clone(), self.clock.clone());
            self.tasks.push(tokio::spawn(async move {
                loop {
                    match rx.recv().await {
                        Ok(h) => log.push(Ev::Deliver { seq: clock.tick(), sub, height: h.height(), hash: h.hash() }),
                        Err(RecvError::Lagged(n)) => log.push(Ev::Lagged { seq: clock.tick(), sub, n }),
                        Err(RecvError::Closed) => break,
                    }
                }
            }));
            self.ctx.count("subscribers_keeping_up");
        }
    }

    fn drain_slow(&mut self, all: bool) {
        for i in 0..self.slow.len() {
            if !all && self.rng.gen_bool(0.4) {
                continue;
            }
            let limit = if all || self.rng.gen_bool(0.7) { usize::MAX } else { self.rng.gen_range(1..6) };
            let s = &mut self.slow[i];
            let mut n = 0;
            while n < limit {
                match s.rx.try_recv() {
                    Ok(h) => self.log.push(Ev::Deliver { seq: self.clock.tick(), sub: s.sub, height: h.height(), hash: h.hash() }),
                    Err(TryRecvError::Lagged(k)) => self.log.push(Ev::Lagged { seq: self.clock.tick(), sub: s.sub, n: k }),
                    Err(TryRecvError::Empty) | Err(TryRecvError::Closed) => break,
                }
                n += 1;
            }
        }
    }

    /// Let the subscriber tasks run until none of them makes progress.
    async fn settle(&self) {
        for _ in 0..64 {
            let before = self.log.len();
            tokio::task::yield_now().await;
            if self.log.len() == before {
                return;
            }
        }
    }

    /// `init_broadcast` the way `Syncer::try_init` + `connecting_event_loop` do it: the head is in the
    /// store (inserted now unless it is the current store head) before the broadcaster hears of it.
    /// Returns false when the store refused the head (the syncer retries later).
    async fn init(&mut self, head: u64) -> bool {
        let header = self.hdr(head);
        let try_insert = match self.store.inner.get_head().await {
            Ok(sh) => sh.hash() != header.hash(),
            Err(_) => true,
        };
        if try_insert && self.store.insert(header.clone()).await.is_err() {
            self.ctx.count("init_head_refused_by_store");
            self.ops.push(format!("init({head})=refused"));
            return false;
        }
        let first = self.h0.is_none();
        if first {
            self.h0 = Some(head);
        }
        if self.subjective.is_none_or(|s| head > s) {
            self.subjective = Some(head);
        }
        self.bs().init_broadcast(header);
        self.log.push(Ev::Init { seq: self.clock.tick(), head, first });
        self.ops.push(format!("init({head}){}", if try_insert { "" } else { "=same-head" }));
        self.ctx.count(if first { "init_first" } else { "init_again" });
        self.settle().await;
        true
    }

    async fn announce(&mut self, lo: u64, hi: u64, bad: bool) -> bool {
        let headers: Vec<ExtendedHeader> = if bad {
            self.alt[(lo - 1) as usize..hi as usize].to_vec()
        } else {
            self.chain[(lo - 1) as usize..hi as usize].to_vec()
        };
        let ok = self.bs().announce_insert(headers).await.is_ok();
        self.log.push(Ev::Announced { seq: self.clock.tick(), lo, hi, ok });
        self.ops.push(format!("announce({lo}..={hi}){}{}", if bad { " foreign-chain" } else { "" }, if ok { "" } else { "=err" }));
        self.settle().await;
        self.log.push(Ev::Checkpoint { seq: self.clock.tick() });
        let h0 = self.h0.unwrap_or(0);
        self.ctx.count(match (ok, lo > h0) {
            (true, true) => "announce_above_head_ok",
            (true, false) => "announce_historical_ok",
            (false, _) => "announce_refused_by_store",
        });
        if bad && ok {
            self.harness_error = Some(format!("foreign-chain range {lo}..={hi} was accepted by the store"));
        }
        ok
    }

    /// A foreign-chain range is only offered where a stored neighbour makes the store refuse it.
    async fn bad_allowed(&self, lo: u64, hi: u64) -> bool {
        let stored = self.stored().await;
        (lo > 1 && stored.contains(lo - 1)) || stored.contains(hi + 1)
    }

    async fn prune_one(&mut self) {
        // an old stored height, never the head and never above the first network head
        let stored = self.stored().await;
        let Some(h0) = self.h0 else { return };
        let cands: Vec<u64> = stored.clone().filter(|h| *h + 2 < h0).collect();
        if cands.is_empty() {
            return;
        }
        let h = cands[self.rng.gen_range(0..cands.len())];
        if self.store.remove_height(h).await.is_ok() {
            self.ops.push(format!("prune({h})"));
            self.ctx.count("pruned_heights");
        }
    }

    // ----------------------------------------------------------------------------------------
    // syncer emulation
    // ----------------------------------------------------------------------------------------

    /// `on_header_sub_message`
    async fn header_sub(&mut self, h: u64) {
        if self.subjective.is_none_or(|s| h > s) {
            self.subjective = Some(h);
        }
        if let Some(sh) = self.store_head().await {
            if sh + 1 == h {
                self.announce(h, h, false).await;
                self.ctx.count("syncer_header_sub_inserted");
                return;
            }
        }
        self.ops.push(format!("header_sub({h})=not-adjacent"));
        self.ctx.count("syncer_header_sub_skipped");
    }

    /// `fetch_next_batch` + `on_fetch_next_batch_result` with a complete answer.
    async fn batch(&mut self, bad: bool) -> bool {
        let Some(subjective) = self.subjective else { return false };
        let synced = self.synced().await;
        let range = verif::calculate_range_to_fetch(subjective, synced.as_ref(), self.batch);
        if range.is_empty() {
            return false;
        }
        let (lo, hi) = (*range.start(), *range.end());
        if lo == 0 || hi > self.max_height() {
            return false;
        }
        let bad = bad && self.bad_allowed(lo, hi).await;
        self.announce(lo, hi, bad).await;
        self.ctx.count("syncer_batches");
        true
    }

    async fn connect(&mut self) -> bool {
        let sh = self.store_head().await.unwrap_or(0);
        let head = if self.rng.gen_bool(0.12) && sh > 0 {
            // lagging peers report a head below what the network (and maybe this node) already has
            let stored = self.stored().await;
            let insertable: Vec<u64> = (sh.saturating_sub(12).max(1)..sh)
                .filter(|h| !stored.contains(*h) && ((*h > 1 && stored.contains(*h - 1)) || stored.contains(*h + 1)))
                .collect();
            if !insertable.is_empty() && self.rng.gen_bool(0.7) {
                insertable[self.rng.gen_range(0..insertable.len())]
            } else {
                self.rng.gen_range(sh.saturating_sub(4).max(1)..=self.net_head.max(sh))
            }
        } else {
            self.net_head
        };
        if self.init(head).await {
            self.connected = true;
            true
        } else {
            false
        }
    }

    async fn syncer_history(&mut self) {
        let n_ops = self.rng.gen_range(8..70);
        for _ in 0..n_ops {
            if self.net_head + 25 >= self.max_height() {
                break;
            }
            let r = self.rng.gen_range(0..100);
            if !self.connected {
                match r {
                    0..=54 => {
                        self.connect().await;
                    }
                    55..=79 => {
                        // the network moves on while we are offline
                        self.net_head += match self.rng.gen_range(0..4) {
                            0 => 1,
                            1 => 2,
                            2 => self.rng.gen_range(1..8),
                            _ => self.rng.gen_range(1..30),
                        };
                        self.ops.push(format!("net_head={}", self.net_head));
                    }
                    80..=89 => {
                        let slow = self.rng.gen_bool(0.4);
                        self.subscribe(slow);
                    }
                    _ => self.drain_slow(false),
                }
                continue;
            }
            match r {
                0..=34 => {
                    self.net_head += if self.rng.gen_bool(0.8) { 1 } else { self.rng.gen_range(2..5) };
                    self.header_sub(self.net_head).await;
                }
                35..=69 => {
                    self.batch(false).await;
                }
                70..=73 => {
                    self.batch(true).await;
                }
                74..=82 => {
                    self.connected = false;
                    self.ops.push("disconnect".into());
                    self.ctx.count("syncer_disconnects");
                }
                83..=87 => {
                    let slow = self.rng.gen_bool(0.4);
                    self.subscribe(slow);
                }
                88..=94 => self.drain_slow(false),
                _ => self.prune_one().await,
            }
        }
        // closing: connected, every gap above the first head filled, one final head insert
        for _ in 0..50 {
            if self.connected || self.connect().await {
                break;
            }
        }
        if !self.connected {
            self.harness_error = Some("could not re-connect at the end of the history".into());
            return;
        }
        let h0 = self.h0.unwrap();
        for _ in 0..2000 {
            let synced = self.synced().await;
            let sh = self.store_head().await.unwrap();
            let complete = (h0..=sh).all(|h| synced.contains(h));
            if complete && self.subjective.is_some_and(|s| s <= sh) {
                break;
            }
            if !self.batch(false).await {
                break;
            }
        }
        let sh = self.store_head().await.unwrap();
        self.net_head = self.net_head.max(sh) + 1;
        if self.net_head == sh + 1 {
            self.header_sub(self.net_head).await;
        } else {
            // a head arrived that is not adjacent: catch up by batches, then one more head
            self.header_sub(self.net_head).await;
            for _ in 0..2000 {
                if !self.batch(false).await {
                    break;
                }
                let synced = self.synced().await;
                if (h0..=self.net_head).all(|h| synced.contains(h)) {
                    break;
                }
            }
            self.net_head += 1;
            self.header_sub(self.net_head).await;
        }
    }

    // ----------------------------------------------------------------------------------------
    // free order
    // ----------------------------------------------------------------------------------------

    /// Unsynced gaps below the store head as `(lo, hi)`.
    async fn gaps(&self) -> Vec<(u64, u64)> {
        let synced = self.synced().await;
        let mut out = Vec::new();
        let mut prev_end: Option<u64> = None;
        for r in synced.as_ref() {
            if let Some(p) = prev_end {
                out.push((p + 1, *r.start() - 1));
            }
            prev_end = Some(*r.end());
        }
        out
    }

    /// Insert a chunk of gap `(lo, hi)` from one of its sides, where a stored neighbour allows it.
    async fn insert_in_gap(&mut self, lo: u64, hi: u64, bad: bool) -> bool {
        let stored = self.stored().await;
        let bottom_ok = lo > 1 && stored.contains(lo - 1);
        let top_ok = stored.contains(hi + 1);
        let len = self.rng.gen_range(1..=(hi - lo + 1).min(9));
        let from_bottom = match (bottom_ok, top_ok) {
            (true, true) => self.rng.gen_bool(0.5),
            (true, false) => true,
            (false, true) => false,
            (false, false) => return false,
        };
        let (a, b) = if from_bottom { (lo, lo + len - 1) } else { (hi + 1 - len, hi) };
        self.ctx.count(if from_bottom { "free_insert_from_bottom" } else { "free_insert_from_top" });
        self.announce(a, b, bad).await;
        true
    }

    async fn free_history(&mut self) {
        let first = self.net_head;
        if !self.init(first).await {
            self.harness_error = Some("first initialisation refused".into());
            return;
        }
        let h0 = first;
        let n_ops = self.rng.gen_range(8..60);
        for _ in 0..n_ops {
            let sh = self.store_head().await.unwrap();
            if sh + 40 >= self.max_height() {
                break;
            }
            match self.rng.gen_range(0..100) {
                0..=14 => {
                    // re-initialisation: same head, next head, or a head leaving a gap
                    let d = match self.rng.gen_range(0..5) {
                        0 => 0,
                        1 => 1,
                        2 => 2,
                        _ => self.rng.gen_range(2..14),
                    };
                    self.init(sh + d).await;
                }
                15..=16 => {
                    // a lagging head somewhere below the store head
                    let h = self.rng.gen_range(sh.saturating_sub(6).max(1)..=sh);
                    self.init(h).await;
                }
                17..=54 => {
                    let gaps = self.gaps().await;
                    let above: Vec<_> = gaps.iter().copied().filter(|g| g.0 > h0).collect();
                    let below: Vec<_> = gaps.iter().copied().filter(|g| g.1 < h0).collect();
                    let pick = if !above.is_empty() && (below.is_empty() || self.rng.gen_bool(0.75)) { &above } else { &below };
                    if pick.is_empty() {
                        continue;
                    }
                    let (lo, hi) = pick[self.rng.gen_range(0..pick.len())];
                    let bad = self.rng.gen_bool(0.06);
                    self.insert_in_gap(lo, hi, bad).await;
                }
                55..=69 => {
                    self.announce(sh + 1, sh + 1, false).await;
                }
                70..=76 => {
                    let k = self.rng.gen_range(2..24);
                    self.announce(sh + 1, sh + k, false).await;
                }
                77..=78 => {
                    let k = self.rng.gen_range(1..4);
                    self.announce(sh + 1, sh + k, true).await;
                }
                79..=85 => {
                    let slow = self.rng.gen_bool(0.4);
                    self.subscribe(slow);
                }
                86..=94 => self.drain_slow(false),
                _ => self.prune_one().await,
            }
        }
        // closing: fill every gap above the first head (random order and sides), final head insert
        for _ in 0..4000 {
            let gaps: Vec<_> = self.gaps().await.into_iter().filter(|g| g.0 > h0).collect();
            if gaps.is_empty() {
                break;
            }
            let (lo, hi) = gaps[self.rng.gen_range(0..gaps.len())];
            if !self.insert_in_gap(lo, hi, false).await {
                // no stored neighbour on either side (both pruned): cannot happen above h0
                self.harness_error = Some(format!("gap {lo}..={hi} above the first head has no stored neighbour"));
                return;
            }
        }
        let sh = self.store_head().await.unwrap();
        self.announce(sh + 1, sh + 1, false).await;
    }
}

struct History {
    mode: Mode,
    case: u64,
    log: Vec<Ev>,
    ops: Vec<String>,
    harness_error: Option<String>,
}

async fn run_history(ctx: &Ctx, mode: Mode, case: u64, chain: &[ExtendedHeader], alt: &[ExtendedHeader]) -> History {
    let mut rng = ctx.rng(10 + mode as u64, case);
    let clock = Clock::new();
    let log: Arc<EventLog<Ev>> = EventLog::new();
    let sink_log = log.clone();
    let store = Arc::new(LoggedStore::new(
        InMemoryStore::new(),
        clock.clone(),
        Arc::new(move |e: StoreEvent| sink_log.push(Ev::Store(e))),
    ));

    // what an earlier session left in the store
    let s0: u64 = rng.gen_range(12..70);
    let mut ops = Vec::new();
    if rng.gen_bool(0.75) {
        let mut top = s0;
        let islands = rng.gen_range(1..4);
        let mut ranges = Vec::new();
        for _ in 0..islands {
            let len = rng.gen_range(1..=top.min(12));
            let lo = top + 1 - len;
            ranges.push((lo, top));
            if lo < 4 {
                break;
            }
            top = lo - 1 - rng.gen_range(1..=(lo - 2).min(6));
            if top == 0 {
                break;
            }
        }
        ranges.reverse();
        for (lo, hi) in &ranges {
            store.insert(chain[(*lo - 1) as usize..*hi as usize].to_vec()).await.unwrap();
            ops.push(format!("prefill({lo}..={hi})"));
        }
    }
    let stored_head = store.inner.head_height().await.ok();
    let gap = match rng.gen_range(0..6) {
        0 => 0,
        1 => 1,
        2 => 2,
        _ => rng.gen_range(3..40),
    };
    let net_head = stored_head.map(|h| h + gap).unwrap_or(s0);

    let mut d = Driver {
        ctx,
        rng,
        chain,
        alt,
        clock,
        log: log.clone(),
        store: store.clone(),
        bs: Some(VBroadcastingStore::new(store.clone())),
        tasks: Vec::new(),
        slow: Vec::new(),
        n_subs: 0,
        ops,
        h0: None,
        subjective: None,
        connected: false,
        batch: 0,
        net_head,
        harness_error: None,
    };
    d.batch = match d.rng.gen_range(0..4) {
        0 => 1,
        1 => d.rng.gen_range(2..5),
        2 => d.rng.gen_range(5..20),
        _ => 64,
    };
    // subscribers that exist before the syncer learns the network head
    d.subscribe(false);
    for _ in 0..d.rng.gen_range(0..3) {
        let slow = d.rng.gen_bool(0.4);
        d.subscribe(slow);
    }
    match mode {
        Mode::Syncer => {
            d.ops.push(format!("batch_size={} net_head={}", d.batch, d.net_head));
            d.syncer_history().await
        }
        Mode::Free => d.free_history().await,
    }
    d.settle().await;
    d.drain_slow(true);
    // close the channel and let the subscriber tasks end
    d.bs = None;
    for t in d.tasks.drain(..) {
        let _ = t.await;
    }
    History { mode, case, log: log.snapshot(), ops: d.ops, harness_error: d.harness_error }
}

#[derive(Default)]
struct SubState {
    slow: bool,
    /// contiguous frontier above the first head when the subscription was made
    frontier_at_subscribe: u64,
    last: Option<u64>,
    /// skipped count announced by `Lagged` since the last delivery
    pending_skip: Option<u64>,
    lagged_ever: bool,
    delivered: BTreeSet<u64>,
    broken: bool,
}

fn judge(ctx: &Ctx, hist: &History) {
    let viol = |kind: &str, msg: String, extra: vcore::Value| {
        ctx.violation(
            &format!("C37/stream/{kind}"),
            &msg,
            json!({"mode": hist.mode.name(), "case": hist.case, "ops": hist.ops, "witness": extra}),
        );
    };
    let mut inserted: HashMap<u64, Hash> = HashMap::new();
    let mut h0: Option<u64> = None;
    let mut subs: HashMap<usize, SubState> = HashMap::new();
    let mut last_announce_above = false;
    let mut max_delivered: Option<u64> = None;
    let mut checkpoints_nontrivial = 0u64;
    // headers above the first network head that were in the store before the syncer learned that head
    let mut stored_above_first_head: Option<u64> = None;

    let frontier = |inserted: &HashMap<u64, Hash>, h0: u64| {
        let mut x = h0;
        while inserted.contains_key(&(x + 1)) {
            x += 1;
        }
        x
    };

    for ev in &hist.log {
        match ev {
            Ev::Store(StoreEvent::Return { op: StoreOp::Insert(hs), ret: StoreRet::Unit, .. }) => {
                for (h, hash) in hs {
                    inserted.insert(*h, *hash);
                }
            }
            Ev::Store(_) => {}
            Ev::Init { head, first, .. } => {
                if *first {
                    h0 = Some(*head);
                    stored_above_first_head = inserted.keys().copied().filter(|h| h > head).min();
                    if stored_above_first_head.is_some() {
                        ctx.count("first_head_below_headers_already_stored");
                    }
                } else if let Some(m) = max_delivered {
                    ctx.count(match head.cmp(&m) {
                        std::cmp::Ordering::Less => "reinit_head_below_last_sent",
                        std::cmp::Ordering::Equal => "reinit_head_equal_last_sent",
                        std::cmp::Ordering::Greater if *head == m + 1 => "reinit_head_next_after_last_sent",
                        std::cmp::Ordering::Greater => "reinit_head_above_last_sent",
                    });
                }
            }
            Ev::Subscribe { sub, slow, .. } => {
                let f = h0.map(|h| frontier(&inserted, h)).unwrap_or(0);
                subs.insert(*sub, SubState { slow: *slow, frontier_at_subscribe: f, ..Default::default() });
            }
            Ev::Lagged { sub, n, .. } => {
                let s = subs.get_mut(sub).unwrap();
                s.lagged_ever = true;
                s.pending_skip = Some(s.pending_skip.unwrap_or(0) + n);
                ctx.count(if s.slow { "lagged_slow_subscriber" } else { "lagged_keeping_up_subscriber" });
            }
            Ev::Deliver { sub, height, hash, .. } => {
                ctx.eval();
                ctx.count("deliveries");
                let s = subs.get_mut(sub).unwrap();
                if s.broken {
                    continue;
                }
                max_delivered = Some(max_delivered.map_or(*height, |m| m.max(*height)));
                // only after it was stored
                match inserted.get(height) {
                    Some(stored_hash) if stored_hash == hash => {}
                    Some(_) => viol(
                        "delivered-other-header-than-stored",
                        format!("subscriber {sub} received a header at height {height} that is not the stored one"),
                        json!({"sub": sub, "height": height}),
                    ),
                    None => viol(
                        "delivered-before-stored",
                        format!("subscriber {sub} received height {height} before any insert of it into the store returned"),
                        json!({"sub": sub, "height": height}),
                    ),
                }
                // starting after the head
                if let Some(h0) = h0 {
                    if *height < h0 {
                        viol(
                            "below-initial-head",
                            format!("subscriber {sub} received height {height}, below the first network head {h0}"),
                            json!({"sub": sub, "height": height, "h0": h0}),
                        );
                    }
                } else {
                    viol(
                        "before-initialisation",
                        format!("subscriber {sub} received height {height} before the syncer learned the network head"),
                        json!({"sub": sub, "height": height}),
                    );
                }
                // consecutive, each at most once
                if let Some(prev) = s.last {
                    match s.pending_skip.take() {
                        None => {
                            if *height <= prev {
                                viol(
                                    "repeat-or-decrease",
                                    format!("subscriber {sub} received height {height} after {prev}"),
                                    json!({"sub": sub, "prev": prev, "height": height}),
                                );
                                s.broken = true;
                            } else if *height != prev + 1 {
                                viol(
                                    "gap",
                                    format!("subscriber {sub} received height {height} directly after {prev}"),
                                    json!({"sub": sub, "prev": prev, "height": height}),
                                );
                                s.broken = true;
                            }
                        }
                        Some(n) => {
                            if *height != prev + n + 1 {
                                viol(
                                    "gap-after-lag",
                                    format!("subscriber {sub}: {prev}, Lagged({n}), then {height} (expected {})", prev + n + 1),
                                    json!({"sub": sub, "prev": prev, "skipped": n, "height": height}),
                                );
                                s.broken = true;
                            }
                        }
                    }
                } else {
                    s.pending_skip = None;
                    ctx.count(match h0 {
                        Some(h) if *height == h => "first_element_is_the_head",
                        Some(h) if *height == h + 1 => "first_element_is_head_plus_1",
                        _ => "first_element_later",
                    });
                }
                s.last = Some(*height);
                s.delivered.insert(*height);
            }
            Ev::Announced { lo, ok, .. } => {
                last_announce_above = *ok && h0.is_some_and(|h| *lo > h);
            }
            Ev::Checkpoint { .. } => {
                // completeness, evaluated after an insert above the first head
                let Some(h0) = h0 else { continue };
                if !last_announce_above {
                    continue;
                }
                let x = frontier(&inserted, h0);
                if x == h0 {
                    continue;
                }
                let mut checked = false;
                for (id, s) in subs.iter_mut() {
                    if s.slow || s.lagged_ever || s.broken {
                        continue;
                    }
                    let from = s.frontier_at_subscribe.max(h0);
                    if from >= x {
                        continue;
                    }
                    checked = true;
                    if let Some(missing) = (from + 1..=x).find(|h| !s.delivered.contains(h)) {
                        // own class: the stream stops below a header that was stored before the first head was learned
                        let kind = match stored_above_first_head {
                            Some(pre) if pre <= missing => "incomplete/first-head-below-headers-already-stored",
                            _ => "incomplete",
                        };
                        viol(
                            kind,
                            format!(
                                "all heights {}..={x} above the first head {h0} are inserted, subscriber {id} (subscribed at frontier {}) has not received {missing} (last received {:?}; lowest height above the first head stored before it: {stored_above_first_head:?})",
                                h0 + 1, s.frontier_at_subscribe, s.last
                            ),
                            json!({"sub": id, "missing": missing, "frontier": x, "h0": h0, "last": s.last}),
                        );
                        s.broken = true;
                    }
                }
                if checked {
                    checkpoints_nontrivial += 1;
                }
            }
        }
    }
    ctx.count_n("completeness_checks", checkpoints_nontrivial);
    // evidence about the shape of the history
    let n_above = hist
        .log
        .iter()
        .filter(|e| matches!(e, Ev::Announced { ok: true, lo, .. } if h0.is_some_and(|h| *lo > h)))
        .count();
    if n_above >= 2 && checkpoints_nontrivial >= 1 {
        ctx.nontrivial(&(hist.mode, &hist.ops));
    }
    ctx.sample(|| json!({"mode": hist.mode.name(), "case": hist.case, "ops": hist.ops, "h0": h0}));
}

/// Count announces that made the broadcaster release headers parked earlier (delivery of a height
/// above the announced range right after it).
fn count_flushes(ctx: &Ctx, hist: &History) {
    let mut cur: Option<(u64, u64)> = None;
    let mut flushed = false;
    for ev in &hist.log {
        match ev {
            Ev::Store(StoreEvent::Call { op: StoreOp::Insert(hs), .. }) => {
                if let (Some(a), Some(b)) = (hs.first(), hs.last()) {
                    cur = Some((a.0, b.0));
                    flushed = false;
                }
            }
            Ev::Deliver { sub: 0, height, .. } => {
                if let Some((_, hi)) = cur {
                    if *height > hi && !flushed {
                        flushed = true;
                        ctx.count("announces_releasing_parked_ranges");
                    }
                }
            }
            Ev::Checkpoint { .. } => cur = None,
            _ => {}
        }
    }
}

pub fn run(ctx: &Ctx) {
    ctx.rule(
        "History = pre-filled store (earlier session), subscribers created before and after the first \
         initialisation (tasks that keep up; receivers drained only now and then, which may see Lagged), then \
         mode `syncer`: the call sequence of Syncer (try_init insert + init_broadcast, header-sub heads inserted \
         only when adjacent to the store head, batches chosen by the real calculate_range_to_fetch with batch \
         size 1..64, disconnect / network advances / re-connect with honest or lagging heads, foreign-chain \
         batches the store refuses, pruning of old heights) or mode `free`: re-initialisations with heads =, +1, \
         > store head or lagging, chunks of any unsynced gap inserted from either side (store adjacency rule), new \
         heads and head ranges; every history is closed by filling all gaps above the first head and one final \
         head insert. Non-trivial = history with >= 2 accepted inserts above the first head and >= 1 completeness \
         check with a subscriber that had something to receive; distinct by (mode, operation list).",
    );
    ctx.assume("tokio broadcast channel semantics (Lagged(n) = exactly n skipped messages)");
    ctx.assume("InMemoryStore accepts/refuses inserts as specified (C19-C21); LoggedStore stamps returns in order");
    ctx.assume(
        "completeness is demanded at quiescent points following an accepted announce_insert of a range above the first \
         network head, for subscribers that never lagged, from the contiguous frontier at their subscription on; \
         the first network head itself may or may not be delivered as first element",
    );

    let shards = ctx.cores();
    let histories: u64 = if ctx.tiny() { 4 } else { ctx.scale(8_000, 200_000) };
    let chain_len: u64 = 420;

    // replay of one recorded case
    let only: Option<(Mode, u64)> = ctx.replay.as_ref().and_then(|r| {
        let d = r.get("detail")?;
        let case = d.get("case")?.as_u64()?;
        let mode = if d.get("mode")?.as_str()? == "free" { Mode::Free } else { Mode::Syncer };
        Some((mode, case))
    });

    // one honest chain and one foreign chain (same chain id and heights, other validators) for the whole run
    let start = ChainGen::start_time_for(chain_len, std::time::Duration::from_secs(6), std::time::Duration::from_secs(3600));
    let mut main = ChainGen::new(ctx.rng(1, 0), "vchain", 3, &[10], 1, start, std::time::Duration::from_secs(6));
    let chain = main.next_many(chain_len);
    let mut other = ChainGen::new(ctx.rng(1, 1), "vchain", 3, &[10], 1, start, std::time::Duration::from_secs(6));
    let alt = other.next_many(chain_len);
    let (chain, alt) = (&chain, &alt);

    let failed = AtomicBool::new(false);
    let next_case = std::sync::atomic::AtomicU64::new(0);
    ctx.par(shards, |shard| {
        let rt = tokio::runtime::Builder::new_current_thread().enable_time().start_paused(true).build().unwrap();
        let run_one = |mode: Mode, case: u64| {
            use futures::FutureExt;
            let fut = std::panic::AssertUnwindSafe(run_history(ctx, mode, case, chain, alt)).catch_unwind();
            let hist = match {
                let _quiet = vcore::QuietPanics::new();
                rt.block_on(fut)
            } {
                Ok(h) => h,
                Err(_) => {
                    // not a verdict of this property: the text says nothing about panics; report where
                    let p = vcore::take_last_panic().unwrap_or_default();
                    ctx.count("histories_ended_by_panic");
                    ctx.inconclusive(&format!("panic during history (mode {}, case {case}) at {}: {p}", mode.name(), vcore::panic_site(&p)));
                    return;
                }
            };
            if let Some(e) = &hist.harness_error {
                ctx.inconclusive(&format!("harness: {e} (mode {}, case {case})", mode.name()));
                failed.store(true, Ordering::Relaxed);
                return;
            }
            ctx.count(match mode {
                Mode::Syncer => "histories_syncer",
                Mode::Free => "histories_free",
            });
            judge(ctx, &hist);
            count_flushes(ctx, &hist);
        };
        if let Some((mode, case)) = only {
            if shard == 0 {
                run_one(mode, case);
            }
            return;
        }
        loop {
            // histories are handed out dynamically (a history depends only on its number)
            let case = next_case.fetch_add(1, Ordering::SeqCst);
            if case >= histories || failed.load(Ordering::Relaxed) {
                return;
            }
            let mode = if case % 5 < 3 { Mode::Syncer } else { Mode::Free };
            run_one(mode, case);
        }
    });

    if only.is_none() && !ctx.tiny() {
        let q = ctx.quick();
        ctx.floor("histories_syncer", if q { 4_800 } else { 120_000 });
        ctx.floor("histories_free", if q { 3_200 } else { 80_000 });
        ctx.floor("completeness_checks", if q { 50_000 } else { 1_000_000 });
        ctx.floor("announces_releasing_parked_ranges", if q { 3_000 } else { 60_000 });
        ctx.floor("announce_historical_ok", if q { 5_000 } else { 100_000 });
        ctx.floor("announce_refused_by_store", 1_000);
        ctx.floor("reinit_head_below_last_sent", 50);
        ctx.floor("reinit_head_equal_last_sent", 1_000);
        ctx.floor("reinit_head_next_after_last_sent", 500);
        ctx.floor("reinit_head_above_last_sent", 3_000);
        ctx.floor("first_head_below_headers_already_stored", 50);
        ctx.floor("lagged_slow_subscriber", 1_000);
        ctx.floor("first_element_is_the_head", 3_000);
        ctx.floor("first_element_later", 3_000);
        ctx.floor("free_insert_from_bottom", 3_000);
        ctx.floor("free_insert_from_top", 3_000);
    }
}
