//! C09 — an EDS fetched over shrex matches the header's DAH.
//!
//! The real `ResponseCodec for ExtendedDataSquare` (`decode_and_verify`, reached through the
//! `lumina_node::verif::shrex` pass-through hook) is fed honest and hostile payloads.
//!
//! Ground truth: the square the DAH was built from (its ODS bytes are known by construction, the
//! DAH itself is computed with the independent NMT of `vcore::sha`, not with lumina).
//!
//! Oracle (property text):
//!  * `Ok(square)` ⇒ the payload is exactly the row-major ODS of the square whose DAH was given
//!    and the returned square is that square;
//!  * honest payload + the header's DAH + the header's app version ⇒ `Ok`;
//!  * any other payload / any other DAH ⇒ `Err`, never a panic.

use celestia_types::consts::appconsts::{AppVersion, SHARE_SIZE};
use celestia_types::eds::EdsId;
use celestia_types::nmt::{NS_SIZE, NamespacedHash, NamespacedHashExt};
use celestia_types::{DataAvailabilityHeader, ExtendedDataSquare};
use lumina_node::verif::shrex::{decode_and_verify_eds, encode_eds_response};
use vcore::sha::{NsHash, PARITY_NS, nmt_root};
use vcore::{ChaCha8Rng, Ctx, Rng, SliceRandom, Value, guard, json, panic_site};
use vgen::square::{ALL_APP_VERSIONS, gen_eds, random_app_version};

#[derive(Clone, Copy, PartialEq, Debug)]
enum Expect {
    /// honest payload, the header's DAH, the header's app version
    Accept,
    /// payload is not the ODS committed by the DAH given
    Reject,
    /// the text leaves it open (e.g. other app version); `Ok` must still return the truth
    Either,
}

/// Row and column roots of an extended square, computed independently of lumina.
fn independent_roots(eds: &ExtendedDataSquare) -> (Vec<NsHash>, Vec<NsHash>) {
    let w = eds.square_width() as usize;
    let k = w / 2;
    let cell = |r: usize, c: usize| eds.data_square()[r * w + c].data().to_vec();
    let leaf = |r: usize, c: usize| {
        let d = cell(r, c);
        let ns: [u8; NS_SIZE] = if r < k && c < k { d[..NS_SIZE].try_into().unwrap() } else { PARITY_NS };
        (ns, d)
    };
    let rows = (0..w).map(|r| nmt_root(&(0..w).map(|c| leaf(r, c)).collect::<Vec<_>>())).collect();
    let cols = (0..w).map(|c| nmt_root(&(0..w).map(|r| leaf(r, c)).collect::<Vec<_>>())).collect();
    (rows, cols)
}

fn to_dah(rows: &[NsHash], cols: &[NsHash]) -> DataAvailabilityHeader {
    let conv = |v: &[NsHash]| -> Vec<NamespacedHash> { v.iter().map(|h| NamespacedHash::from_raw(&h.to_bytes()).expect("90 bytes")).collect() };
    DataAvailabilityHeader::new_unchecked(conv(rows), conv(cols))
}

struct Truth {
    k: usize,
    app: AppVersion,
    eds: ExtendedDataSquare,
    payload: Vec<u8>,
    rows: Vec<NsHash>,
    cols: Vec<NsHash>,
    dah: DataAvailabilityHeader,
    share_v1: bool,
}

fn make_truth(rng: &mut ChaCha8Rng, k: usize, share_v1: bool) -> Truth {
    let app = if share_v1 {
        *[AppVersion::V3, AppVersion::V4, AppVersion::V5, AppVersion::V6, AppVersion::V7].choose(rng).unwrap()
    } else {
        random_app_version(rng)
    };
    let (mut eds, mut ods, _) = gen_eds(rng, k, app);
    if share_v1 {
        // turn one share into share version 1 (only valid from app version 3 on)
        let i = rng.gen_range(0..ods.len());
        ods[i][NS_SIZE] = (1 << 1) | (ods[i][NS_SIZE] & 1);
        eds = ExtendedDataSquare::from_ods(ods.clone(), app).expect("share version 1 is valid from V3");
    }
    let payload: Vec<u8> = ods.concat();
    let (rows, cols) = independent_roots(&eds);
    let dah = to_dah(&rows, &cols);
    Truth { k, app, eds, payload, rows, cols, dah, share_v1 }
}

struct Mon<'a> {
    ctx: &'a Ctx,
    case: u64,
}

impl Mon<'_> {
    fn check(&self, t: &Truth, class: &str, payload: &[u8], dah: &DataAvailabilityHeader, app: AppVersion, expect: Expect, what: Value) {
        let ctx = self.ctx;
        let id = EdsId::new(1 + self.case % 1000).unwrap();
        let res = guard(|| decode_and_verify_eds(payload, &id, dah, app));
        ctx.eval();
        ctx.count(&format!("class_{class}"));
        let detail = || {
            json!({"case": self.case, "ods_width": t.k, "app_version_of_square": t.app.as_u64(), "app_version_given": app.as_u64(),
                   "class": class, "mutation": what, "payload_len": payload.len(), "honest_payload_len": t.payload.len(),
                   "payload_is_honest": payload == &t.payload[..], "dah_is_honest": *dah == t.dah})
        };
        match res {
            Err(p) => {
                ctx.count("panics");
                ctx.violation(&format!("C09/decode_and_verify/panic/{}", panic_site(&p)), &format!("EDS response decoder panicked ({class}): {p}"), detail());
            }
            Ok(Ok(sq)) => {
                ctx.count("accepted");
                ctx.count(&format!("accepted_{class}"));
                if expect == Expect::Reject {
                    ctx.violation(
                        &format!("C09/decode_and_verify/accepts/{class}"),
                        &format!("payload that is not the ODS committed by the given DAH was accepted ({class})"),
                        detail(),
                    );
                } else if sq != t.eds || *dah != t.dah || payload != &t.payload[..] {
                    ctx.violation(
                        &format!("C09/decode_and_verify/returns-other-square/{class}"),
                        "accepted, but the returned square is not the square the DAH was built from",
                        detail(),
                    );
                } else {
                    ctx.nontrivial(&("ok", vcore::hash64(payload), app.as_u64()));
                    ctx.sample(|| detail());
                }
            }
            Ok(Err(e)) => {
                ctx.count("rejected");
                ctx.count(&format!("rejected_{class}"));
                if expect == Expect::Accept {
                    ctx.violation(
                        &format!("C09/decode_and_verify/rejects-honest/{class}"),
                        &format!("honest payload rejected: {e}"),
                        detail(),
                    );
                } else {
                    // distinct by what was rejected and how far it got
                    let stage = if e.contains("DAH missmatch") { "dah" } else { "decode" };
                    ctx.count(&format!("rejected_at_{stage}"));
                    ctx.nontrivial(&("err", class, stage, vcore::hash64(payload), vcore::hash64(&dah.hash().as_bytes())));
                }
            }
        }
    }
}

fn flip(rng: &mut ChaCha8Rng, bytes: &mut [u8], at: usize) {
    bytes[at] ^= 1 << rng.gen_range(0..8);
}

fn one_case(ctx: &Ctx, case: u64, k: usize) {
    let mut rng = ctx.rng(1, case);
    let rng = &mut rng;
    let mon = Mon { ctx, case };
    let share_v1 = case % 5 == 4 && k >= 1;
    let t = make_truth(rng, k, share_v1);
    ctx.count(&format!("squares_k{k}"));
    let n = k * k;

    // the protocol's honest payload is the row-major ODS; lumina's encoder must produce it
    let enc = guard(|| encode_eds_response(&t.eds));
    match enc {
        Ok(b) if b == t.payload => ctx.count("encoder_matches_ods"),
        Ok(_) => ctx.violation("C09/encode/differs-from-ods", "encode_eds_response is not the row-major ODS", json!({"case": case, "ods_width": k})),
        Err(p) => ctx.violation(&format!("C09/encode/panic/{}", panic_site(&p)), &p, json!({"case": case, "ods_width": k})),
    }

    // ---- honest
    mon.check(&t, "honest", &t.payload, &t.dah, t.app, Expect::Accept, json!(null));

    // ---- app version
    // (large squares: two other versions only, each acceptance costs a full extension)
    let mut others: Vec<AppVersion> = ALL_APP_VERSIONS.iter().copied().filter(|a| *a != t.app).collect();
    if k >= 32 {
        others.shuffle(rng);
        others.truncate(2);
        if t.share_v1 && !others.iter().any(|a| *a < AppVersion::V3) {
            others.push(AppVersion::V2);
        }
    }
    for app in others {
        let class = if t.share_v1 && app < AppVersion::V3 { "share-v1-under-old-app" } else { "other-app-version" };
        mon.check(&t, class, &t.payload, &t.dah, app, Expect::Either, json!({"app": app.as_u64()}));
    }

    // ---- truncations at share boundaries (every count for small squares, sampled otherwise)
    let counts: Vec<usize> = if n <= 16 {
        (0..n).collect()
    } else {
        let mut v = vec![0, 1, n - 1, n / 4, (k - 1) * (k - 1), n / 2, n - k];
        for _ in 0..4 {
            v.push(rng.gen_range(0..n));
        }
        v.sort();
        v.dedup();
        v
    };
    for c in counts {
        mon.check(&t, "truncate-shares", &t.payload[..c * SHARE_SIZE], &t.dah, t.app, Expect::Reject, json!({"shares_kept": c}));
    }
    // ---- truncations / extensions off share boundaries
    let mut lens = vec![1usize, SHARE_SIZE - 1, SHARE_SIZE + 1, t.payload.len() - 1, t.payload.len() + 1, t.payload.len() - SHARE_SIZE + 1];
    for _ in 0..3 {
        lens.push(rng.gen_range(0..t.payload.len() + SHARE_SIZE));
    }
    for len in lens {
        if len == t.payload.len() {
            continue;
        }
        let mut p = t.payload.clone();
        p.resize(len, 0);
        let class = if len % SHARE_SIZE == 0 { "truncate-shares" } else { "length-not-multiple" };
        mon.check(&t, class, &p, &t.dah, t.app, Expect::Reject, json!({"len": len}));
    }
    // ---- extensions to other share counts (also to the next valid square size)
    for extra in [1usize, 3 * n, rng.gen_range(1..=2 * k + 1)] {
        let mut p = t.payload.clone();
        for j in 0..extra {
            let src = if rng.gen_bool(0.5) { n - 1 } else { j % n };
            p.extend_from_slice(&t.payload[src * SHARE_SIZE..(src + 1) * SHARE_SIZE]);
        }
        mon.check(&t, "extend", &p, &t.dah, t.app, Expect::Reject, json!({"extra_shares": extra}));
    }
    // ---- share swaps
    if n >= 2 {
        let mut done = 0;
        for _ in 0..40 {
            if done >= 4 {
                break;
            }
            let i = rng.gen_range(0..n);
            let j = if rng.gen_bool(0.3) { (i + 1) % n } else { rng.gen_range(0..n) };
            let (a, b) = (&t.payload[i * SHARE_SIZE..(i + 1) * SHARE_SIZE], &t.payload[j * SHARE_SIZE..(j + 1) * SHARE_SIZE]);
            if a == b {
                continue;
            }
            let same_ns = a[..NS_SIZE] == b[..NS_SIZE];
            let mut p = t.payload.clone();
            let (a, b) = (a.to_vec(), b.to_vec());
            p[i * SHARE_SIZE..(i + 1) * SHARE_SIZE].copy_from_slice(&b);
            p[j * SHARE_SIZE..(j + 1) * SHARE_SIZE].copy_from_slice(&a);
            mon.check(&t, if same_ns { "swap-same-namespace" } else { "swap-other-namespace" }, &p, &t.dah, t.app, Expect::Reject, json!({"i": i, "j": j}));
            done += 1;
        }
        // rows exchanged / transposed square (keeps the multiset of shares)
        if k >= 2 {
            let mut p = Vec::with_capacity(t.payload.len());
            for r in 0..k {
                for c in 0..k {
                    let s = c * k + r;
                    p.extend_from_slice(&t.payload[s * SHARE_SIZE..(s + 1) * SHARE_SIZE]);
                }
            }
            if p != t.payload {
                mon.check(&t, "transposed", &p, &t.dah, t.app, Expect::Reject, json!(null));
            }
        }
    }
    // ---- single byte flips
    let flips: [(&str, std::ops::Range<usize>); 4] = [
        ("flip-namespace", 0..NS_SIZE),
        ("flip-info-byte", NS_SIZE..NS_SIZE + 1),
        ("flip-sequence-len", NS_SIZE + 1..NS_SIZE + 5),
        ("flip-payload", NS_SIZE + 5..SHARE_SIZE),
    ];
    for (class, range) in flips {
        for rep in 0..3 {
            let share = match rep {
                0 => 0,
                1 => n - 1,
                _ => rng.gen_range(0..n),
            };
            let mut p = t.payload.clone();
            let at = share * SHARE_SIZE + rng.gen_range(range.clone());
            flip(rng, &mut p, at);
            mon.check(&t, class, &p, &t.dah, t.app, Expect::Reject, json!({"share": share, "byte": at % SHARE_SIZE}));
        }
    }
    // last byte of the payload, a whole share zeroed
    {
        let mut p = t.payload.clone();
        let at = p.len() - 1;
        flip(rng, &mut p, at);
        mon.check(&t, "flip-payload", &p, &t.dah, t.app, Expect::Reject, json!({"byte": "last"}));
    }

    // ---- another square of the same width
    let o = make_truth(rng, k, false);
    if o.payload != t.payload {
        mon.check(&t, "other-square-payload", &o.payload, &t.dah, t.app, Expect::Reject, json!(null));
        mon.check(&t, "other-square-dah", &t.payload, &o.dah, t.app, Expect::Reject, json!(null));
    }

    // ---- the DAH given differs from the DAH of the payload's extension
    let w = 2 * k;
    let mutate_root = |rng: &mut ChaCha8Rng, h: &NsHash| -> NsHash {
        let mut h = h.clone();
        match rng.gen_range(0..3) {
            0 => h.hash[rng.gen_range(0..32)] ^= 1 << rng.gen_range(0..8),
            1 => h.min[rng.gen_range(0..NS_SIZE)] ^= 1 << rng.gen_range(0..8),
            _ => h.max[rng.gen_range(0..NS_SIZE)] ^= 1 << rng.gen_range(0..8),
        }
        h
    };
    for rep in 0..3 {
        let i = match rep {
            0 => 0,
            1 => w - 1,
            _ => rng.gen_range(0..w),
        };
        let mut rows = t.rows.clone();
        rows[i] = mutate_root(rng, &rows[i]);
        mon.check(&t, "dah-row-root", &t.payload, &to_dah(&rows, &t.cols), t.app, Expect::Reject, json!({"row": i}));
        let mut cols = t.cols.clone();
        cols[i] = mutate_root(rng, &cols[i]);
        mon.check(&t, "dah-col-root", &t.payload, &to_dah(&t.rows, &cols), t.app, Expect::Reject, json!({"col": i}));
    }
    // exchanged roots
    for (class, which) in [("dah-row-roots-swapped", 0), ("dah-col-roots-swapped", 1)] {
        let src = if which == 0 { &t.rows } else { &t.cols };
        let i = rng.gen_range(0..w);
        let j = rng.gen_range(0..w);
        if src[i] == src[j] {
            continue;
        }
        let mut v = src.clone();
        v.swap(i, j);
        let dah = if which == 0 { to_dah(&v, &t.cols) } else { to_dah(&t.rows, &v) };
        mon.check(&t, class, &t.payload, &dah, t.app, Expect::Reject, json!({"i": i, "j": j}));
    }
    if t.rows != t.cols {
        mon.check(&t, "dah-rows-cols-exchanged", &t.payload, &to_dah(&t.cols, &t.rows), t.app, Expect::Reject, json!(null));
    }
    // shapes
    mon.check(&t, "dah-shape", &t.payload, &to_dah(&t.rows, &t.cols[..w - 1]), t.app, Expect::Reject, json!("last column root dropped"));
    mon.check(&t, "dah-shape", &t.payload, &to_dah(&t.rows[..w - 1], &t.cols), t.app, Expect::Reject, json!("last row root dropped"));
    mon.check(&t, "dah-shape", &t.payload, &to_dah(&t.rows[..w - 1], &t.cols[..w - 1]), t.app, Expect::Reject, json!("last row and column root dropped"));
    mon.check(&t, "dah-shape", &t.payload, &to_dah(&[], &[]), t.app, Expect::Reject, json!("empty"));
    {
        let mut cols = t.cols.clone();
        cols.push(t.cols[w - 1].clone());
        mon.check(&t, "dah-shape", &t.payload, &to_dah(&t.rows, &cols), t.app, Expect::Reject, json!("extra column root"));
    }
}

/// Squares above the bound of the app version given (thorough: real 256-wide ODS under V1..V5).
fn oversized(ctx: &Ctx, case: u64) {
    let mut rng = ctx.rng(2, case);
    let mon = Mon { ctx, case };
    let t = make_truth(&mut rng, 2, false);
    // a payload of 256x256 shares (EDS 512 > 256 = bound of V1..V5)
    let share = &t.payload[..SHARE_SIZE];
    let mut p = Vec::with_capacity(256 * 256 * SHARE_SIZE);
    for _ in 0..256 * 256 {
        p.extend_from_slice(share);
    }
    mon.check(&t, "oversized-square", &p, &t.dah, AppVersion::V2, Expect::Reject, json!({"ods_width": 256}));
}

pub fn run(ctx: &Ctx) {
    ctx.rule(
        "Random valid squares (ODS width 1..64, realistic namespace layout, app V1..V7, every 5th with a share-version-1 \
         share) -> honest payload (row-major ODS) and DAH computed by an independent NMT. Per square ~60-80 hostile inputs: \
         truncation at every / sampled share boundary, lengths off the share boundary, extensions (incl. to the next valid \
         square size), share swaps (same / other namespace, transposition), single bit flips in namespace / info byte / \
         sequence length / payload of first, last and random shares, payload or DAH of another square, DAH with one mutated \
         row root / column root, exchanged roots, rows<->columns, wrong shapes, every other app version. Non-trivial = input \
         that reached the decoder, distinct by (class, payload hash, DAH hash, stage of rejection).",
    );
    ctx.assume("vcore::sha::nmt_root (independent NMT) defines the header's DAH for a square");
    ctx.assume("two different payloads cannot extend to the same DAH (collision resistance of SHA-256)");

    // (ods width, quick, thorough)
    let plan: [(usize, u64, u64); 7] = [(1, 10, 200), (2, 16, 500), (4, 20, 700), (8, 20, 700), (16, 20, 500), (32, 8, 150), (64, 2, 40)];
    let mut jobs: Vec<(usize, u64)> = Vec::new();
    for (k, q, t) in plan {
        for i in 0..ctx.scale(q, t) {
            jobs.push((k, i));
        }
    }
    jobs.sort_by_key(|(k, i)| (*i, std::cmp::Reverse(*k)));
    let shards = ctx.cores();
    ctx.par(shards, |shard| {
        for (n, (k, i)) in jobs.iter().enumerate() {
            if n % shards == shard {
                one_case(ctx, (*k as u64) << 32 | *i, *k);
            }
        }
    });
    for case in 0..ctx.scale(1u64, 3u64) {
        oversized(ctx, case);
    }

    ctx.floor("accepted_honest", 90);
    ctx.floor("rejected_at_dah", 1_000);
    ctx.floor("rejected_at_decode", 500);
    for class in [
        "truncate-shares", "length-not-multiple", "extend", "swap-same-namespace", "swap-other-namespace", "flip-namespace",
        "flip-info-byte", "flip-sequence-len", "flip-payload", "other-square-payload", "other-square-dah", "dah-row-root",
        "dah-col-root", "dah-col-roots-swapped", "dah-row-roots-swapped", "dah-shape", "other-app-version",
    ] {
        ctx.floor(&format!("class_{class}"), 20);
    }
    ctx.floor("class_share-v1-under-old-app", 10);
}
