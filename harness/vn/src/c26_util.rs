//! Helpers shared by the header-exchange monitors C26, C27, C28 (included by each with `#[path]`).
#![allow(dead_code)]

use std::future::Future;
use std::pin::Pin;
use std::task::Poll;
use std::time::Duration;

use celestia_proto::p2p::pb::HeaderRequest;
use celestia_proto::p2p::pb::header_request::Data;
use celestia_types::ExtendedHeader;
use lumina_node::node::{HeaderExError, P2pError};
use tendermint::Time;
use vcore::ChaCha8Rng;
use vgen::chain::ChainGen;

/// Fixed start time far in the past (2023-11-14): deterministic, and years away from the
/// "header from the future" boundary of `ExtendedHeader::verify`.
pub fn fixed_start_time() -> Time {
    Time::from_unix_timestamp(1_700_000_000, 0).unwrap()
}

/// An honest, fully signed chain of `n` headers with heights `start_height..start_height+n`.
pub struct Chain {
    pub first: u64,
    pub headers: Vec<ExtendedHeader>,
}

impl Chain {
    pub fn generate(rng: ChaCha8Rng, chain_id: &str, powers: &[u64], start_height: u64, n: u64) -> Chain {
        let mut g = ChainGen::new(
            rng,
            chain_id,
            3,
            powers,
            start_height,
            fixed_start_time(),
            Duration::from_secs(6),
        );
        let headers = g.next_many(n);
        Chain {
            first: start_height,
            headers,
        }
    }
    pub fn tip(&self) -> u64 {
        self.first + self.headers.len() as u64 - 1
    }
    pub fn get(&self, height: u64) -> Option<&ExtendedHeader> {
        if height < self.first {
            return None;
        }
        self.headers.get((height - self.first) as usize)
    }
    /// Headers `start..start+n` (caller guarantees they exist).
    pub fn slice(&self, start: u64, n: u64) -> Vec<ExtendedHeader> {
        let i = (start - self.first) as usize;
        self.headers[i..i + n as usize].to_vec()
    }
}

/// Current-thread runtime with paused (virtual) time.
pub fn runtime() -> tokio::runtime::Runtime {
    tokio::runtime::Builder::new_current_thread()
        .enable_time()
        .start_paused(true)
        .build()
        .expect("tokio runtime")
}

/// Poll `f` exactly once; a panic raised by the poll is returned as `Err("file:line: msg")`.
pub async fn poll_once<F: Future>(f: &mut Pin<&mut F>) -> Result<Poll<F::Output>, String> {
    std::future::poll_fn(|cx| Poll::Ready(vcore::guard(|| f.as_mut().poll(cx)))).await
}

/// Run `f` to completion, converting a panic inside any poll into `Err`.
pub async fn guarded<F: Future>(f: F) -> Result<F::Output, String> {
    let mut f = std::pin::pin!(f);
    std::future::poll_fn(|cx| match vcore::guard(|| f.as_mut().poll(cx)) {
        Ok(Poll::Ready(v)) => Poll::Ready(Ok(v)),
        Ok(Poll::Pending) => Poll::Pending,
        Err(p) => Poll::Ready(Err(p)),
    })
    .await
}

/// `(origin, amount)` of a height request.
pub fn origin_of(req: &HeaderRequest) -> Option<(u64, u64)> {
    match &req.data {
        Some(Data::Origin(o)) => Some((*o, req.amount)),
        _ => None,
    }
}

pub fn describe_request(req: &HeaderRequest) -> String {
    match &req.data {
        Some(Data::Origin(o)) => format!("origin={o} amount={}", req.amount),
        Some(Data::Hash(h)) => format!("hash={} amount={}", vcore::hex(h), req.amount),
        None => format!("data=None amount={}", req.amount),
    }
}

pub fn hex_err(e: HeaderExError) -> P2pError {
    P2pError::HeaderEx(e)
}

/// Short stable name of a result's error (for logs / counters).
pub fn err_name(e: &P2pError) -> String {
    match e {
        P2pError::HeaderEx(HeaderExError::HeaderNotFound) => "HeaderEx::HeaderNotFound".into(),
        P2pError::HeaderEx(HeaderExError::InvalidResponse) => "HeaderEx::InvalidResponse".into(),
        P2pError::HeaderEx(HeaderExError::InvalidRequest) => "HeaderEx::InvalidRequest".into(),
        P2pError::HeaderEx(HeaderExError::RequestCancelled) => "HeaderEx::RequestCancelled".into(),
        P2pError::HeaderEx(HeaderExError::OutboundFailure(_)) => "HeaderEx::OutboundFailure".into(),
        P2pError::HeaderEx(HeaderExError::InboundFailure(_)) => "HeaderEx::InboundFailure".into(),
        P2pError::WorkerDied => "WorkerDied".into(),
        P2pError::ChannelClosedUnexpectedly => "ChannelClosedUnexpectedly".into(),
        other => format!("{other}").chars().take(40).collect(),
    }
}
