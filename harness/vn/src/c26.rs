//! C26 — a header session returns exactly the requested range.
//!
//! The real `HeaderSession::run` (through `lumina_node::verif::VHeaderSession`) is driven by an
//! adversarial scheduler that plays the network: it answers the outstanding
//! `HeaderExRequest` commands in arbitrary order, with the full answer, a random prefix (possibly
//! empty) or a header-ex error; after a finite fault budget every answer is honest and full.
//! Every request and response goes into a log; the oracle is an offline checker over that log:
//!
//! * every request is a height request for a non-empty sub-range of the session's range, of at most
//!   64 headers, containing no height that was already delivered in an earlier response;
//! * a session that completes with `Ok(v)` returns the range's heights ascending, each exactly once
//!   (and the headers are the ones that were delivered);
//! * no panic.
//!
//! Not demanded (the text does not): that a session completes. A session that stalls or exceeds the
//! generous request budget makes the run inconclusive / is reported under its own signature.

#[path = "c26_util.rs"]
mod c26_util;

use std::collections::BTreeSet;

use c26_util::{Chain, describe_request, err_name, origin_of, poll_once, runtime};
use celestia_types::ExtendedHeader;
use libp2p::request_response::OutboundFailure;
use lumina_node::node::{HeaderExError, P2pError};
use lumina_node::verif::{VHeaderSession, VP2pCmd, VResponder};
use vcore::{Ctx, Rng, SliceRandom, json, panic_site};

const MAX_PER_REQUEST: u64 = 64;

#[derive(Clone, Debug)]
enum Ev {
    /// The session issued a request (`origin == None`: not a height request).
    Req { id: u64, origin: Option<u64>, amount: u64, text: String },
    /// The scheduler answered request `id` with the first `n` headers of it / with an error.
    Resp { id: u64, kind: &'static str, n: u64 },
}

struct Outstanding {
    id: u64,
    origin: Option<u64>,
    amount: u64,
    respond_to: VResponder<Vec<ExtendedHeader>>,
}

#[derive(Clone, Copy, Debug, PartialEq, Eq, Hash)]
enum Order {
    Fifo,
    Lifo,
    Random,
    /// Let requests pile up (answer only when nothing new arrives), then answer in random order.
    Batched,
}

#[derive(Clone, Debug)]
struct Plan {
    a: u64,
    b: u64,
    order: Order,
    fault_prob: f64,
    fault_budget: u64,
}

enum End {
    Returned(Result<Vec<ExtendedHeader>, P2pError>),
    Panicked(String),
    /// `run` pending, no request outstanding: nothing can ever wake it.
    Stalled,
    BudgetExceeded,
}

struct Run {
    log: Vec<Ev>,
    end: End,
    faults: u64,
    out_of_order: u64,
    max_outstanding: usize,
    requests: u64,
}

fn fault_error(rng: &mut impl Rng) -> (P2pError, &'static str) {
    match rng.gen_range(0..7) {
        0 => (P2pError::HeaderEx(HeaderExError::HeaderNotFound), "err:HeaderNotFound"),
        1 => (P2pError::HeaderEx(HeaderExError::InvalidResponse), "err:InvalidResponse"),
        2 => (P2pError::HeaderEx(HeaderExError::InvalidRequest), "err:InvalidRequest"),
        3 => (P2pError::HeaderEx(HeaderExError::RequestCancelled), "err:RequestCancelled"),
        4 => (
            P2pError::HeaderEx(HeaderExError::OutboundFailure(OutboundFailure::Timeout)),
            "err:OutboundFailure",
        ),
        5 => (
            P2pError::HeaderEx(HeaderExError::OutboundFailure(OutboundFailure::ConnectionClosed)),
            "err:OutboundFailure",
        ),
        _ => (
            P2pError::HeaderEx(HeaderExError::OutboundFailure(OutboundFailure::DialFailure)),
            "err:OutboundFailure",
        ),
    }
}

/// Drive one session to its end. Everything the oracle needs is in the returned log.
async fn drive(chain: &Chain, plan: &Plan, rng: &mut impl Rng) -> Run {
    let (mut session, mut handle) = VHeaderSession::new(plan.a..=plan.b);
    let len = plan.b - plan.a + 1;
    // every honest full answer completes its request and every fault causes at most one
    // re-request, so the real bound is ceil(len/8) + faults; this one is far above it.
    let request_budget = len + plan.fault_budget + 16;

    let mut run = Run {
        log: Vec::new(),
        end: End::Stalled,
        faults: 0,
        out_of_order: 0,
        max_outstanding: 0,
        requests: 0,
    };
    let mut outstanding: Vec<Outstanding> = Vec::new();
    let mut next_id = 0u64;
    let mut fault_budget = plan.fault_budget;

    let fut = session.run();
    let mut fut = std::pin::pin!(fut);
    let mut idle_polls = 0u32;

    loop {
        match poll_once(&mut fut).await {
            Err(p) => {
                run.end = End::Panicked(p);
                break;
            }
            Ok(std::task::Poll::Ready(res)) => {
                run.end = End::Returned(res);
                break;
            }
            Ok(std::task::Poll::Pending) => {}
        }

        let mut new_cmds = 0;
        while let Some(cmd) = handle.try_recv_cmd() {
            new_cmds += 1;
            match cmd {
                VP2pCmd::HeaderExRequest { request, respond_to } => {
                    let (origin, amount) = match origin_of(&request) {
                        Some((o, a)) => (Some(o), a),
                        None => (None, request.amount),
                    };
                    run.log.push(Ev::Req {
                        id: next_id,
                        origin,
                        amount,
                        text: describe_request(&request),
                    });
                    outstanding.push(Outstanding { id: next_id, origin, amount, respond_to });
                    next_id += 1;
                    run.requests += 1;
                }
                other => {
                    run.log.push(Ev::Req {
                        id: next_id,
                        origin: None,
                        amount: 0,
                        text: format!("{other:?}").chars().take(60).collect(),
                    });
                    next_id += 1;
                    run.requests += 1;
                }
            }
        }
        run.max_outstanding = run.max_outstanding.max(outstanding.len());
        if run.requests > request_budget {
            run.end = End::BudgetExceeded;
            break;
        }

        if outstanding.is_empty() {
            // Nothing to answer. Give the runtime a few turns (cooperative budget, deferred
            // wake-ups) before declaring a stall.
            idle_polls += 1;
            if idle_polls > 64 {
                run.end = End::Stalled;
                break;
            }
            tokio::task::yield_now().await;
            continue;
        }
        idle_polls = 0;

        if plan.order == Order::Batched && new_cmds > 0 {
            // let the session issue everything it wants first
            tokio::task::yield_now().await;
            continue;
        }

        let n_answers = match plan.order {
            Order::Batched => rng.gen_range(1..=outstanding.len()),
            _ => {
                if rng.gen_bool(0.7) {
                    1
                } else {
                    rng.gen_range(1..=outstanding.len())
                }
            }
        };
        for _ in 0..n_answers {
            let idx = match plan.order {
                Order::Fifo => 0,
                Order::Lifo => outstanding.len() - 1,
                Order::Random | Order::Batched => rng.gen_range(0..outstanding.len()),
            };
            if idx != 0 {
                run.out_of_order += 1;
            }
            let o = outstanding.remove(idx);
            let servable = match o.origin {
                Some(s) => {
                    o.amount >= 1
                        && s >= chain.first
                        && (s as u128 + o.amount as u128 - 1) <= chain.tip() as u128
                }
                None => false,
            };
            if !servable {
                // What the real client does for amount 0 / malformed requests, resp. an honest
                // network for heights nobody has.
                let (e, kind) = if o.amount == 0 || o.origin.is_none() {
                    (HeaderExError::InvalidRequest, "err:InvalidRequest(malformed)")
                } else {
                    (HeaderExError::HeaderNotFound, "err:HeaderNotFound(unknown-height)")
                };
                run.log.push(Ev::Resp { id: o.id, kind, n: 0 });
                let _ = o.respond_to.send(Err(P2pError::HeaderEx(e)));
                continue;
            }
            let start = o.origin.unwrap();
            let fault = fault_budget > 0 && rng.gen_bool(plan.fault_prob);
            if fault {
                fault_budget -= 1;
                run.faults += 1;
                match rng.gen_range(0..3) {
                    0 => {
                        run.log.push(Ev::Resp { id: o.id, kind: "prefix:empty", n: 0 });
                        let _ = o.respond_to.send(Ok(Vec::new()));
                    }
                    1 if o.amount >= 2 => {
                        let k = if rng.gen_bool(0.3) {
                            *[1, o.amount - 1].choose(rng).unwrap()
                        } else {
                            rng.gen_range(1..o.amount)
                        };
                        run.log.push(Ev::Resp { id: o.id, kind: "prefix:strict", n: k });
                        let _ = o.respond_to.send(Ok(chain.slice(start, k)));
                    }
                    _ => {
                        let (e, kind) = fault_error(rng);
                        run.log.push(Ev::Resp { id: o.id, kind, n: 0 });
                        let _ = o.respond_to.send(Err(e));
                    }
                }
            } else {
                run.log.push(Ev::Resp { id: o.id, kind: "full", n: o.amount });
                let _ = o.respond_to.send(Ok(chain.slice(start, o.amount)));
            }
        }
        tokio::task::yield_now().await;
    }
    run
}

/// Offline oracle over the log of one session.
fn check(ctx: &Ctx, chain: &Chain, plan: &Plan, case: u64, run: &Run) {
    let (a, b) = (plan.a, plan.b);
    let mut received: BTreeSet<u64> = BTreeSet::new();
    let mut reqs: std::collections::HashMap<u64, (Option<u64>, u64)> = Default::default();
    let mut fired: BTreeSet<&'static str> = BTreeSet::new();
    let tail = |i: usize| -> Vec<String> {
        run.log[i.saturating_sub(12)..=i].iter().map(|e| format!("{e:?}")).collect()
    };
    let viol = |fired: &mut BTreeSet<&'static str>, sig: &'static str, msg: String, at: usize| {
        if fired.insert(sig) {
            ctx.violation(
                &format!("C26/{sig}"),
                &msg,
                json!({"case": case, "range": [a, b], "plan": format!("{plan:?}"), "log_tail": tail(at)}),
            );
        }
    };

    for (i, ev) in run.log.iter().enumerate() {
        match ev {
            Ev::Req { id, origin, amount, text } => {
                reqs.insert(*id, (*origin, *amount));
                let Some(start) = origin else {
                    viol(&mut fired, "request/not-a-height-request", format!("session issued {text}"), i);
                    continue;
                };
                if *amount == 0 {
                    viol(&mut fired, "request/empty", format!("session issued an empty request: {text}"), i);
                    continue;
                }
                if *amount > MAX_PER_REQUEST {
                    viol(
                        &mut fired,
                        "request/more-than-64",
                        format!("session asked for {amount} headers in one request: {text}"),
                        i,
                    );
                }
                let end = *start as u128 + *amount as u128 - 1;
                if *start < a || end > b as u128 {
                    viol(
                        &mut fired,
                        "request/outside-range",
                        format!("request {text} is not inside the session's range {a}..={b}"),
                        i,
                    );
                    continue;
                }
                if let Some(h) = received.range(*start..=end as u64).next() {
                    viol(
                        &mut fired,
                        "request/already-received-heights",
                        format!("request {text} covers height {h} which an earlier response already delivered"),
                        i,
                    );
                }
            }
            Ev::Resp { id, n, .. } => {
                if let Some((Some(start), _)) = reqs.get(id) {
                    for h in *start..*start + *n {
                        received.insert(h);
                    }
                }
            }
        }
    }

    let last = run.log.len().saturating_sub(1);
    match &run.end {
        End::Panicked(p) => {
            ctx.violation(
                &format!("C26/run/panic/{}", panic_site(p)),
                &format!("HeaderSession::run panicked: {p}"),
                json!({"case": case, "range": [a, b], "plan": format!("{plan:?}"), "log_tail": if run.log.is_empty() { vec![] } else { tail(last) }}),
            );
            ctx.count("sessions_panicked");
        }
        End::Returned(Ok(v)) => {
            ctx.count("sessions_completed_ok");
            let got: Vec<u64> = v.iter().map(|h| h.height()).collect();
            let want: Vec<u64> = (a..=b).collect();
            if got != want {
                let kind = if got.len() < want.len() {
                    "result/heights-missing"
                } else if got.len() > want.len() {
                    "result/heights-duplicated-or-extra"
                } else {
                    "result/heights-not-ascending-range"
                };
                let first_diff = got.iter().zip(want.iter()).position(|(g, w)| g != w).unwrap_or(got.len().min(want.len()));
                if fired.insert(kind) {
                    ctx.violation(
                        &format!("C26/{kind}"),
                        &format!(
                            "session for {a}..={b} returned {} headers; first difference at index {first_diff}: got {:?}, expected {:?}",
                            got.len(),
                            got.get(first_diff),
                            want.get(first_diff)
                        ),
                        json!({"case": case, "range": [a, b], "plan": format!("{plan:?}"),
                               "got_heights_around": got[first_diff.saturating_sub(3)..(first_diff + 4).min(got.len())],
                               "log_tail": if run.log.is_empty() { vec![] } else { tail(last) }}),
                    );
                }
            } else if let Some(bad) = v.iter().find(|h| chain.get(h.height()).map(|c| c.hash()) != Some(h.hash())) {
                if fired.insert("result/header-not-from-responses") {
                    ctx.violation(
                        "C26/result/header-not-from-responses",
                        &format!("header at height {} is not the one that was delivered", bad.height()),
                        json!({"case": case, "range": [a, b], "plan": format!("{plan:?}")}),
                    );
                }
            }
        }
        End::Returned(Err(e)) => {
            // Not a completion the text speaks about; counted (coverage floor on Ok completions).
            ctx.count("sessions_returned_err");
            ctx.count(&format!("sessions_returned_err/{}", err_name(e)));
        }
        End::Stalled => {
            ctx.count("sessions_stalled");
        }
        End::BudgetExceeded => {
            ctx.count("sessions_request_budget_exceeded");
            if fired.insert("progress/request-budget-exceeded") {
                ctx.violation(
                    "C26/progress/request-budget-exceeded",
                    &format!(
                        "session for {a}..={b} issued {} requests (> len + faults + 16) although every answer after {} faults was honest and complete",
                        run.requests, run.faults
                    ),
                    json!({"case": case, "range": [a, b], "plan": format!("{plan:?}"), "log_tail": tail(last)}),
                );
            }
        }
    }
}

fn pick_len(rng: &mut impl Rng) -> u64 {
    match rng.gen_range(0..10) {
        0 => rng.gen_range(1..=8),
        1 => *[1u64, 7, 8, 9, 15, 16, 17, 63, 64, 65, 127, 128, 129, 511, 512, 513, 519, 520, 521, 576, 577, 1024, 1999, 2000]
            .choose(rng)
            .unwrap(),
        2 | 3 => rng.gen_range(1..=80),
        4 | 5 => rng.gen_range(60..=600),
        _ => rng.gen_range(1..=2000),
    }
}

pub fn run(ctx: &Ctx) {
    ctx.rule(
        "Sessions over ranges of length 1..2000 (boundary pool around 8/64/512/520 + uniform) at random offsets \
         into one honest 2100-header chain, plus short ranges ending at height i64::MAX; the scheduler answers \
         outstanding requests FIFO/LIFO/random/batched, with fault probability in {0,.1,.3,.6,.9} and a finite \
         fault budget (empty prefix, strict prefix, one of 5 header-ex errors), then honestly. Non-trivial = \
         session with >=1 injected fault or >=1 out-of-order answer; distinct by hash of the request/response log.",
    );
    ctx.assume("HeaderSession does not inspect header contents beyond height(); one shared honest chain is enough");
    ctx.assume("schedules are restricted to the class in the statement: prefix of the request (possibly empty) or a header-ex error");

    // One shared honest chain (1 validator: signing is the only real cost).
    let chain = Chain::generate(ctx.rng(100, 0), "verif-c26", &[10], 1, 2100);
    let hi_n = 200u64;
    let hi_chain = Chain::generate(ctx.rng(100, 1), "verif-c26-hi", &[10], i64::MAX as u64 - hi_n + 1, hi_n);

    let sessions = ctx.scale(1_600u64, 40_000u64);
    let shards = ctx.cores();
    ctx.par(shards, |shard| {
        let rt = runtime();
        for case in (shard as u64..sessions).step_by(shards) {
            let mut rng = ctx.rng(1, case);
            let high = case % 12 == 11;
            let ch = if high { &hi_chain } else { &chain };
            let max_len = ch.headers.len() as u64;
            let len = pick_len(&mut rng).min(if high { 150 } else { 2000 });
            let off = if high && rng.gen_bool(0.5) {
                max_len - len // range ends at i64::MAX
            } else {
                rng.gen_range(0..=max_len - len)
            };
            let a = ch.first + off;
            let b = a + len - 1;
            let order = *[Order::Fifo, Order::Lifo, Order::Random, Order::Random, Order::Batched].choose(&mut rng).unwrap();
            let fault_prob = *[0.0, 0.1, 0.3, 0.6, 0.9].choose(&mut rng).unwrap();
            let fault_budget = if fault_prob == 0.0 { 0 } else { rng.gen_range(1..=(len / 4 + 12)) };
            let plan = Plan { a, b, order, fault_prob, fault_budget };

            let run = rt.block_on(tokio::task::unconstrained(drive(ch, &plan, &mut rng)));
            ctx.eval();
            check(ctx, ch, &plan, case, &run);

            ctx.count("sessions");
            ctx.count_n("requests", run.requests);
            ctx.count_n("faults_injected", run.faults);
            ctx.count_n("answers_out_of_order", run.out_of_order);
            if run.max_outstanding >= 8 {
                ctx.count("sessions_with_8_outstanding");
            }
            if high {
                ctx.count("sessions_near_i64max");
            }
            if len > 512 {
                ctx.count("sessions_len>512");
            }
            if len <= 8 {
                ctx.count("sessions_len<=8");
            }
            for ev in &run.log {
                if let Ev::Resp { kind, .. } = ev {
                    ctx.count(&format!("resp/{kind}"));
                }
            }
            if run.faults > 0 || run.out_of_order > 0 {
                let key: Vec<String> = run.log.iter().map(|e| format!("{e:?}")).collect();
                ctx.nontrivial(&key);
            }
            ctx.sample(|| {
                json!({"range": [a, b], "plan": format!("{plan:?}"), "requests": run.requests, "faults": run.faults,
                       "out_of_order_answers": run.out_of_order,
                       "log_head": run.log.iter().take(12).map(|e| format!("{e:?}")).collect::<Vec<_>>()})
            });
        }
    });

    let stalled = ctx.counter("sessions_stalled");
    if stalled > 0 {
        ctx.inconclusive(&format!(
            "{stalled} session(s) stalled (run() pending with no outstanding request): no verdict possible on a session that does not complete"
        ));
    }
    ctx.floor("sessions_completed_ok", sessions * 9 / 10);
    ctx.floor("resp/prefix:empty", sessions / 8);
    ctx.floor("resp/prefix:strict", sessions / 8);
    ctx.floor("resp/err:HeaderNotFound", sessions / 40);
    ctx.floor("resp/err:InvalidRequest", sessions / 40);
    ctx.floor("answers_out_of_order", sessions);
    ctx.floor("sessions_with_8_outstanding", sessions / 4);
    ctx.floor("sessions_len>512", sessions / 8);
}
