//! C28 — the header-ex client accepts only well-formed, validated responses.
//!
//! The real (private) `decode_and_verify_responses` is called, through the hook
//! `lumina_node::verif::header_ex::decode_and_verify_responses`, with random height / hash / head
//! requests and response lists composed of entries whose status is known *by construction*:
//! valid headers of an honest chain, valid headers of a foreign chain, headers that fail validation
//! (six tamper families, each breaking one consistency relation `ExtendedHeader::validate` states),
//! undecodable bodies, not-found / invalid / unknown status codes (with and without a body);
//! duplicated, shuffled, gapped, oversized, wrong-start lists; starts near u64::MAX.
//!
//! Oracle = the property text, applied to the *output* only:
//! `Ok(v)` for a height request (origin > 0) ⇒ v non-empty, |v| <= amount, heights exactly
//! start, start+1, ... and every element is (equal to) a status-OK entry of the response list that is
//! valid by construction; hash request ⇒ |v| = 1, that hash, element valid and from the response;
//! head request (origin 0) ⇒ |v| = 1, element valid and from the response; request without data ⇒
//! never `Ok`. `Err` is always allowed (the text only says what may be *accepted*); coverage floors
//! make sure both outcomes were seen. A panic is a violation.
//! A validated prefix followed by rubbish being accepted as that prefix is allowed by the text.

#[path = "c26_util.rs"]
mod c26_util;

use c26_util::{Chain, describe_request, guarded, runtime};
use celestia_proto::p2p::pb::header_request::Data;
use celestia_proto::p2p::pb::{HeaderRequest, HeaderResponse, StatusCode};
use celestia_types::{DataAvailabilityHeader, ExtendedHeader};
use lumina_node::verif::header_ex::decode_and_verify_responses;
use tendermint_proto::Protobuf;
use vcore::{Ctx, Rng, SliceRandom, json, panic_site};

const TAMPERS: [&str; 6] = ["dah-cleared", "time-changed", "commit-sig-flipped", "validator-set-swapped", "commit-height-changed", "height-changed"];

/// Make `h` fail validation by breaking exactly one stated consistency relation.
fn tamper(h: &mut ExtendedHeader, kind: &str, other: &ExtendedHeader) {
    match kind {
        // dah.hash() != header.data_hash
        "dah-cleared" => h.dah = DataAvailabilityHeader::new_unchecked(Vec::new(), Vec::new()),
        // header.hash() != commit.block_id.hash (hash() still reports the original hash)
        "time-changed" => h.header.time = (h.header.time + std::time::Duration::from_secs(1)).unwrap(),
        // signature of the strongest validator (needed for 2/3 with powers 10/7) does not verify
        "commit-sig-flipped" => {
            use tendermint::block::CommitSig;
            if let CommitSig::BlockIdFlagCommit { signature, .. } = &mut h.commit.signatures[0] {
                let mut b = signature.clone().unwrap().into_bytes();
                b[5] ^= 0x40;
                *signature = Some(tendermint::Signature::new(b).unwrap().unwrap());
            }
        }
        // validator_set.hash() != header.validators_hash
        "validator-set-swapped" => h.validator_set = other.validator_set.clone(),
        // commit.height != header.height
        "commit-height-changed" => h.commit.height = (h.commit.height.value() - 1).max(1).try_into().unwrap(),
        // header claims another height: header.hash() != commit.block_id.hash, commit.height != height
        "height-changed" => h.header.height = (h.header.height.value() - 1).max(1).try_into().unwrap(),
        _ => unreachable!(),
    }
}

fn ok_response(h: &ExtendedHeader) -> HeaderResponse {
    HeaderResponse { body: h.clone().encode_vec(), status_code: StatusCode::Ok.into() }
}

/// One response entry plus what the construction knows about it.
#[derive(Clone)]
struct Entry {
    resp: HeaderResponse,
    /// `Some(h)`: status OK and body = encoding of `h`, which is valid by construction.
    acceptable: Option<ExtendedHeader>,
    /// `Some(h)`: status OK, body decodes to `h`, which is invalid by construction.
    tampered: Option<ExtendedHeader>,
    tag: String,
}

struct Fx {
    a: Chain,
    /// foreign chain: other chain id, other validators, same heights as `a`
    b: Chain,
    /// honest chain whose last header has height i64::MAX (largest height a header can carry)
    hi: Chain,
    enc_a: Vec<HeaderResponse>,
    enc_b: Vec<HeaderResponse>,
    enc_hi: Vec<HeaderResponse>,
    /// set when a tampered instance unexpectedly validates (fixture problem => inconclusive)
    tamper_validated: std::sync::Mutex<Option<String>>,
}

impl Fx {
    fn valid(&self, which: u8, height: u64) -> Option<Entry> {
        let (c, e, name) = match which {
            0 => (&self.a, &self.enc_a, "valid"),
            1 => (&self.b, &self.enc_b, "foreign"),
            _ => (&self.hi, &self.enc_hi, "valid-hi"),
        };
        let h = c.get(height)?;
        Some(Entry {
            resp: e[(height - c.first) as usize].clone(),
            acceptable: Some(h.clone()),
            tampered: None,
            tag: format!("{name}@{height}"),
        })
    }

    fn chain(&self, which: u8) -> &Chain {
        match which {
            0 => &self.a,
            1 => &self.b,
            _ => &self.hi,
        }
    }

    fn invalid(&self, which: u8, height: u64, rng: &mut impl Rng) -> Option<Entry> {
        let c = self.chain(which);
        let mut h = c.get(height)?.clone();
        let kind = *TAMPERS.choose(rng).unwrap();
        // a validator set that differs from c's: the other chain's
        let other = if which == 1 { &self.a.headers[0] } else { &self.b.headers[0] };
        tamper(&mut h, kind, other);
        if h.validate().is_ok() {
            *self.tamper_validated.lock().unwrap() = Some(format!("{kind}@{height}"));
        }
        let resp = ok_response(&h);
        // what a decoder sees (None: the tampered header does not even decode)
        let tampered = ExtendedHeader::decode(&resp.body[..]).ok();
        Some(Entry { resp, acceptable: None, tampered, tag: format!("invalid:{kind}@{height}") })
    }

    fn junk(&self, which: u8, height: u64, rng: &mut impl Rng) -> Entry {
        let c = self.chain(which);
        let body_of = |h: u64| c.get(h).map(|x| x.clone().encode_vec()).unwrap_or_default();
        let (resp, tag) = match rng.gen_range(0..8) {
            0 => (HeaderResponse { body: vec![], status_code: StatusCode::NotFound.into() }, "not-found".to_string()),
            1 => (HeaderResponse { body: body_of(height), status_code: StatusCode::NotFound.into() }, format!("not-found+valid-body@{height}")),
            2 => (HeaderResponse { body: vec![], status_code: StatusCode::Invalid.into() }, "status-invalid".to_string()),
            3 => (HeaderResponse { body: body_of(height), status_code: StatusCode::Invalid.into() }, format!("status-invalid+valid-body@{height}")),
            4 => (HeaderResponse { body: body_of(height), status_code: *[3, 7, -1, 100].choose(rng).unwrap() }, format!("unknown-status+valid-body@{height}")),
            5 => (HeaderResponse { body: vec![], status_code: StatusCode::Ok.into() }, "ok+empty-body".to_string()),
            6 => {
                let mut b = body_of(height);
                let cut = if b.is_empty() { 0 } else { rng.gen_range(0..b.len()) };
                b.truncate(cut);
                // a strict truncation always loses bytes of the last field (the DAH): undecodable,
                // or a header whose DAH no longer matches data_hash
                let tampered = ExtendedHeader::decode(&b[..]).ok();
                return Entry {
                    resp: HeaderResponse { body: b, status_code: StatusCode::Ok.into() },
                    acceptable: None,
                    tampered,
                    tag: format!("invalid:ok+truncated-body@{height}"),
                };
            }
            _ => {
                let len = rng.gen_range(1..400);
                (HeaderResponse { body: vcore::rand_bytes(rng, len), status_code: StatusCode::Ok.into() }, "ok+garbage-body".to_string())
            }
        };
        Entry { resp, acceptable: None, tampered: None, tag }
    }
}

#[derive(Clone, Copy, Debug, PartialEq, Eq, Hash)]
enum ReqKind {
    Height,
    Hash,
    Head,
    NoData,
}

impl ReqKind {
    fn name(self) -> &'static str {
        match self {
            ReqKind::Height => "height-request",
            ReqKind::Hash => "hash-request",
            ReqKind::Head => "head-request",
            ReqKind::NoData => "no-data-request",
        }
    }
}

fn kind_of(req: &HeaderRequest) -> ReqKind {
    match &req.data {
        None => ReqKind::NoData,
        Some(Data::Hash(_)) => ReqKind::Hash,
        Some(Data::Origin(0)) => ReqKind::Head,
        Some(Data::Origin(_)) => ReqKind::Height,
    }
}

/// The real client only hands requests that pass this to `decode_and_verify_responses`.
fn passes_is_valid(req: &HeaderRequest) -> bool {
    if req.amount == 0 || usize::try_from(req.amount).is_err() {
        return false;
    }
    match &req.data {
        None => false,
        Some(Data::Origin(0)) => req.amount == 1,
        Some(Data::Hash(h)) => h.len() == 32 && req.amount == 1,
        Some(Data::Origin(_)) => true,
    }
}

struct Case {
    family: &'static str,
    request: HeaderRequest,
    entries: Vec<Entry>,
}

/// Consecutive valid run `start..start+k` from chain `which` (stops where the chain ends).
fn run_of(fx: &Fx, which: u8, start: u64, k: u64) -> Vec<Entry> {
    (0..k).filter_map(|i| start.checked_add(i).and_then(|h| fx.valid(which, h))).collect()
}

fn gen_height_case(fx: &Fx, rng: &mut impl Rng) -> Case {
    // which chain serves, where the request starts
    let near_max = rng.gen_bool(0.18);
    let which: u8 = if near_max { 2 } else { 0 };
    let c = fx.chain(which);
    let amount: u64 = match rng.gen_range(0..6) {
        0 => 1,
        1 => 2,
        2 => rng.gen_range(1..=4),
        3 => *[64u64, 512, u64::MAX, 1 << 40].choose(rng).unwrap(),
        _ => rng.gen_range(1..=12),
    };
    let k_max = amount.min(12);
    let start = rng.gen_range(c.first + 2..=c.tip().saturating_sub(k_max + 2).max(c.first + 2));
    let k = rng.gen_range(1..=k_max);
    let mut entries = run_of(fx, which, start, k);
    let mut request = HeaderRequest { data: Some(Data::Origin(start)), amount };

    let families: [&'static str; 16] = [
        "honest", "honest", "shuffled", "reversed", "prefix-then-bad", "bad-first", "bad-middle", "duplicated",
        "gapped", "oversized", "wrong-start", "foreign", "mixed-foreign", "random-mutations", "empty", "start-overflow",
    ];
    let mut family = *families.choose(rng).unwrap();
    match family {
        "honest" => {}
        "shuffled" => entries.shuffle(rng),
        "reversed" => entries.reverse(),
        "prefix-then-bad" => {
            let at = rng.gen_range(1..=entries.len());
            let h = start + at as u64;
            let bad = if rng.gen_bool(0.5) { fx.invalid(which, h, rng).unwrap_or_else(|| fx.junk(which, h, rng)) } else { fx.junk(which, h, rng) };
            entries.insert(at, bad);
            if request.amount < entries.len() as u64 {
                request.amount = entries.len() as u64 + rng.gen_range(0..3);
            }
        }
        "bad-first" => {
            let bad = if rng.gen_bool(0.5) { fx.invalid(which, start, rng).unwrap() } else { fx.junk(which, start, rng) };
            if rng.gen_bool(0.5) {
                entries[0] = bad;
            } else {
                entries.insert(0, bad);
                request.amount = request.amount.max(entries.len() as u64);
            }
        }
        "bad-middle" => {
            let at = rng.gen_range(0..entries.len());
            let h = start + at as u64;
            entries[at] = if rng.gen_bool(0.6) { fx.invalid(which, h, rng).unwrap() } else { fx.junk(which, h, rng) };
        }
        "duplicated" => {
            let at = rng.gen_range(0..entries.len());
            let d = entries[at].clone();
            let pos = rng.gen_range(0..=entries.len());
            entries.insert(pos, d);
            request.amount = request.amount.max(entries.len() as u64);
        }
        "gapped" => {
            entries = run_of(fx, which, start, k + 2);
            let at = rng.gen_range(1..entries.len() - 1);
            entries.remove(at);
            request.amount = request.amount.max(entries.len() as u64 + 1);
            if rng.gen_bool(0.3) {
                entries.shuffle(rng);
            }
        }
        "oversized" => {
            let extra = rng.gen_range(1..=3);
            entries = run_of(fx, which, start, k + extra);
            request.amount = k.max(1);
            if rng.gen_bool(0.3) {
                entries.shuffle(rng);
            }
        }
        "wrong-start" => {
            let delta = *[1i64, -1, 2, -2, k as i64].choose(rng).unwrap();
            let s = (start as i64 + delta) as u64;
            entries = run_of(fx, which, s, k);
        }
        "foreign" if which == 0 => entries = run_of(fx, 1, start, k),
        "mixed-foreign" if which == 0 => {
            for (i, e) in entries.iter_mut().enumerate() {
                if rng.gen_bool(0.5) {
                    *e = fx.valid(1, start + i as u64).unwrap();
                }
            }
        }
        "foreign" | "mixed-foreign" => family = "honest",
        "empty" => entries.clear(),
        "start-overflow" => {
            // `start + number of headers` does not fit in a u64; no header can carry such a height,
            // so nothing may be accepted
            let n = entries.len() as u64;
            let s = if rng.gen_bool(0.75) {
                u64::MAX - rng.gen_range(0..n)
            } else {
                // just below the overflow: fits, but no header can have such a height
                u64::MAX - n - rng.gen_range(0..3)
            };
            request = HeaderRequest { data: Some(Data::Origin(s)), amount: request.amount.max(n) };
            if rng.gen_bool(0.5) {
                // answer with the highest headers that can exist
                entries = run_of(fx, 2, fx.hi.tip() - n + 1, n);
            }
        }
        _ => {
            for _ in 0..rng.gen_range(1..=3) {
                let len = entries.len();
                match rng.gen_range(0..8) {
                    0 => entries.shuffle(rng),
                    1 if len > 0 => {
                        let at = rng.gen_range(0..len);
                        let d = entries[at].clone();
                        entries.push(d);
                    }
                    2 if len > 1 => {
                        entries.remove(rng.gen_range(0..len));
                    }
                    3 => {
                        let h = start + rng.gen_range(0..=k);
                        let e = fx.junk(which, h, rng);
                        entries.insert(rng.gen_range(0..=len), e);
                    }
                    4 => {
                        let h = start + rng.gen_range(0..=k);
                        if let Some(e) = fx.invalid(which, h, rng) {
                            entries.insert(rng.gen_range(0..=len), e);
                        }
                    }
                    5 if len > 0 => {
                        let at = rng.gen_range(0..len);
                        if let Some(e) = fx.valid(if which == 0 { 1 } else { which }, start + at as u64) {
                            entries[at] = e;
                        }
                    }
                    6 => entries.truncate(rng.gen_range(0..=len)),
                    _ => {
                        if let Some(e) = fx.valid(which, start + k + rng.gen_range(0..3)) {
                            entries.push(e);
                        }
                    }
                }
            }
            if rng.gen_bool(0.5) {
                request.amount = request.amount.max(entries.len() as u64);
            }
        }
    }
    Case { family, request, entries }
}

fn gen_hash_case(fx: &Fx, rng: &mut impl Rng) -> Case {
    let c = &fx.a;
    let h = rng.gen_range(c.first + 1..c.tip());
    let target = c.get(h).unwrap();
    let request = HeaderRequest { data: Some(Data::Hash(target.hash().as_bytes().to_vec())), amount: 1 };
    let (family, entries): (&'static str, Vec<Entry>) = match rng.gen_range(0..9) {
        0 | 1 => ("hash:honest", vec![fx.valid(0, h).unwrap()]),
        2 => ("hash:other-header", vec![fx.valid(0, h + 1).unwrap()]),
        3 => ("hash:foreign-same-height", vec![fx.valid(1, h).unwrap()]),
        // `time-changed` etc. keep commit.block_id.hash, so hash() still equals the requested hash
        4 => ("hash:tampered-same-hash", vec![fx.invalid(0, h, rng).unwrap()]),
        5 => ("hash:junk", vec![fx.junk(0, h, rng)]),
        6 => ("hash:two-headers", vec![fx.valid(0, h).unwrap(), fx.valid(0, h + 1).unwrap()]),
        7 => ("hash:twice-the-header", vec![fx.valid(0, h).unwrap(), fx.valid(0, h).unwrap()]),
        _ => ("hash:empty", vec![]),
    };
    Case { family, request, entries }
}

fn gen_head_case(fx: &Fx, rng: &mut impl Rng) -> Case {
    let which = *[0u8, 0, 1, 2].choose(rng).unwrap();
    let c = fx.chain(which);
    let h = rng.gen_range(c.first + 1..c.tip());
    let request = HeaderRequest { data: Some(Data::Origin(0)), amount: 1 };
    let (family, entries): (&'static str, Vec<Entry>) = match rng.gen_range(0..7) {
        0 | 1 => ("head:honest", vec![fx.valid(which, h).unwrap()]),
        2 => ("head:tip", vec![fx.valid(which, c.tip()).unwrap()]),
        3 => ("head:tampered", vec![fx.invalid(which, h, rng).unwrap()]),
        4 => ("head:junk", vec![fx.junk(which, h, rng)]),
        5 => ("head:two-headers", vec![fx.valid(which, h).unwrap(), fx.valid(which, h + 1).unwrap()]),
        _ => ("head:empty", vec![]),
    };
    Case { family, request, entries }
}

/// Requests the real client refuses before sending (never reach the function through the client);
/// the text's conditions are still what is checked.
fn gen_refused_case(fx: &Fx, rng: &mut impl Rng) -> Case {
    let h = rng.gen_range(fx.a.first + 1..fx.a.tip() - 4);
    let k = rng.gen_range(1..=3);
    let entries = run_of(fx, 0, h, k);
    let target = fx.a.get(h).unwrap().hash().as_bytes().to_vec();
    let request = match rng.gen_range(0..6) {
        0 => HeaderRequest { data: None, amount: rng.gen_range(0..4) },
        1 => HeaderRequest { data: Some(Data::Origin(h)), amount: 0 },
        2 => HeaderRequest { data: Some(Data::Origin(0)), amount: rng.gen_range(2..5) },
        3 => HeaderRequest { data: Some(Data::Hash(target)), amount: rng.gen_range(2..5) },
        4 => HeaderRequest { data: Some(Data::Hash(target[..rng.gen_range(0..32)].to_vec())), amount: 1 },
        _ => HeaderRequest { data: Some(Data::Hash(target)), amount: 0 },
    };
    Case { family: "refused-by-is_valid", request, entries }
}

fn check(ctx: &Ctx, case_no: u64, case: &Case, res: &Result<Result<Vec<ExtendedHeader>, String>, String>) {
    let req = &case.request;
    let kind = kind_of(req);
    let reachable = passes_is_valid(req);
    let suffix = if reachable { "" } else { "/request-refused-by-is_valid" };
    let n = case.entries.len() as u64;
    let start_overflows = matches!(&req.data, Some(Data::Origin(s)) if *s > 0 && s.checked_add(n).is_none());
    let detail = || {
        json!({
            "case": case_no, "family": case.family, "request": describe_request(req),
            "responses": case.entries.iter().map(|e| e.tag.clone()).collect::<Vec<_>>(),
            "result": match res { Ok(Ok(v)) => format!("Ok(heights {:?})", v.iter().map(|h| h.height()).collect::<Vec<_>>()), Ok(Err(e)) => format!("Err({e})"), Err(p) => format!("panic: {p}") },
        })
    };
    let v = match res {
        Err(p) => {
            let class = if start_overflows { "start+len-overflows/" } else { "" };
            ctx.count(&format!("panic/{}", kind.name()));
            ctx.violation(
                &format!("C28/{}/panic/{class}{}{suffix}", kind.name(), panic_site(p)),
                &format!("decode_and_verify_responses panicked on {} with {} responses: {p}", describe_request(req), n),
                detail(),
            );
            return;
        }
        Ok(Err(_)) => {
            ctx.count(&format!("rejected/{}", kind.name()));
            ctx.count(&format!("family/{}/rejected", case.family));
            return;
        }
        Ok(Ok(v)) => v,
    };
    ctx.count(&format!("accepted/{}", kind.name()));
    ctx.count(&format!("family/{}/accepted", case.family));
    if (v.len() as u64) < n {
        ctx.count("accepted/as-validated-prefix-of-longer-list");
    }
    let viol = |sig: String, msg: String| ctx.violation(&format!("C28/{}/{sig}{suffix}", kind.name()), &msg, detail());

    if kind == ReqKind::NoData {
        viol("accepts".into(), format!("request without data accepted {} headers", v.len()));
        return;
    }
    if v.is_empty() {
        viol("accepts-empty".into(), "accepted an empty list of headers".into());
        return;
    }
    // every accepted header: status-OK entry of the response, valid by construction
    for h in v {
        if case.entries.iter().any(|e| e.acceptable.as_ref() == Some(h)) {
            continue;
        }
        if case.entries.iter().any(|e| e.tampered.as_ref() == Some(h)) {
            let tag = &case.entries.iter().find(|e| e.tampered.as_ref() == Some(h)).unwrap().tag;
            viol("accepts-header-failing-validation".into(), format!("accepted header from entry `{tag}`, which does not validate"));
        } else {
            viol(
                "accepts-header-not-from-an-ok-response".into(),
                format!("accepted header at height {} is not the content of any status-OK, valid entry of the response", h.height()),
            );
        }
        return;
    }
    match kind {
        ReqKind::Height => {
            let Some(Data::Origin(start)) = &req.data else { unreachable!() };
            if v.len() as u64 > req.amount {
                viol("accepts-more-than-amount".into(), format!("accepted {} headers for amount {}", v.len(), req.amount));
            }
            let ok = v.iter().enumerate().all(|(i, h)| *start as u128 + i as u128 == h.height() as u128);
            if !ok {
                let got: Vec<u64> = v.iter().map(|h| h.height()).collect();
                let class = if start_overflows { "/start+len-overflows" } else { "" };
                viol(
                    format!("accepts-wrong-heights{class}"),
                    format!("accepted heights {got:?} for a request starting at {start}"),
                );
            }
        }
        ReqKind::Hash => {
            let Some(Data::Hash(hash)) = &req.data else { unreachable!() };
            if v.len() != 1 {
                viol("accepts-multiple".into(), format!("accepted {} headers for a hash request", v.len()));
            } else if v[0].hash().as_bytes() != &hash[..] || v[0].header.hash().as_bytes() != &hash[..] {
                viol("accepts-wrong-hash".into(), format!("accepted header {} for requested hash {}", v[0].hash(), vcore::hex(hash)));
            }
        }
        ReqKind::Head => {
            if v.len() != 1 {
                viol("accepts-multiple".into(), format!("accepted {} headers for a head request", v.len()));
            }
        }
        ReqKind::NoData => {}
    }
}

pub fn run(ctx: &Ctx) {
    ctx.rule(
        "Height requests (70%: amount 1..12, 64, 512, 2^40, u64::MAX; start on an honest 2-validator chain, \
         18% on a chain ending at height i64::MAX, plus starts u64::MAX-k) x 16 list families (honest, shuffled, \
         reversed, prefix-then-bad, bad-first, bad-middle, duplicated, gapped, oversized, wrong-start, foreign, \
         mixed-foreign, random mutations, empty, start+len overflow); hash requests (12%), head requests (12%), \
         requests the client refuses up front (6%). Bad entries: 6 tamper families failing validation, 8 junk \
         families (status/body). Non-trivial = list with >=1 entry; distinct by hash of (request, entry tags).",
    );
    ctx.assume("entries are classified by construction; the fixtures' classification is cross-checked once against ExtendedHeader::validate (disagreement => inconclusive, it is C01's subject)");
    ctx.assume("`accepted` only constrains outputs: Err is never a violation; accept/reject floors guard against a vacuous pass");
    ctx.extra("profile_overflow_checks", json!(cfg!(debug_assertions)));

    let n = 96u64;
    let a = Chain::generate(ctx.rng(100, 0), "verif-c28", &[10, 7], 5000, n);
    let b = Chain::generate(ctx.rng(100, 1), "foreign-c28", &[9, 8], 5000, n);
    let hi = Chain::generate(ctx.rng(100, 2), "verif-c28", &[10, 7], i64::MAX as u64 - n + 1, n);
    // Canonical form = what a decoder yields for the encoded header (the comparison "is this
    // accepted header the content of that response entry" is made on decoded values).
    let mut not_roundtrip = 0u64;
    let mut canon = |mut c: Chain| {
        for h in c.headers.iter_mut() {
            let d = ExtendedHeader::decode(&h.clone().encode_vec()[..]).expect("honest header decodes");
            if d != *h {
                not_roundtrip += 1;
                *h = d;
            }
        }
        c
    };
    let (a, b, hi) = (canon(a), canon(b), canon(hi));
    ctx.extra("fixture_headers_changed_by_protobuf_roundtrip", json!(not_roundtrip));
    let enc = |c: &Chain| c.headers.iter().map(ok_response).collect::<Vec<_>>();
    let fx = Fx { enc_a: enc(&a), enc_b: enc(&b), enc_hi: enc(&hi), a, b, hi, tamper_validated: Default::default() };

    // Cross-check the construction once: valid fixtures validate, every tamper family does not.
    for (name, c) in [("a", &fx.a), ("b", &fx.b), ("hi", &fx.hi)] {
        for h in &c.headers {
            if let Err(e) = h.validate() {
                ctx.inconclusive(&format!("fixture chain {name}: honest header {} does not validate: {e}", h.height()));
                return;
            }
        }
    }
    for kind in TAMPERS {
        for (c, other) in [(&fx.a, &fx.b), (&fx.hi, &fx.b), (&fx.b, &fx.a)] {
            let mut h = c.headers[7].clone();
            tamper(&mut h, kind, &other.headers[0]);
            let round = ExtendedHeader::decode(&h.clone().encode_vec()[..]);
            match round {
                Ok(d) if d.validate().is_ok() => {
                    ctx.inconclusive(&format!("fixture: tamper family {kind} still validates (C01 territory); cannot be used as ground truth"));
                    return;
                }
                _ => {}
            }
        }
    }

    let cases = ctx.scale(24_000u64, 300_000u64);
    let shards = ctx.cores();
    ctx.par(shards, |shard| {
        let rt = runtime();
        for case_no in (shard as u64..cases).step_by(shards) {
            let mut rng = ctx.rng(1, case_no);
            let case = match rng.gen_range(0..100) {
                0..70 => gen_height_case(&fx, &mut rng),
                70..82 => gen_hash_case(&fx, &mut rng),
                82..94 => gen_head_case(&fx, &mut rng),
                _ => gen_refused_case(&fx, &mut rng),
            };
            let responses: Vec<HeaderResponse> = case.entries.iter().map(|e| e.resp.clone()).collect();
            let res = rt.block_on(guarded(async {
                decode_and_verify_responses(&case.request, &responses).await.map_err(|e| e.to_string())
            }));
            ctx.eval();
            ctx.count(&format!("family/{}", case.family));
            for e in &case.entries {
                let t = e.tag.split('@').next().unwrap_or("");
                let t = t.split(':').next().unwrap_or(t);
                ctx.count(&format!("entry/{t}"));
            }
            if matches!(&case.request.data, Some(Data::Origin(s)) if *s > i64::MAX as u64) {
                ctx.count("start_above_i64max");
            }
            if !case.entries.is_empty() {
                let tags: Vec<&str> = case.entries.iter().map(|e| e.tag.as_str()).collect();
                ctx.nontrivial(&(describe_request(&case.request), tags));
            }
            check(ctx, case_no, &case, &res);
            ctx.sample(|| {
                json!({"family": case.family, "request": describe_request(&case.request),
                       "responses": case.entries.iter().map(|e| e.tag.clone()).collect::<Vec<_>>(),
                       "result": match &res { Ok(Ok(v)) => format!("Ok({} headers)", v.len()), Ok(Err(e)) => format!("Err({e})"), Err(p) => format!("panic {p}") }})
            });
        }
    });

    if let Some(t) = fx.tamper_validated.lock().unwrap().clone() {
        ctx.inconclusive(&format!("fixture: tampered header {t} validates; ground truth by construction does not hold (C01 territory)"));
    }
    for k in ["height-request", "hash-request", "head-request"] {
        ctx.floor(&format!("accepted/{k}"), cases / 100);
        ctx.floor(&format!("rejected/{k}"), cases / 100);
    }
    for f in ["honest", "shuffled", "prefix-then-bad", "bad-first", "duplicated", "gapped", "oversized", "wrong-start", "foreign", "start-overflow", "refused-by-is_valid"] {
        ctx.floor(&format!("family/{f}"), cases / 100);
    }
    ctx.floor("entry/invalid", cases / 20);
    ctx.floor("entry/foreign", cases / 40);
    ctx.floor("accepted/as-validated-prefix-of-longer-list", cases / 200);
    ctx.floor("start_above_i64max", cases / 100);
}
