//! C41 — closing the redb store waits for in-flight work without hanging.
//!
//! (a) the real `Counter` (hook `lumina_node::verif::{VCounter, VCounterGuard}`): 1..8 guards are
//!     dropped from real OS threads, `spawn_blocking` tasks and async tasks after random spin
//!     delays while `wait_guards` runs
//!       a1: on a multi-thread runtime (waiter is a spawned task),
//!       a2: on a current-thread runtime with the tokio clock paused.
//! (b) `RedbStore::close()` racing with 1..16 in-flight store operations (futures polled once so
//!     that their `spawn_blocking` transaction is issued, then dropped — the only way an operation
//!     can be in flight when `close(self)` consumes the store), over a redb `StorageBackend` that
//!     stamps every I/O call, on both runtime flavours.
//!
//! Safety oracle ("returns only after every task has finished"): one `SeqCst` sequence per round;
//! `task_end` is drawn *before* the guard is dropped, `wait_returned` *after* the wait returned.
//! Violation iff some `task_end > wait_returned`. (If the counter is correct the drop is ordered
//! before the waiter's observation of the count, and the two `fetch_add`s on the same atomic are
//! then ordered the same way — the stamping cannot invent that order; see report.) For (b) the
//! stamp of every backend call made by the in-flight transactions plays the role of `task_end`
//! ("no database I/O after close returned"), plus: the effects of all in-flight writes are present
//! right after close.
//!
//! Progress oracle ("does return once they have finished"): paused-clock variants decide by runtime
//! quiescence — tokio never auto-advances the paused clock while a `spawn_blocking` task is
//! outstanding or a task is runnable, so a *virtual* 1 h timeout around the wait fires only when
//! nothing can wake the waiter any more; it is confirmed by a second virtual hour after all
//! guards were seen dropped. Real-thread variants: a stall > 20 s is re-run once; violation only if
//! it reproduces, otherwise inconclusive.
//!
//! Exhaustive interleaving enumeration (the "model checking" half of the quantifier) is NOT done.

use std::future::Future;
use std::pin::Pin;
use std::sync::atomic::{AtomicBool, AtomicU32, AtomicU64, Ordering::SeqCst};
use std::sync::{Arc, mpsc};
use std::task::{Context, Poll};
use std::time::{Duration, Instant};

use lumina_node::verif::{VCounter, VCounterGuard};
use vcore::{Ctx, Rng, hash64, json};

/// Real-time stall bound (never a verdict on its own: a stall is re-run once). Interpreters and
/// sanitizers slow everything down by orders of magnitude, so the bound grows with them.
fn stall() -> Duration {
    static S: std::sync::OnceLock<Duration> = std::sync::OnceLock::new();
    *S.get_or_init(|| {
        let on = |k: &str| std::env::var(k).is_ok_and(|v| v == "1");
        Duration::from_secs(if on("VERIF_TINY") { 1800 } else if on("VERIF_SAN") { 180 } else { 20 })
    })
}
const VIRTUAL_HOUR: Duration = Duration::from_secs(3600);

fn spin(n: u32) {
    for i in 0..n {
        std::hint::spin_loop();
        if i % 64 == 63 {
            std::thread::yield_now();
        }
    }
}

// ---------------------------------------------------------------------------------------------
// (a) Counter
// ---------------------------------------------------------------------------------------------

#[derive(Clone, Copy, Debug, PartialEq, Eq, Hash)]
enum Dropper {
    /// plain OS thread
    Thread,
    /// `tokio::task::spawn_blocking`
    Blocking,
    /// async task on the same runtime, dropping after some yields
    Task,
    /// dropped before the wait starts
    Early,
}

struct Round {
    seq: AtomicU64,
    go: AtomicBool,
    ends: [AtomicU64; 8],
    done: AtomicU64,
}

impl Round {
    fn new() -> Arc<Round> {
        Arc::new(Round {
            seq: AtomicU64::new(0),
            go: AtomicBool::new(false),
            ends: Default::default(),
            done: AtomicU64::new(0),
        })
    }
    fn stamp(&self) -> u64 {
        self.seq.fetch_add(1, SeqCst) + 1
    }
    /// The body of every dropper: stamp just BEFORE the guard drops.
    fn release(&self, i: usize, g: VCounterGuard) {
        let t = self.stamp();
        drop(g);
        self.ends[i].store(t, SeqCst);
        self.done.fetch_add(1, SeqCst);
    }
    fn wait_go(&self) {
        let mut i = 0u32;
        while !self.go.load(SeqCst) {
            std::hint::spin_loop();
            i += 1;
            if i % 16 == 0 {
                std::thread::yield_now();
            }
        }
    }
}

type Job = Box<dyn FnOnce() + Send>;

/// Persistent OS threads (spawning a thread per guard would dominate the round).
struct ThreadPool {
    txs: Vec<mpsc::Sender<Job>>,
    handles: Vec<std::thread::JoinHandle<()>>,
    per_job_threads: bool,
}

impl ThreadPool {
    fn new(n: usize, per_job_threads: bool) -> ThreadPool {
        let mut txs = Vec::new();
        let mut handles = Vec::new();
        if !per_job_threads {
            for _ in 0..n {
                let (tx, rx) = mpsc::channel::<Job>();
                txs.push(tx);
                handles.push(std::thread::spawn(move || {
                    while let Ok(job) = rx.recv() {
                        job();
                    }
                }));
            }
        }
        ThreadPool { txs, handles, per_job_threads }
    }
    fn run(&mut self, i: usize, job: Job) {
        if self.per_job_threads {
            // tiny mode: a fresh thread per guard, joined at the end of the round
            self.handles.push(std::thread::spawn(job));
        } else {
            let _ = self.txs[i % self.txs.len()].send(job);
        }
    }
    fn join_round(&mut self) {
        if self.per_job_threads {
            for h in self.handles.drain(..) {
                let _ = h.join();
            }
        }
    }
}

impl Drop for ThreadPool {
    fn drop(&mut self) {
        self.txs.clear();
        for h in self.handles.drain(..) {
            let _ = h.join();
        }
    }
}

#[derive(Debug)]
struct Plan {
    droppers: Vec<(Dropper, u32, u32)>, // kind, spin before drop, yields (Task)
    waiter_spin: u32,
}

fn plan(rng: &mut impl Rng, max_guards: usize, kinds: &[Dropper], max_spin: u32) -> Plan {
    let n = rng.gen_range(1..=max_guards);
    let aligned = rng.gen_bool(0.5);
    let droppers = (0..n)
        .map(|_| {
            let k = kinds[rng.gen_range(0..kinds.len())];
            let s = if aligned { rng.gen_range(0..8) } else { rng.gen_range(0..=max_spin) };
            (k, s, rng.gen_range(0..4))
        })
        .collect();
    Plan {
        droppers,
        waiter_spin: if aligned { rng.gen_range(0..8) } else { rng.gen_range(0..=max_spin) },
    }
}

enum Outcome {
    Done,
    /// real-time stall (re-run once)
    Stall(String),
    /// harness trouble
    Abort(String),
}

/// Launch the droppers of one round. Must be called inside the runtime.
fn launch(round: &Arc<Round>, counter: &VCounter, plan: &Plan, pool: &mut ThreadPool, ctx: &Ctx) {
    for (i, (kind, spins, yields)) in plan.droppers.iter().copied().enumerate() {
        let g = counter.guard();
        let r = round.clone();
        match kind {
            Dropper::Early => {
                r.release(i, g);
                ctx.count("guards_dropped_before_wait");
            }
            Dropper::Thread => {
                pool.run(
                    i,
                    Box::new(move || {
                        r.wait_go();
                        spin(spins);
                        r.release(i, g);
                    }),
                );
                ctx.count("guards_dropped_by_os_thread");
            }
            Dropper::Blocking => {
                tokio::task::spawn_blocking(move || {
                    r.wait_go();
                    spin(spins);
                    r.release(i, g);
                });
                ctx.count("guards_dropped_by_spawn_blocking");
            }
            Dropper::Task => {
                tokio::spawn(async move {
                    for _ in 0..yields {
                        tokio::task::yield_now().await;
                    }
                    spin(spins);
                    r.release(i, g);
                });
                ctx.count("guards_dropped_by_async_task");
            }
        }
    }
}

/// Safety check of one finished round + coverage bookkeeping.
fn check_round(ctx: &Ctx, variant: &str, case: u64, round: &Round, plan: &Plan, w0: u64, w: u64) {
    let n = plan.droppers.len();
    let ends: Vec<u64> = (0..n).map(|i| round.ends[i].load(SeqCst)).collect();
    ctx.eval();
    let late: Vec<usize> = (0..n).filter(|i| ends[*i] > w).collect();
    if !late.is_empty() {
        ctx.violation(
            "C41/Counter::wait_guards/returned-while-guard-held",
            &format!("{variant}: wait_guards returned (stamp {w}) before guard(s) {late:?} began to drop (task_end stamps {ends:?})"),
            json!({"variant": variant, "case": case, "plan": format!("{plan:?}"), "task_end": ends, "wait_started": w0, "wait_returned": w}),
        );
    }
    let overlapped = ends.iter().filter(|t| **t > w0).count();
    if overlapped > 0 {
        ctx.count(&format!("{variant}:rounds_waiter_had_to_wait"));
        ctx.count_n(&format!("{variant}:guards_dropped_during_wait"), overlapped as u64);
    } else {
        ctx.count(&format!("{variant}:rounds_all_guards_gone_before_wait"));
    }
    // observed schedule: kinds + order of drops relative to each other and to the start of the wait
    let mut order: Vec<(u64, usize)> = ends.iter().copied().zip(0..n).collect();
    order.sort();
    let kinds: Vec<Dropper> = plan.droppers.iter().map(|d| d.0).collect();
    ctx.nontrivial(&(variant, &kinds, order.iter().map(|x| x.1).collect::<Vec<_>>(), ends.iter().map(|t| *t > w0).collect::<Vec<_>>()));
    ctx.sample(|| json!({"variant": variant, "case": case, "kinds": format!("{kinds:?}"), "task_end": ends, "wait_started": w0, "wait_returned": w}));
}

/// a1: multi-thread runtime, waiter is a spawned task, real 20 s stall bound.
fn round_a1(ctx: &Ctx, rt: &tokio::runtime::Runtime, pool: &mut ThreadPool, case: u64, max_guards: usize, max_spin: u32) -> Outcome {
    let mut rng = ctx.rng(1, case);
    let kinds = [Dropper::Thread, Dropper::Thread, Dropper::Blocking, Dropper::Blocking, Dropper::Task, Dropper::Early];
    let plan = plan(&mut rng, max_guards, &kinds, max_spin);
    let n = plan.droppers.len() as u64;
    let round = Round::new();
    let out = rt.block_on(async {
        let mut counter = VCounter::new();
        launch(&round, &counter, &plan, pool, ctx);
        let r = round.clone();
        let ws = plan.waiter_spin;
        let waiter = tokio::spawn(async move {
            r.go.store(true, SeqCst);
            spin(ws);
            let w0 = r.stamp();
            counter.wait_guards().await;
            let w = r.stamp();
            // a second wait on the same counter must return at once
            counter.wait_guards().await;
            (w0, w)
        });
        match tokio::time::timeout(stall(), waiter).await {
            Ok(Ok((w0, w))) => {
                // all droppers must have reported before their stamps are read
                let t0 = Instant::now();
                while round.done.load(SeqCst) < n {
                    if t0.elapsed() > stall() {
                        return Err(Outcome::Abort("droppers did not finish within 20 s after the waiter returned".into()));
                    }
                    tokio::task::yield_now().await;
                }
                Ok((w0, w))
            }
            Ok(Err(e)) => Err(Outcome::Abort(format!("waiter task failed: {e}"))),
            Err(_) => {
                round.go.store(true, SeqCst);
                let done = round.done.load(SeqCst);
                Err(Outcome::Stall(format!("wait_guards still pending after 20 s; {done}/{n} guards dropped; plan {plan:?}")))
            }
        }
    });
    pool.join_round();
    match out {
        Ok((w0, w)) => {
            check_round(ctx, "a1", case, &round, &plan, w0, w);
            ctx.count("a1:rounds");
            Outcome::Done
        }
        Err(o) => o,
    }
}

/// a2: current-thread runtime, paused clock; progress decided by quiescence.
fn round_a2(ctx: &Ctx, rt: &tokio::runtime::Runtime, pool: &mut ThreadPool, case: u64, max_guards: usize, max_spin: u32, with_threads: bool) -> Outcome {
    let mut rng = ctx.rng(2, case);
    let kinds: &[Dropper] = if with_threads {
        &[Dropper::Blocking, Dropper::Blocking, Dropper::Thread, Dropper::Task, Dropper::Early]
    } else {
        &[Dropper::Blocking, Dropper::Blocking, Dropper::Blocking, Dropper::Task, Dropper::Early]
    };
    let plan = plan(&mut rng, max_guards, kinds, max_spin);
    let n = plan.droppers.len() as u64;
    let round = Round::new();
    let out = rt.block_on(async {
        let mut counter = VCounter::new();
        launch(&round, &counter, &plan, pool, ctx);
        round.go.store(true, SeqCst);
        spin(plan.waiter_spin);
        let w0 = round.stamp();
        let mut lost = false;
        {
            let fut = counter.wait_guards();
            tokio::pin!(fut);
            let started = Instant::now();
            let mut confirmed = false;
            loop {
                match tokio::time::timeout(VIRTUAL_HOUR, &mut fut).await {
                    Ok(()) => break,
                    Err(_) => {
                        // The paused clock only advances when no task is runnable and no spawn_blocking
                        // task is outstanding. OS threads are invisible to tokio: let them finish.
                        ctx.count("a2:virtual_watchdog_fired");
                        if round.done.load(SeqCst) < n {
                            if started.elapsed() > stall() {
                                return Err(Outcome::Abort("droppers still running after 20 s".into()));
                            }
                            std::thread::yield_now();
                            continue;
                        }
                        if !confirmed {
                            // every guard is gone and its notify call returned; one more virtual hour
                            confirmed = true;
                            continue;
                        }
                        lost = true;
                        break;
                    }
                }
            }
        }
        if lost {
            return Ok(None);
        }
        let w = round.stamp();
        let t0 = Instant::now();
        while round.done.load(SeqCst) < n {
            if t0.elapsed() > stall() {
                return Err(Outcome::Abort("droppers did not finish within 20 s after the waiter returned".into()));
            }
            tokio::task::yield_now().await;
        }
        Ok(Some((w0, w)))
    });
    pool.join_round();
    match out {
        Ok(Some((w0, w))) => {
            check_round(ctx, "a2", case, &round, &plan, w0, w);
            ctx.count("a2:rounds");
            Outcome::Done
        }
        Ok(None) => {
            let ends: Vec<u64> = (0..plan.droppers.len()).map(|i| round.ends[i].load(SeqCst)).collect();
            ctx.eval();
            ctx.violation(
                "C41/Counter::wait_guards/never-returns-after-last-guard-dropped",
                &format!(
                    "a2: all {n} guards were dropped (task_end stamps {ends:?}) but wait_guards was still pending when the runtime \
                     was quiescent (virtual watchdog fired twice after the last drop): lost wake-up"
                ),
                json!({"variant": "a2", "case": case, "plan": format!("{plan:?}"), "task_end": ends}),
            );
            Outcome::Done
        }
        Err(o) => o,
    }
}

// ---------------------------------------------------------------------------------------------
// (b) RedbStore::close
// ---------------------------------------------------------------------------------------------

mod redb_part {
    use super::*;
    use celestia_types::ExtendedHeader;
    use cid::Cid;
    use lumina_node::store::{RedbStore, Store, VerifiedExtendedHeaders};
    use redb::StorageBackend;
    use redb::backends::InMemoryBackend;
    use std::collections::{BTreeMap, BTreeSet};
    use std::io;

    #[derive(Default, Debug)]
    pub struct IoLog {
        seq: AtomicU64,
        last_any: AtomicU64,
        calls: AtomicU64,
        writes: AtomicU64,
        spin: AtomicU32,
    }

    impl IoLog {
        fn io(&self, write: bool) {
            let s = self.seq.fetch_add(1, SeqCst) + 1;
            self.last_any.fetch_max(s, SeqCst);
            self.calls.fetch_add(1, SeqCst);
            if write {
                self.writes.fetch_add(1, SeqCst);
            }
            spin(self.spin.load(SeqCst));
        }
        fn mark(&self) -> u64 {
            self.seq.fetch_add(1, SeqCst) + 1
        }
    }

    /// In-memory redb backend that stamps the *start* of every call.
    #[derive(Debug)]
    struct StampBackend {
        inner: InMemoryBackend,
        log: Arc<IoLog>,
    }

    impl StorageBackend for StampBackend {
        fn len(&self) -> Result<u64, io::Error> {
            self.log.io(false);
            self.inner.len()
        }
        fn read(&self, offset: u64, len: usize) -> Result<Vec<u8>, io::Error> {
            self.log.io(false);
            self.inner.read(offset, len)
        }
        fn set_len(&self, len: u64) -> Result<(), io::Error> {
            self.log.io(true);
            self.inner.set_len(len)
        }
        fn sync_data(&self, eventual: bool) -> Result<(), io::Error> {
            self.log.io(true);
            self.inner.sync_data(eventual)
        }
        fn write(&self, offset: u64, data: &[u8]) -> Result<(), io::Error> {
            self.log.io(true);
            self.inner.write(offset, data)
        }
    }

    fn cid_of(i: u64) -> Cid {
        let mut d = [0u8; 32];
        for k in 0..4u64 {
            d[(k * 8) as usize..(k * 8 + 8) as usize].copy_from_slice(&hash64(&(i, k, "c41-cid")).to_le_bytes());
        }
        Cid::new_v1(0x55, multihash::Multihash::<64>::wrap(0x12, &d).expect("multihash"))
    }

    #[derive(Clone, Debug)]
    enum Op {
        Meta(u64, u64),
        MarkSampled(u64),
        Insert(usize),
        GetHead,
        GetByHeight(u64),
        Ranges,
        HasAt(u64),
    }

    /// State the database must show once every operation issued so far has finished.
    #[derive(Default)]
    pub struct Expect {
        stored_upto: u64,
        sampled: BTreeSet<u64>,
        meta: BTreeMap<u64, BTreeSet<u64>>,
        next_cid: u64,
    }

    pub struct Shard {
        pub db: Arc<redb::Database>,
        pub log: Arc<IoLog>,
        pub headers: Vec<ExtendedHeader>,
        pub expect: Expect,
    }

    impl Shard {
        pub fn expect_stored(&self) -> u64 {
            self.expect.stored_upto
        }
    }

    pub fn new_shard(ctx: &Ctx, shard: u64, n_headers: usize) -> Result<Shard, String> {
        let log = Arc::new(IoLog::default());
        let backend = StampBackend { inner: InMemoryBackend::new(), log: log.clone() };
        let db = redb::Database::builder()
            .create_with_backend(backend)
            .map_err(|e| format!("redb create: {e}"))?;
        let time = vgen::chain::ChainGen::start_time_for(n_headers as u64, Duration::from_secs(6), Duration::from_secs(3600));
        let mut chain = vgen::chain::ChainGen::new(ctx.rng(20, shard), "c41-chain", 3, &[10], 1, time, Duration::from_secs(6));
        let headers = chain.next_many(n_headers as u64);
        Ok(Shard { db: Arc::new(db), log, headers, expect: Expect::default() })
    }

    fn batch(headers: &[ExtendedHeader], from: u64, n: usize) -> VerifiedExtendedHeaders {
        let v: Vec<ExtendedHeader> = headers[(from - 1) as usize..(from - 1) as usize + n].to_vec();
        // SAFETY (logical marker only): honest chain by construction; C41 is about close(), not verification.
        unsafe { VerifiedExtendedHeaders::new_unchecked(v) }
    }

    /// One close round. `virt`: running on the paused current-thread runtime.
    pub async fn round(ctx: &Ctx, sh: &mut Shard, case: u64, virt: bool) -> Outcome {
        let variant = if virt { "b-ct" } else { "b-mt" };
        let mut rng = ctx.rng(3, case);
        sh.log.spin.store(0, SeqCst);
        let store = match RedbStore::new(sh.db.clone()).await {
            Ok(s) => s,
            Err(e) => return Outcome::Abort(format!("RedbStore::new: {e}")),
        };
        if sh.expect.stored_upto == 0 {
            if let Err(e) = store.insert(batch(&sh.headers, 1, 8)).await {
                return Outcome::Abort(format!("initial insert: {e}"));
            }
            sh.expect.stored_upto = 8;
        }
        // plan the in-flight operations (effects are order-independent)
        let n_ops = rng.gen_range(1..=16usize);
        let mut ops = Vec::new();
        let mut insert_planned = false;
        for _ in 0..n_ops {
            let h = rng.gen_range(1..=sh.expect.stored_upto);
            let op = match rng.gen_range(0..10) {
                0..=2 => {
                    sh.expect.next_cid += 1;
                    Op::Meta(h, sh.expect.next_cid)
                }
                3..=4 => Op::MarkSampled(h),
                5 if !insert_planned && (sh.expect.stored_upto as usize) + 3 <= sh.headers.len() => {
                    insert_planned = true;
                    Op::Insert(rng.gen_range(1..=3))
                }
                6 => Op::GetHead,
                7 => Op::GetByHeight(h),
                8 => Op::Ranges,
                _ => Op::HasAt(h),
            };
            ops.push(op);
        }
        let writes = ops.iter().filter(|o| matches!(o, Op::Meta(..) | Op::MarkSampled(_) | Op::Insert(_))).count();
        // slow the backend down so that the transactions are really in flight at close
        sh.log.spin.store(*[0u32, 0, 20, 200, 2000].get(rng.gen_range(0..5)).unwrap(), SeqCst);
        let calls_before = sh.log.calls.load(SeqCst);
        {
            let mut futs: Vec<Pin<Box<dyn Future<Output = ()> + Send + '_>>> = Vec::new();
            for op in &ops {
                let s = &store;
                let f: Pin<Box<dyn Future<Output = ()> + Send + '_>> = match op.clone() {
                    Op::Meta(h, c) => Box::pin(async move {
                        let _ = s.update_sampling_metadata(h, vec![cid_of(c)]).await;
                    }),
                    Op::MarkSampled(h) => Box::pin(async move {
                        let _ = s.mark_as_sampled(h).await;
                    }),
                    Op::Insert(n) => {
                        let b = batch(&sh.headers, sh.expect.stored_upto + 1, n);
                        Box::pin(async move {
                            let _ = s.insert(b).await;
                        })
                    }
                    Op::GetHead => Box::pin(async move {
                        let _ = s.get_head().await;
                    }),
                    Op::GetByHeight(h) => Box::pin(async move {
                        let _ = s.get_by_height(h).await;
                    }),
                    Op::Ranges => Box::pin(async move {
                        let _ = s.get_stored_header_ranges().await;
                    }),
                    Op::HasAt(h) => Box::pin(async move {
                        let _ = s.has_at(h).await;
                    }),
                };
                futs.push(f);
            }
            // poll each once: the store issues its spawn_blocking transaction on the first poll
            let waker = futures::task::noop_waker();
            let mut cx = Context::from_waker(&waker);
            let mut finished_at_first_poll = 0;
            for f in futs.iter_mut() {
                if let Poll::Ready(()) = f.as_mut().poll(&mut cx) {
                    finished_at_first_poll += 1;
                }
            }
            ctx.count_n(&format!("{variant}:ops_started"), ops.len() as u64);
            ctx.count_n(&format!("{variant}:ops_already_finished_at_first_poll"), finished_at_first_poll);
            // the callers give up (timeout / cancellation): the transactions stay in flight
        }
        // record the expected effects
        for op in &ops {
            match op {
                Op::Meta(h, c) => {
                    sh.expect.meta.entry(*h).or_default().insert(*c);
                }
                Op::MarkSampled(h) => {
                    sh.expect.sampled.insert(*h);
                }
                Op::Insert(n) => sh.expect.stored_upto += *n as u64,
                _ => {}
            }
        }
        let c0 = sh.log.mark();
        let mut lost = false;
        {
            let fut = store.close();
            tokio::pin!(fut);
            if virt {
                let mut confirmed = false;
                loop {
                    match tokio::time::timeout(VIRTUAL_HOUR, &mut fut).await {
                        Ok(r) => {
                            if let Err(e) = r {
                                return Outcome::Abort(format!("close: {e}"));
                            }
                            break;
                        }
                        Err(_) => {
                            ctx.count("b-ct:virtual_watchdog_fired");
                            if !confirmed {
                                confirmed = true;
                                continue;
                            }
                            lost = true;
                            break;
                        }
                    }
                }
            } else {
                match tokio::time::timeout(stall(), &mut fut).await {
                    Ok(Ok(())) => {}
                    Ok(Err(e)) => return Outcome::Abort(format!("close: {e}")),
                    Err(_) => return Outcome::Stall(format!("RedbStore::close still pending after 20 s with {} operations in flight", ops.len())),
                }
            }
        }
        ctx.eval();
        if lost {
            ctx.violation(
                "C41/RedbStore::close/never-returns-after-transactions-finished",
                "b-ct: no blocking transaction outstanding and no task runnable, yet close() was still pending after two virtual hours",
                json!({"variant": variant, "case": case, "ops": format!("{ops:?}")}),
            );
            return Outcome::Done;
        }
        let c1 = sh.log.mark();
        sh.log.spin.store(0, SeqCst);
        // settle: give a straggler (if the implementation let one escape) the chance to show itself
        let mut last = sh.log.last_any.load(SeqCst);
        let mut stable = 0;
        for _ in 0..200 {
            std::thread::yield_now();
            std::thread::sleep(Duration::from_micros(50));
            let now = sh.log.last_any.load(SeqCst);
            if now == last {
                stable += 1;
                if stable >= 4 {
                    break;
                }
            } else {
                stable = 0;
                last = now;
            }
        }
        if last > c1 {
            ctx.violation(
                "C41/RedbStore::close/database-io-after-close-returned",
                &format!("{variant}: close() returned at stamp {c1}, but a transaction of the closed store touched the database at stamp {last}"),
                json!({"variant": variant, "case": case, "ops": format!("{ops:?}"), "close_called": c0, "close_returned": c1, "last_io": last}),
            );
            return Outcome::Done;
        }
        let in_close = sh.log.calls.load(SeqCst) - calls_before;
        // (stamps between c0 and c1 = I/O that overlapped the close call)
        if last > c0 {
            ctx.count(&format!("{variant}:rounds_close_overlapped_database_io"));
        } else {
            ctx.count(&format!("{variant}:rounds_all_io_done_before_close"));
        }
        ctx.count_n(&format!("{variant}:backend_calls_by_inflight_ops"), in_close);
        if writes > 0 {
            ctx.count(&format!("{variant}:rounds_with_inflight_writes"));
        }
        // effects of all in-flight writes must be there
        let view = match RedbStore::new(sh.db.clone()).await {
            Ok(s) => s,
            Err(e) => return Outcome::Abort(format!("reopen: {e}")),
        };
        let mut missing = Vec::new();
        match view.get_stored_header_ranges().await {
            Ok(r) => {
                if r.head() != Some(sh.expect.stored_upto) {
                    missing.push(format!("stored head {:?} != {}", r.head(), sh.expect.stored_upto));
                }
            }
            Err(e) => return Outcome::Abort(format!("view ranges: {e}")),
        }
        for op in &ops {
            match op {
                Op::Meta(h, c) => match view.get_sampling_metadata(*h).await {
                    Ok(Some(m)) if m.cids.contains(&cid_of(*c)) => {}
                    other => missing.push(format!("cid #{c} not in metadata of height {h}: {:?}", other.map(|m| m.map(|m| m.cids.len())))),
                },
                Op::MarkSampled(h) => match view.get_sampled_ranges().await {
                    Ok(r) if r.contains(*h) => {}
                    other => missing.push(format!("height {h} not in sampled ranges {other:?}")),
                },
                _ => {}
            }
        }
        if let Err(e) = view.close().await {
            return Outcome::Abort(format!("view close: {e}"));
        }
        if !missing.is_empty() {
            ctx.violation(
                "C41/RedbStore::close/inflight-write-not-applied-when-close-returned",
                &format!("{variant}: after close() returned the database lacks effects of operations that were in flight: {missing:?}"),
                json!({"variant": variant, "case": case, "ops": format!("{ops:?}")}),
            );
            return Outcome::Done;
        }
        ctx.count(&format!("{variant}:rounds"));
        ctx.nontrivial(&(variant, ops.len(), writes, last > c0, in_close.min(64)));
        ctx.sample(|| json!({"variant": variant, "case": case, "ops": format!("{ops:?}"), "close_called": c0, "close_returned": c1, "last_io_stamp": last}));
        Outcome::Done
    }
}

// ---------------------------------------------------------------------------------------------

/// Run `f`; a real-time stall is re-run once: violation only if it reproduces.
fn with_rerun(ctx: &Ctx, what: &str, sig: &str, mut f: impl FnMut() -> Outcome) -> bool {
    match f() {
        Outcome::Done => true,
        Outcome::Abort(e) => {
            ctx.inconclusive(&format!("harness: {what}: {e}"));
            false
        }
        Outcome::Stall(s1) => {
            ctx.count("real_time_stalls");
            match f() {
                Outcome::Stall(s2) => {
                    ctx.violation(sig, &format!("{what}: stalled beyond the real-time bound twice in a row: {s1} / {s2}"), json!({"first": s1, "second": s2}));
                    false
                }
                Outcome::Abort(e) => {
                    ctx.inconclusive(&format!("harness: {what}: {e}"));
                    false
                }
                Outcome::Done => {
                    ctx.inconclusive(&format!("{what}: a real-time stall did not reproduce on re-run: {s1}"));
                    false
                }
            }
        }
    }
}

fn mt_runtime(workers: usize, blocking: usize) -> tokio::runtime::Runtime {
    tokio::runtime::Builder::new_multi_thread()
        .worker_threads(workers)
        .max_blocking_threads(blocking)
        .enable_time()
        .build()
        .expect("runtime")
}

pub fn run(ctx: &Ctx) {
    ctx.rule(
        "(a) real Counter: 1..8 guards (tiny: 1..3) dropped by OS threads / spawn_blocking / async tasks / before the wait, \
         random spin delays (half of the rounds aligned to collide with the waiter's check), a1 multi-thread runtime, a2 \
         current-thread paused clock; (b) RedbStore::close with 1..16 operations in flight (polled once, then dropped) over a \
         stamping StorageBackend with random I/O delays, both runtime flavours. Non-trivial = distinct observed schedule \
         (dropper kinds, order of drops, which drops happened after the wait began) / distinct (ops, writes, overlap) class.",
    );
    ctx.assume("exhaustive enumeration of interleavings (model checking half of the quantifier) is NOT done: randomised real-thread schedules only");
    ctx.assume("tokio's paused clock auto-advances only when no task is runnable and no spawn_blocking task is outstanding (quiescence rule)");
    ctx.assume("a guard cannot be created while wait_guards(&mut self) / close(self) runs (excluded by the borrow checker), so 'started during the close' is empty");
    let tiny = ctx.tiny();
    let max_guards = if tiny { 3 } else { 8 };
    let max_spin = if tiny { 16 } else { 3000 };
    let shards = if tiny { 1 } else { (ctx.cores() / 4).clamp(1, 4) };

    // ---- a1 ----
    let san = if ctx.san() { 8 } else { 1 };
    let rounds_a1 = ctx.scale3(4u64, 6_000 / san, 150_000 / san);
    let t_phase = Instant::now();
    ctx.par(shards, |shard| {
        let rt = mt_runtime(2, 8);
        let mut pool = ThreadPool::new(8, tiny);
        for case in (shard as u64..rounds_a1).step_by(shards) {
            let ok = with_rerun(ctx, "a1 Counter round", "C41/Counter::wait_guards/stall-reproduced", || {
                round_a1(ctx, &rt, &mut pool, case, max_guards, max_spin)
            });
            if !ok {
                rt.shutdown_background();
                return;
            }
        }
    });

    ctx.extra("phase_a1_s", json!(t_phase.elapsed().as_secs_f64()));
    let t_phase = Instant::now();
    // ---- a2 ----
    let rounds_a2 = ctx.scale3(4u64, 6_000 / san, 200_000 / san);
    ctx.par(shards, |shard| {
        let mut pool = ThreadPool::new(4, tiny);
        let rt = tokio::runtime::Builder::new_current_thread()
            .enable_time()
            .start_paused(true)
            .max_blocking_threads(8)
            .build()
            .expect("runtime");
        for case in (shard as u64..rounds_a2).step_by(shards) {
            let with_threads = case % 3 == 0;
            let ok = with_rerun(ctx, "a2 Counter round", "C41/Counter::wait_guards/stall-reproduced", || {
                round_a2(ctx, &rt, &mut pool, case, max_guards, max_spin, with_threads)
            });
            if !ok {
                return;
            }
        }
    });

    ctx.extra("phase_a2_s", json!(t_phase.elapsed().as_secs_f64()));
    let t_phase = Instant::now();
    // ---- b ----
    if !tiny {
        let rounds_b = ctx.scale(500u64 / san, 6_000 / san);
        ctx.par(shards, |shard| {
            for virt in [false, true] {
                let mut sh = match redb_part::new_shard(ctx, shard as u64 * 2 + virt as u64, 2048) {
                    Ok(s) => s,
                    Err(e) => {
                        ctx.inconclusive(&format!("harness: {e}"));
                        return;
                    }
                };
                let rt = if virt {
                    tokio::runtime::Builder::new_current_thread()
                        .enable_time()
                        .start_paused(true)
                        .max_blocking_threads(4)
                        .build()
                        .expect("runtime")
                } else {
                    mt_runtime(2, [1usize, 2, 4, 16][shard % 4])
                };
                let mut ok = true;
                for case in (shard as u64..rounds_b).step_by(shards) {
                    if (sh.expect_stored() as usize) + 8 > sh.headers.len() {
                        break;
                    }
                    let case = case * 2 + virt as u64;
                    ok = with_rerun(ctx, "b RedbStore::close round", "C41/RedbStore::close/stall-reproduced", || {
                        rt.block_on(redb_part::round(ctx, &mut sh, case, virt))
                    });
                    if !ok {
                        break;
                    }
                }
                if !ok {
                    rt.shutdown_background();
                    return;
                }
            }
        });
        ctx.extra("phase_b_s", json!(t_phase.elapsed().as_secs_f64()));
    } else {
        ctx.assume("tiny mode: part (b) (redb) skipped; Counter rounds only, <= 3 guards");
    }

    if !tiny && !ctx.san() {
        for v in ["a1", "a2"] {
            ctx.floor(&format!("{v}:rounds"), 1_000);
            ctx.floor(&format!("{v}:rounds_waiter_had_to_wait"), 500);
        }
        ctx.floor("b-mt:rounds", 100);
        ctx.floor("b-ct:rounds", 100);
        ctx.floor("b-mt:rounds_close_overlapped_database_io", 50);
        ctx.floor("b-ct:rounds_close_overlapped_database_io", 50);
        ctx.floor("b-mt:rounds_with_inflight_writes", 50);
    }
}
