//! C39 — peer tracker counts match peer states.
//!
//! Workload: random event histories over 8 peers x 3 connections x 3 protection tags on the real
//! `PeerTracker` (hook `lumina_node::verif::VPeerTracker`): connect, disconnect, trust on/off,
//! protect/unprotect, archival, agent versions, add_peer_id, gc.
//!
//! Oracle (restating the property text, checked after *every* event):
//!  * `info()` (== value published on the watch channel) equals a recount over the tracked peers
//!    (`peers()` views: connected / connected+trusted / connected+full / connected+archival);
//!  * the tracked peers' `connected` / `trusted` / `protected` flags equal a small event model
//!    (connected = at least one open connection, trusted = last `set_trusted`, protected = tag set
//!    non-empty) — "peer states";
//!  * `protected_len(tag)` equals the number of tracked peers protected with that tag (recount over
//!    the real tracker via `is_protected_with_tag`, and the model's count);
//!  * `gc()` keeps every peer that was connected or protected (with unchanged flags). Whether gc
//!    forgets a *disconnected, unprotected* peer is left to the implementation (the text only says
//!    what must never be forgotten): the model adopts whatever gc did for those.
//!
//! gc expiry is measured with `std::time::Instant` (120 s of real time). Two ways to make it
//! non-vacuous without a wall-clock verdict near a boundary:
//!  * optional hook `VPeerTracker::verif_backdate_disconnected(by)` (C39.hook.patch) which moves the
//!    stored `disconnected_at` instants back by 300 s (180 s beyond the boundary) — used when
//!    present (detected at compile time by inherent-over-trait method resolution, so this module
//!    builds with or without the hook);
//!  * thorough tier: a real-time lane that lets trackers age 155 s (35 s beyond the boundary)
//!    while the random histories run, then collects.

use std::collections::{BTreeMap, BTreeSet, HashSet};
use std::time::{Duration, Instant};

use libp2p::PeerId;
use libp2p::swarm::ConnectionId;
use lumina_node::node::PeerTrackerInfo;
use lumina_node::verif::{VEventChannel, VPeerTracker, VPeerView};
use vcore::{Ctx, Rng, guard, hash64, json, panic_site};

const PEERS: usize = 8;
const CONNS: usize = 3;
const TAGS: [u32; 3] = [0, 1, 7];

/// Fallback used when the backdating hook is absent: inherent methods win over trait methods, so
/// `tracker.verif_backdate_disconnected(d)` resolves to the hook when `C39.hook.patch` is applied.
trait BackdateFallback {
    fn verif_backdate_disconnected(&mut self, _by: Duration) -> bool {
        false
    }
}
impl BackdateFallback for VPeerTracker {}

fn peer_id(history: u64, i: usize) -> PeerId {
    // sha2-256 multihash with an arbitrary digest: what `PeerId::random()` builds, but seeded.
    let mut b = vec![0x12u8, 0x20];
    let h = hash64(&(history % 97, i as u64, "c39-peer"));
    for k in 0..4u64 {
        b.extend_from_slice(&hash64(&(h, k)).to_le_bytes());
    }
    PeerId::from_bytes(&b).expect("valid multihash")
}

const AGENTS: [&str; 12] = [
    "lumina/celestia/0.14.0",
    "celestia-node/celestia/bridge/v0.24.1/fb95d45",
    "celestia-node/celestia/full/v0.24.1/fb95d45",
    "celestia-node/celestia/light/v0.24.1/fb95d45",
    "probelab-node/celestia/ant/v0.1.0",
    "",
    "celestia-node",
    "celestia-node/celestia",
    "celestia-node/celestia/",
    "celestia-node//full",
    "/celestia-node/celestia/full",
    "celestia-node/celestia/FULL/v1",
];

#[derive(Clone, Debug, PartialEq, Eq, Hash)]
enum Ev {
    AddPeerId(usize),
    Trust(usize, bool),
    Protect(usize, u32),
    Unprotect(usize, u32),
    Connect(usize, usize),
    Disconnect(usize, usize),
    Agent(usize, usize),
    Archival(usize),
    Gc,
    /// backdate all `disconnected_at` by 300 s (hook), then gc
    AgeAndGc,
}

impl Ev {
    fn name(&self) -> &'static str {
        match self {
            Ev::AddPeerId(_) => "add_peer_id",
            Ev::Trust(..) => "set_trusted",
            Ev::Protect(..) => "protect",
            Ev::Unprotect(..) => "unprotect",
            Ev::Connect(..) => "add_connection",
            Ev::Disconnect(..) => "remove_connection",
            Ev::Agent(..) => "on_agent_version",
            Ev::Archival(_) => "mark_as_archival",
            Ev::Gc => "gc",
            Ev::AgeAndGc => "gc-after-expiry",
        }
    }
}

#[derive(Clone, Debug, Default, PartialEq, Eq, Hash)]
struct MPeer {
    known: bool,
    conns: BTreeSet<usize>,
    tags: BTreeSet<u32>,
    trusted: bool,
}

impl MPeer {
    fn connected(&self) -> bool {
        !self.conns.is_empty()
    }
    fn protected(&self) -> bool {
        !self.tags.is_empty()
    }
}

fn conn_id(p: usize, c: usize) -> ConnectionId {
    ConnectionId::new_unchecked(p * CONNS + c + 1)
}

fn gen_event(rng: &mut impl Rng, can_age: bool) -> Ev {
    let p = rng.gen_range(0..PEERS);
    match rng.gen_range(0..100) {
        0..=21 => Ev::Connect(p, rng.gen_range(0..CONNS)),
        22..=41 => Ev::Disconnect(p, rng.gen_range(0..CONNS)),
        42..=51 => Ev::Trust(p, rng.gen_bool(0.6)),
        52..=62 => Ev::Protect(p, TAGS[rng.gen_range(0..TAGS.len())]),
        63..=72 => Ev::Unprotect(p, TAGS[rng.gen_range(0..TAGS.len())]),
        73..=80 => Ev::Agent(p, rng.gen_range(0..AGENTS.len())),
        81..=86 => Ev::Archival(p),
        87..=90 => Ev::AddPeerId(p),
        91..=96 => Ev::Gc,
        _ => {
            if can_age {
                Ev::AgeAndGc
            } else {
                Ev::Gc
            }
        }
    }
}

struct Hist<'a> {
    ctx: &'a Ctx,
    case: u64,
    ids: Vec<PeerId>,
    tracker: VPeerTracker,
    watcher: tokio::sync::watch::Receiver<PeerTrackerInfo>,
    model: Vec<MPeer>,
    log: Vec<Ev>,
    failed: bool,
    /// counters batched per history (the shared counter map is a contended mutex)
    cnt: BTreeMap<&'static str, u64>,
}

fn recount(views: &[VPeerView]) -> PeerTrackerInfo {
    let mut i = PeerTrackerInfo::default();
    for v in views.iter().filter(|v| v.connected) {
        i.num_connected_peers += 1;
        i.num_connected_trusted_peers += v.trusted as u64;
        i.num_connected_full_nodes += v.full as u64;
        i.num_connected_archival_nodes += v.archival as u64;
    }
    i
}

impl Hist<'_> {
    fn viol(&mut self, op: &str, kind: &str, msg: String) {
        // one report per history: later divergences are consequences
        if self.failed {
            return;
        }
        self.failed = true;
        let hist: Vec<String> = self.log.iter().map(|e| format!("{e:?}")).collect();
        self.ctx.violation(
            &format!("C39/{op}/{kind}"),
            &msg,
            json!({"case": self.case, "events": hist.len(), "history": hist}),
        );
    }

    fn apply_real(&mut self, ev: &Ev) -> Result<bool, String> {
        let ids = self.ids.clone();
        let t = &mut self.tracker;
        guard(move || match ev {
            Ev::AddPeerId(p) => {
                t.add_peer_id(&ids[*p]);
                false
            }
            Ev::Trust(p, b) => {
                t.set_trusted(&ids[*p], *b);
                false
            }
            Ev::Protect(p, tag) => {
                t.protect(&ids[*p], *tag);
                false
            }
            Ev::Unprotect(p, tag) => {
                t.unprotect(&ids[*p], *tag);
                false
            }
            Ev::Connect(p, c) => {
                t.add_connection(&ids[*p], conn_id(*p, *c));
                false
            }
            Ev::Disconnect(p, c) => {
                t.remove_connection(&ids[*p], conn_id(*p, *c));
                false
            }
            Ev::Agent(p, a) => {
                t.on_agent_version(&ids[*p], AGENTS[*a]);
                false
            }
            Ev::Archival(p) => {
                t.mark_as_archival(&ids[*p]);
                false
            }
            Ev::Gc => {
                t.gc();
                false
            }
            Ev::AgeAndGc => {
                let aged = t.verif_backdate_disconnected(Duration::from_secs(300));
                t.gc();
                aged
            }
        })
    }

    fn apply_model(&mut self, ev: &Ev) {
        let m = &mut self.model;
        match ev {
            Ev::AddPeerId(p) => m[*p].known = true,
            Ev::Trust(p, b) => {
                m[*p].known = true;
                m[*p].trusted = *b;
            }
            Ev::Protect(p, tag) => {
                m[*p].known = true;
                m[*p].tags.insert(*tag);
            }
            Ev::Unprotect(p, tag) => {
                m[*p].tags.remove(tag);
            }
            Ev::Connect(p, c) => {
                m[*p].known = true;
                m[*p].conns.insert(*c);
            }
            Ev::Disconnect(p, c) => {
                m[*p].conns.remove(c);
            }
            Ev::Agent(..) => {}
            Ev::Archival(p) => m[*p].known = true,
            Ev::Gc | Ev::AgeAndGc => {}
        }
    }

    /// One event: apply to the real tracker and to the model, then check every clause.
    fn step(&mut self, ev: Ev) {
        *self.cnt.entry("evals").or_default() += 1;
        self.log.push(ev.clone());
        let is_gc = matches!(ev, Ev::Gc | Ev::AgeAndGc);
        let before: Vec<VPeerView> = if is_gc { self.tracker.peers() } else { Vec::new() };
        let aged = match self.apply_real(&ev) {
            Ok(a) => a,
            Err(p) => {
                let site = panic_site(&p);
                self.viol(ev.name(), &format!("panic/{site}"), format!("{} panicked: {p}", ev.name()));
                return;
            }
        };
        self.apply_model(&ev);
        let views = self.tracker.peers();
        let by_id: BTreeMap<PeerId, &VPeerView> = views.iter().map(|v| (v.id, v)).collect();

        // --- gc never forgets a connected or protected peer -------------------------------
        if is_gc {
            *self.cnt.entry("gc_calls").or_default() += 1;
            let mut removed = 0u64;
            for b in &before {
                match by_id.get(&b.id) {
                    Some(a) => {
                        if (b.connected || b.protected) && **a != *b {
                            let msg = format!("gc changed a connected/protected peer: before {b:?} after {a:?}");
                            self.viol("gc", "changes-kept-peer", msg);
                        }
                    }
                    None => {
                        removed += 1;
                        if b.connected || b.protected {
                            let kind = match (b.connected, b.protected) {
                                (true, true) => "forgets-connected-protected-peer",
                                (true, false) => "forgets-connected-peer",
                                _ => "forgets-protected-peer",
                            };
                            self.viol("gc", kind, format!("gc removed {b:?}"));
                        }
                    }
                }
            }
            if before.iter().any(|b| b.connected) {
                *self.cnt.entry("gc_with_connected_peers").or_default() += 1;
            }
            if before.iter().any(|b| b.protected && !b.connected) {
                *self.cnt.entry("gc_with_protected_disconnected_peers").or_default() += 1;
            }
            if aged {
                *self.cnt.entry("gc_after_expiry").or_default() += 1;
                if before.iter().any(|b| b.protected && !b.connected) {
                    *self.cnt.entry("gc_after_expiry_with_protected_disconnected_peers").or_default() += 1;
                }
            }
            *self.cnt.entry("gc_removed_peers").or_default() += removed;
            // the model adopts removals of disconnected unprotected peers (allowed by the text)
            for (i, id) in self.ids.iter().enumerate() {
                let m = &mut self.model[i];
                if m.known && !by_id.contains_key(id) && !m.connected() && !m.protected() {
                    *m = MPeer::default();
                }
            }
        }

        // --- peer states == event model ------------------------------------------------------
        for (i, id) in self.ids.clone().iter().enumerate() {
            let m = self.model[i].clone();
            // A peer that is not tracked has all flags off (whether the tracker remembers a peer it
            // merely heard of is its own business).
            let want = (m.connected(), m.trusted, m.protected());
            let got = by_id
                .get(id)
                .map(|v| (v.connected, v.trusted, v.protected))
                .unwrap_or((false, false, false));
            if want != got {
                let field = if want.0 != got.0 {
                    "connected"
                } else if want.1 != got.1 {
                    "trusted"
                } else {
                    "protected"
                };
                let tracked = by_id.contains_key(id);
                let msg = format!(
                    "peer #{i} (tracked: {tracked}): tracker (connected,trusted,protected) = {got:?}, events give {want:?}"
                );
                self.viol(ev.name(), &format!("state/{field}-mismatch"), msg);
            }
            if self.tracker.is_connected(id) != m.connected() {
                self.viol(ev.name(), "state/is_connected-mismatch", format!("peer #{i}"));
            }
        }

        // --- published statistics == recount -------------------------------------------------
        let info = self.tracker.info();
        let published = self.watcher.borrow().clone();
        let want = recount(&views);
        if info != want {
            let msg = format!("info() = {info:?}, recount of tracked peers = {want:?}");
            self.viol(ev.name(), "info-differs-from-recount", msg);
        }
        if published != info {
            let msg = format!("watch channel carries {published:?}, info() = {info:?}");
            self.viol(ev.name(), "published-differs-from-info", msg);
        }
        let m_conn = self.model.iter().filter(|m| m.connected()).count() as u64;
        let m_trust = self.model.iter().filter(|m| m.connected() && m.trusted).count() as u64;
        if info.num_connected_peers != m_conn || info.num_connected_trusted_peers != m_trust {
            let msg = format!("info() = {info:?}, events give connected={m_conn} connected+trusted={m_trust}");
            self.viol(ev.name(), "info-differs-from-event-model", msg);
        }

        // --- per-tag protected counts ---------------------------------------------------------
        for tag in TAGS.iter().copied().chain([3u32, u32::MAX]) {
            let got = self.tracker.protected_len(tag);
            let real = views
                .iter()
                .filter(|v| self.tracker.is_protected_with_tag(&v.id, tag))
                .count();
            let model = self.model.iter().filter(|m| m.tags.contains(&tag)).count();
            if got != real {
                let msg = format!("protected_len({tag}) = {got}, tracked peers protected with that tag = {real}");
                self.viol(ev.name(), "protected_len-differs-from-recount", msg);
            } else if got != model {
                let msg = format!("protected_len({tag}) = {got}, events give {model}");
                self.viol(ev.name(), "protected_len-differs-from-event-model", msg);
            }
        }
    }

    fn flush(&mut self) {
        for (k, v) in std::mem::take(&mut self.cnt) {
            if k == "evals" {
                self.ctx.evals(v);
            } else {
                self.ctx.count_n(k, v);
            }
        }
    }

    fn abstract_state(&self) -> u64 {
        let views = self.tracker.peers();
        let mut v: Vec<(usize, bool, bool, bool, bool, bool, usize)> = Vec::new();
        for (i, id) in self.ids.iter().enumerate() {
            if let Some(x) = views.iter().find(|x| x.id == *id) {
                v.push((i, x.connected, x.trusted, x.protected, x.archival, x.full, self.model[i].tags.len()));
            }
        }
        hash64(&v)
    }
}

fn new_hist<'a>(ctx: &'a Ctx, case: u64, events: &VEventChannel) -> Hist<'a> {
    let tracker = VPeerTracker::new(events);
    let watcher = tracker.info_watcher();
    Hist {
        ctx,
        case,
        ids: (0..PEERS).map(|i| peer_id(case, i)).collect(),
        tracker,
        watcher,
        model: vec![MPeer::default(); PEERS],
        log: Vec::new(),
        failed: false,
        cnt: BTreeMap::new(),
    }
}

pub fn run(ctx: &Ctx) {
    ctx.rule(
        "random histories of connect/disconnect/trust/protect/unprotect/archival/agent-version/add_peer_id/gc \
         events over 8 peers x 3 connections x 3 tags on the real PeerTracker; after every event: info()==recount \
         of peers(), flags == event model, protected_len(tag)==recount, gc keeps connected/protected peers. \
         Non-trivial = distinct abstract tracker state (per peer: connected,trusted,protected,archival,full,#tags) \
         reached and checked.",
    );
    ctx.assume("event model: connected = >=1 open connection, trusted = last set_trusted (false for a new peer), protected = non-empty tag set");
    ctx.assume("gc may or may not forget a disconnected unprotected peer (not constrained by the property text)");

    let events = VEventChannel::new();
    // Does the backdating hook exist in this build?
    let has_hook = {
        let mut t = VPeerTracker::new(&events);
        t.verif_backdate_disconnected(Duration::from_secs(0))
    };
    ctx.extra("backdate_hook_present", json!(has_hook));

    let san = if ctx.san() { 8 } else { 1 };
    let histories = ctx.scale3(2u64, 4_000 / san, 50_000 / san);
    let len_range = if ctx.tiny() { 20..40usize } else { 100..1000usize };
    let shards = ctx.cores();

    // real-time lane (thorough only): trackers that age 155 s while the histories run
    let lane_start = Instant::now();
    let mut lane: Vec<Hist> = Vec::new();
    if !ctx.quick() && !ctx.tiny() {
        for k in 0..64u64 {
            let mut h = new_hist(ctx, 1_000_000 + k, &events);
            let mut rng = ctx.rng(3, k);
            for _ in 0..60 {
                let ev = match gen_event(&mut rng, false) {
                    Ev::Gc | Ev::AgeAndGc => continue,
                    e => e,
                };
                h.step(ev);
            }
            // make sure the interesting classes exist: protected+disconnected, plain disconnected
            h.step(Ev::Protect(0, 1));
            for c in 0..CONNS {
                h.step(Ev::Disconnect(0, c));
                h.step(Ev::Disconnect(1, c));
                h.step(Ev::Unprotect(1, TAGS[c]));
            }
            h.step(Ev::AddPeerId(1));
            h.flush();
            lane.push(h);
        }
    }

    ctx.par(shards, |shard| {
        let events = VEventChannel::new();
        let mut seen: HashSet<u64> = HashSet::new();
        for case in (shard as u64..histories).step_by(shards) {
            let mut rng = ctx.rng(1, case);
            let mut h = new_hist(ctx, case, &events);
            let n = rng.gen_range(len_range.clone());
            for _ in 0..n {
                let ev = gen_event(&mut rng, has_hook);
                h.step(ev);
                if h.failed {
                    break;
                }
                seen.insert(h.abstract_state());
            }
            h.flush();
            ctx.count("histories");
            ctx.sample(|| {
                json!({"case": case, "events": h.log.len(),
                       "first_events": h.log.iter().take(12).map(|e| format!("{e:?}")).collect::<Vec<_>>(),
                       "final_info": format!("{:?}", h.tracker.info())})
            });
        }
        for s in seen {
            ctx.nontrivial(&s);
        }
    });

    if !lane.is_empty() {
        let target = Duration::from_secs(155);
        let waited = lane_start.elapsed();
        if waited < target {
            std::thread::sleep(target - waited);
        }
        for h in lane.iter_mut() {
            let before = h.tracker.peers().len();
            h.step(Ev::Gc);
            let after = h.tracker.peers().len();
            ctx.count("realtime_lane_gc");
            ctx.count_n("realtime_lane_removed_peers", (before - after.min(before)) as u64);
            // continue the history a little after the collection
            let mut rng = ctx.rng(4, h.case);
            for _ in 0..40 {
                let ev = gen_event(&mut rng, false);
                h.step(ev);
            }
            h.flush();
        }
        ctx.floor("realtime_lane_removed_peers", 1);
    }

    if !ctx.tiny() && !ctx.san() {
        ctx.floor("gc_with_connected_peers", 100);
        ctx.floor("gc_with_protected_disconnected_peers", 100);
        if has_hook {
            ctx.floor("gc_after_expiry_with_protected_disconnected_peers", 50);
            ctx.floor("gc_removed_peers", 50);
        } else {
            ctx.assume(
                "quick tier without the backdating hook: gc never sees an expired peer (expiry needs 120 s of real \
                 time), so 'gc keeps protected peers' is only exercised where nothing expires; the thorough tier \
                 ages trackers 155 s in real time",
            );
        }
    }
}
