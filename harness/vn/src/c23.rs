//! C23 — redb schema migration preserves stored ranges.
//!
//! Raw databases are written with the `redb` crate directly in the on-disk layouts of schema
//! v1 (`STORE.HEIGHT_RANGES`: index -> (start, end)), v2 (`STORE.RANGES` with the sampled ranges
//! under `KEY.ACCEPTED_SAMPING_RANGES`), v3 (current) and "newer" (4, 5, large), then opened with
//! the production entry point `RedbStore::new(Arc<Database>)`.
//!
//! Oracle (set semantics of the range lists, independent `ISet`-like normalisation):
//!  * v1..v3: open succeeds; stored / sampled / pruned ranges reported == the ranges written;
//!    the same after closing and opening a second and third time; schema version is current;
//!    where real headers were written for the stored heights, they are all still served and a
//!    `mark_as_sampled` after migration adds exactly that height.
//!  * v > 3: open fails with `OpenFailed` (not by way of an internal panic) and a raw dump of
//!    every table (names and contents, including a table unknown to this version) is identical
//!    before and after.

use std::collections::BTreeMap;
use std::sync::Arc;
use std::time::Duration;

use celestia_types::ExtendedHeader;
use lumina_node::store::{BlockRanges, RedbStore, Store, StoreError};
use redb::{Database, ReadableTable, TableDefinition, TableError, TableHandle};
use tendermint_proto::Protobuf;
use vcore::{ChaCha8Rng, Ctx, Rng, SeedableRng, json};
use vgen::chain::ChainGen;

const SCHEMA_VERSION_TABLE: TableDefinition<'static, (), u64> = TableDefinition::new("STORE.SCHEMA_VERSION");
const RANGES_TABLE: TableDefinition<'static, &str, Vec<(u64, u64)>> = TableDefinition::new("STORE.RANGES");
const V1_RANGES_TABLE: TableDefinition<'static, u64, (u64, u64)> = TableDefinition::new("STORE.HEIGHT_RANGES");
const HEIGHTS_TABLE: TableDefinition<'static, &[u8], u64> = TableDefinition::new("STORE.HEIGHTS");
const HEADERS_TABLE: TableDefinition<'static, u64, &[u8]> = TableDefinition::new("STORE.HEADERS");
const SAMPLING_METADATA_TABLE: TableDefinition<'static, u64, &[u8]> = TableDefinition::new("STORE.SAMPLING_METADATA");
const IDENTITY_TABLE: TableDefinition<'static, (), &[u8]> = TableDefinition::new("LIBP2P.IDENTITY");
const FUTURE_TABLE: TableDefinition<'static, u64, u64> = TableDefinition::new("STORE.FUTURE_THING");

const HEADER_RANGES_KEY: &str = "KEY.HEADER_RANGES";
const SAMPLED_RANGES_KEY: &str = "KEY.SAMPLED_RANGES";
const PRUNED_RANGES_KEY: &str = "KEY.PRUNED_RANGES";
const V2_SAMPLED_RANGES_KEY: &str = "KEY.ACCEPTED_SAMPING_RANGES";
const FUTURE_KEY: &str = "KEY.FUTURE_RANGES";

const CURRENT: u64 = 3;
const N_HEADERS: u64 = 40;

type Ranges = Vec<(u64, u64)>;

/// Set semantics of a range list: sorted, merged inclusive intervals.
fn norm(mut v: Ranges) -> Ranges {
    v.retain(|(a, b)| a <= b);
    v.sort();
    let mut out: Ranges = Vec::new();
    for (a, b) in v {
        if let Some(l) = out.last_mut() {
            if a as u128 <= l.1 as u128 + 1 {
                l.1 = l.1.max(b);
                continue;
            }
        }
        out.push((a, b));
    }
    out
}

fn of_store(r: &BlockRanges) -> Ranges {
    norm(r.as_ref().iter().map(|x| (*x.start(), *x.end())).collect())
}

/// A valid range list as a store of that version could have written it: sorted, disjoint
/// (occasionally adjacent, which `BlockRanges::from_vec` accepts).
fn gen_ranges(rng: &mut ChaCha8Rng, small_only: bool) -> Ranges {
    let n = match rng.gen_range(0..10) {
        0 => 0,
        1..=4 => 1,
        5..=7 => rng.gen_range(2..=3),
        _ => rng.gen_range(4..=7),
    };
    let mut next: u64 = if small_only {
        rng.gen_range(1..=4)
    } else {
        match rng.gen_range(0..6) {
            0 => 1,
            1 => rng.gen_range(1..100),
            2 => rng.gen_range(1..5_000_000),
            3 => (1u64 << 32) - rng.gen_range(0..3),
            4 => u64::MAX - rng.gen_range(20..2000),
            _ => rng.gen_range(1..1u64 << 50),
        }
    };
    let mut out = Vec::new();
    for _ in 0..n {
        let cap = if small_only { N_HEADERS } else { u64::MAX };
        if next > cap {
            break;
        }
        let len = if small_only { rng.gen_range(0..6) } else { [0, 1, 7, 511, 1 << 20][rng.gen_range(0..5)] + rng.gen_range(0..3) };
        let end = next.saturating_add(len).min(cap);
        out.push((next, end));
        if end == u64::MAX {
            break;
        }
        // gap of >= 1 height, sometimes exactly adjacent
        let gap = if rng.gen_ratio(1, 8) { 0 } else if small_only { rng.gen_range(1..4) } else { rng.gen_range(1..1000) };
        match end.checked_add(1 + gap) {
            Some(x) => next = x,
            None => break,
        }
    }
    out
}

/// Random sub-list of `of` (each range shrunk or dropped) — "sampled within stored".
fn sub_ranges(rng: &mut ChaCha8Rng, of: &Ranges) -> Ranges {
    let mut out = Vec::new();
    for (a, b) in of {
        match rng.gen_range(0..4) {
            0 => {}
            1 => out.push((*a, *b)),
            2 => out.push((*a, a + (b - a) / 2)),
            _ => out.push((a + (b - a) / 2, *b)),
        }
    }
    out
}

#[derive(Debug, Clone)]
struct DbSpec {
    version: u64,
    stored: Ranges,
    /// `None` = key absent
    sampled: Option<Ranges>,
    pruned: Option<Ranges>,
    with_headers: bool,
    v1_index_keys: bool,
    v1_table_present: bool,
    with_identity: bool,
    old_metadata: bool,
}

/// `SamplingMetadata` roughly as schema v2 wrote it: field 1 (a status enum, varint; removed in
/// v3) + field 2 (repeated cids, each wrapped in a bytes message as prost encodes `Vec<Vec<u8>>`
/// declared as `message`).
fn v2_metadata(cid: &[u8]) -> Vec<u8> {
    let mut inner = vec![0x0a, cid.len() as u8];
    inner.extend_from_slice(cid);
    let mut v = vec![0x08, 0x01, 0x12, inner.len() as u8];
    v.extend_from_slice(&inner);
    v
}

fn test_cid(h: u64) -> cid::Cid {
    let mut digest = [0u8; 32];
    digest[..8].copy_from_slice(&h.to_le_bytes());
    cid::Cid::new_v1(0x55, multihash::Multihash::<64>::wrap(0x12, &digest).unwrap())
}

fn build_db(spec: &DbSpec, headers: &[ExtendedHeader]) -> Result<Arc<Database>, String> {
    let db = Database::builder()
        .create_with_backend(redb::backends::InMemoryBackend::new())
        .map_err(|e| e.to_string())?;
    let tx = db.begin_write().map_err(|e| e.to_string())?;
    {
        let mut t = tx.open_table(SCHEMA_VERSION_TABLE).map_err(|e| e.to_string())?;
        t.insert((), spec.version).map_err(|e| e.to_string())?;
        if spec.version == 1 {
            if spec.v1_table_present {
                let mut r = tx.open_table(V1_RANGES_TABLE).map_err(|e| e.to_string())?;
                for (i, rg) in spec.stored.iter().enumerate() {
                    let key = if spec.v1_index_keys { i as u64 } else { 10 + 7 * i as u64 };
                    r.insert(key, *rg).map_err(|e| e.to_string())?;
                }
            }
            if let Some(sm) = &spec.sampled {
                let mut r = tx.open_table(RANGES_TABLE).map_err(|e| e.to_string())?;
                r.insert(V2_SAMPLED_RANGES_KEY, sm.clone()).map_err(|e| e.to_string())?;
            }
        } else {
            let mut r = tx.open_table(RANGES_TABLE).map_err(|e| e.to_string())?;
            r.insert(HEADER_RANGES_KEY, spec.stored.clone()).map_err(|e| e.to_string())?;
            if let Some(s) = &spec.sampled {
                let key = if spec.version == 2 { V2_SAMPLED_RANGES_KEY } else { SAMPLED_RANGES_KEY };
                r.insert(key, s.clone()).map_err(|e| e.to_string())?;
            }
            if let Some(p) = &spec.pruned {
                r.insert(PRUNED_RANGES_KEY, p.clone()).map_err(|e| e.to_string())?;
            }
            if spec.version > CURRENT {
                r.insert(FUTURE_KEY, vec![(5, 6)]).map_err(|e| e.to_string())?;
                let mut f = tx.open_table(FUTURE_TABLE).map_err(|e| e.to_string())?;
                f.insert(1, spec.version).map_err(|e| e.to_string())?;
                f.insert(2, 42).map_err(|e| e.to_string())?;
            }
        }
        if spec.with_headers {
            let mut hs = tx.open_table(HEADERS_TABLE).map_err(|e| e.to_string())?;
            let mut hh = tx.open_table(HEIGHTS_TABLE).map_err(|e| e.to_string())?;
            let mut md = tx.open_table(SAMPLING_METADATA_TABLE).map_err(|e| e.to_string())?;
            for (a, b) in &spec.stored {
                for h in *a..=*b {
                    let hdr = &headers[(h - 1) as usize];
                    let bytes = hdr.clone().encode_vec();
                    hs.insert(h, &bytes[..]).map_err(|e| e.to_string())?;
                    hh.insert(hdr.hash().as_bytes(), h).map_err(|e| e.to_string())?;
                    if spec.old_metadata && h % 2 == 0 {
                        let m = v2_metadata(&test_cid(h).to_bytes());
                        md.insert(h, &m[..]).map_err(|e| e.to_string())?;
                    }
                }
            }
        }
        if spec.with_identity {
            let kp = libp2p::identity::Keypair::generate_ed25519();
            let bytes = kp.to_protobuf_encoding().map_err(|e| e.to_string())?;
            let mut it = tx.open_table(IDENTITY_TABLE).map_err(|e| e.to_string())?;
            it.insert((), &bytes[..]).map_err(|e| e.to_string())?;
        }
    }
    tx.commit().map_err(|e| e.to_string())?;
    Ok(Arc::new(db))
}

/// Raw content of the database: table names, and the entries of every table whose layout is known.
fn dump(db: &Database) -> Result<BTreeMap<String, Vec<String>>, String> {
    let tx = db.begin_read().map_err(|e| e.to_string())?;
    let mut out = BTreeMap::new();
    let mut names: Vec<String> = tx.list_tables().map_err(|e| e.to_string())?.map(|h| h.name().to_string()).collect();
    names.sort();
    out.insert("<tables>".to_string(), names);
    macro_rules! dump_table {
        ($def:expr, $fmt:expr) => {
            match tx.open_table($def) {
                Ok(t) => {
                    let mut rows = Vec::new();
                    for e in t.iter().map_err(|e| e.to_string())? {
                        let (k, v) = e.map_err(|e| e.to_string())?;
                        rows.push($fmt(k.value(), v.value()));
                    }
                    out.insert($def.name().to_string(), rows);
                }
                Err(TableError::TableDoesNotExist(_)) => {}
                Err(e) => return Err(e.to_string()),
            }
        };
    }
    dump_table!(SCHEMA_VERSION_TABLE, |_k: (), v: u64| format!("{v}"));
    dump_table!(RANGES_TABLE, |k: &str, v: Vec<(u64, u64)>| format!("{k}={v:?}"));
    dump_table!(V1_RANGES_TABLE, |k: u64, v: (u64, u64)| format!("{k}={v:?}"));
    dump_table!(HEADERS_TABLE, |k: u64, v: &[u8]| format!("{k}={:x}", vcore::hash64(v)));
    dump_table!(HEIGHTS_TABLE, |k: &[u8], v: u64| format!("{:x}={v}", vcore::hash64(k)));
    dump_table!(SAMPLING_METADATA_TABLE, |k: u64, v: &[u8]| format!("{k}={:x}", vcore::hash64(v)));
    dump_table!(IDENTITY_TABLE, |_k: (), v: &[u8]| format!("{:x}", vcore::hash64(v)));
    dump_table!(FUTURE_TABLE, |k: u64, v: u64| format!("{k}={v}"));
    Ok(out)
}

fn vclass(v: u64) -> String {
    if v <= 5 { format!("v{v}") } else { "v>5".to_string() }
}

struct Mon<'a> {
    ctx: &'a Ctx,
    rt: tokio::runtime::Runtime,
    headers: Vec<ExtendedHeader>,
}

impl Mon<'_> {
    fn viol(&self, spec: &DbSpec, kind: &str, msg: String) {
        self.ctx.violation(
            &format!("C23/{}/{kind}", vclass(spec.version)),
            &format!("{msg}; database: {spec:?}"),
            json!({"spec": format!("{spec:?}")}),
        );
    }

    /// Open, query the three range sets, close. `Err` = open failed.
    fn open_and_read(&self, db: &Arc<Database>, mark: Option<u64>) -> Result<Result<(Ranges, Ranges, Ranges, Vec<String>), StoreError>, String> {
        let db = db.clone();
        let with_headers_up_to = self.headers.len() as u64;
        let headers = &self.headers;
        vcore::guard(|| {
            self.rt.block_on(async move {
                let store = match RedbStore::new(db).await {
                    Ok(s) => s,
                    Err(e) => return Err(e),
                };
                let mut notes = Vec::new();
                if let Some(h) = mark {
                    if let Err(e) = store.mark_as_sampled(h).await {
                        notes.push(format!("mark_as_sampled({h}) after open failed: {e}"));
                    }
                }
                let st = store.get_stored_header_ranges().await?;
                let sa = store.get_sampled_ranges().await?;
                let pr = store.get_pruned_ranges().await?;
                // functional probe where real headers back the stored heights
                if let Some(_) = mark {
                    for r in st.as_ref() {
                        for h in r.clone() {
                            if h > with_headers_up_to {
                                continue;
                            }
                            match store.get_by_height(h).await {
                                Ok(x) if &x == &headers[(h - 1) as usize] => {}
                                Ok(_) => notes.push(format!("get_by_height({h}) returned another header")),
                                Err(e) => notes.push(format!("get_by_height({h}) failed: {e}")),
                            }
                            // old-format metadata: outside the property text, observed only
                            match store.get_sampling_metadata(h).await {
                                Ok(Some(m)) if m.cids == [test_cid(h)] => notes.push("obs:old_metadata_readable".into()),
                                Ok(Some(_)) => notes.push("obs:old_metadata_decoded_differently".into()),
                                Ok(None) => {}
                                Err(_) => notes.push("obs:old_metadata_unreadable".into()),
                            }
                        }
                    }
                    if let Some(hd) = st.head() {
                        match store.head_height().await {
                            Ok(x) if x == hd => {}
                            other => notes.push(format!("head_height = {other:?}, stored ranges end at {hd}")),
                        }
                    }
                }
                store.close().await?;
                Ok((of_store(&st), of_store(&sa), of_store(&pr), notes))
            })
        })
    }

    fn case(&self, rng: &mut ChaCha8Rng) {
        let ctx = self.ctx;
        let version = match rng.gen_range(0..14) {
            0..=3 => 1,
            4..=7 => 2,
            8..=9 => 3,
            10 => 4,
            11 => 5,
            12 => rng.gen_range(6..1000),
            _ => u64::MAX - rng.gen_range(0..2),
        };
        let with_headers = rng.gen_bool(0.4);
        if with_headers && version <= CURRENT {
            ctx.count("databases_with_headers_v1_v3");
        }
        let stored = gen_ranges(rng, with_headers);
        // a v1 database may already hold sampled ranges in STORE.RANGES under the pre-v3 key: it then
        // has to go through both migration steps (v1 -> v2 -> v3)
        let sampled = if (version == 1 && rng.gen_bool(0.5)) || (version != 1 && rng.gen_ratio(1, 6)) {
            None
        } else if rng.gen_bool(0.8) {
            Some(sub_ranges(rng, &stored))
        } else {
            Some(gen_ranges(rng, with_headers))
        };
        let pruned = if version == 1 || rng.gen_bool(0.5) {
            None
        } else {
            // below / between the stored ranges
            let st = norm(stored.clone());
            let mut p = Vec::new();
            let mut lo = 1u64;
            for (a, b) in &st {
                if *a > lo && rng.gen_bool(0.6) {
                    p.push((lo, a - 1));
                }
                lo = b.saturating_add(1);
            }
            Some(p)
        };
        let spec = DbSpec {
            version,
            stored,
            sampled,
            pruned,
            with_headers,
            v1_index_keys: rng.gen_bool(0.8),
            v1_table_present: rng.gen_ratio(9, 10),
            with_identity: rng.gen_bool(0.5),
            old_metadata: version <= 2 && rng.gen_bool(0.5),
        };
        let db = match build_db(&spec, &self.headers) {
            Ok(db) => db,
            Err(e) => {
                ctx.inconclusive(&format!("harness: cannot build raw database: {e}"));
                return;
            }
        };
        let before = match dump(&db) {
            Ok(d) => d,
            Err(e) => {
                ctx.inconclusive(&format!("harness: cannot dump raw database: {e}"));
                return;
            }
        };
        ctx.eval();
        ctx.count(&format!("databases_{}", vclass(version)));
        ctx.sample(|| json!({"spec": format!("{spec:?}")}));
        let want_stored = if version == 1 && !spec.v1_table_present { vec![] } else { norm(spec.stored.clone()) };
        let want_sampled = norm(spec.sampled.clone().unwrap_or_default());
        let want_pruned = norm(spec.pruned.clone().unwrap_or_default());
        if !want_stored.is_empty() || !want_sampled.is_empty() {
            ctx.nontrivial(&(version.min(6), &want_stored, &want_sampled, &want_pruned));
        }

        let first = self.open_and_read(&db, None);
        if version > CURRENT {
            // must be refused, database untouched
            match first {
                Err(p) => self.viol(&spec, &format!("open-panics/{}", vcore::panic_site(&p)), format!("opening a database of a newer schema panicked: {p}")),
                Ok(Ok(_)) => self.viol(&spec, "newer-schema-accepted", format!("a database with schema version {version} > {CURRENT} was opened")),
                Ok(Err(StoreError::OpenFailed(m))) => {
                    ctx.count("newer_schema_refused");
                    if m.contains("panicked") {
                        self.viol(&spec, "refused-only-by-internal-panic", format!("open failed through an internal panic: {m}"));
                    }
                }
                Ok(Err(e)) => self.viol(&spec, "newer-schema-wrong-error-kind", format!("expected OpenFailed, got {e}")),
            }
            match dump(&db) {
                Ok(after) if after == before => ctx.count("newer_schema_raw_dump_unchanged"),
                Ok(after) => {
                    let changed: Vec<&String> = before.keys().chain(after.keys()).filter(|k| before.get(*k) != after.get(*k)).collect();
                    self.viol(&spec, "newer-schema-database-modified", format!("raw tables changed by the refused open: {changed:?}; before {before:?} after {after:?}"));
                }
                Err(e) => self.viol(&spec, "newer-schema-database-unreadable", format!("raw dump after refused open failed: {e}")),
            }
            return;
        }

        // versions 1..=3: migrate / open
        let check = |round: &str, r: Result<Result<(Ranges, Ranges, Ranges, Vec<String>), StoreError>, String>, want_sampled: &Ranges| -> bool {
            match r {
                Err(p) => {
                    self.viol(&spec, &format!("open-panics/{}", vcore::panic_site(&p)), format!("{round} open panicked: {p}"));
                    false
                }
                Ok(Err(e)) => {
                    self.viol(&spec, &format!("{round}-open-failed"), format!("{round} open of a valid v{version} database failed: {e}"));
                    false
                }
                Ok(Ok((st, sa, pr, notes))) => {
                    let mut ok = true;
                    if st != want_stored {
                        self.viol(&spec, &format!("stored-ranges-changed/{round}-open"), format!("stored ranges written {want_stored:?}, reported {st:?}"));
                        ok = false;
                    }
                    if &sa != want_sampled {
                        self.viol(&spec, &format!("sampled-ranges-changed/{round}-open"), format!("sampled ranges written {want_sampled:?}, reported {sa:?}"));
                        ok = false;
                    }
                    if pr != want_pruned {
                        self.viol(&spec, &format!("pruned-ranges-changed/{round}-open"), format!("pruned ranges written {want_pruned:?}, reported {pr:?}"));
                        ok = false;
                    }
                    for n in notes {
                        if let Some(o) = n.strip_prefix("obs:") {
                            self.ctx.count(&format!("obs_{o}"));
                            continue;
                        }
                        self.viol(&spec, &format!("store-not-functional-after/{round}-open"), n);
                        ok = false;
                    }
                    ok
                }
            }
        };
        if !check("first", first, &want_sampled) {
            return;
        }
        ctx.count(&format!("opened_ok_{}", vclass(version)));
        // raw state after the migration
        match dump(&db) {
            Ok(after) => {
                if after.get("STORE.SCHEMA_VERSION") != Some(&vec![CURRENT.to_string()]) {
                    self.viol(&spec, "schema-version-not-current-after-open", format!("schema version table after open: {:?}", after.get("STORE.SCHEMA_VERSION")));
                }
                if after["<tables>"].iter().any(|t| t == "STORE.HEIGHT_RANGES") {
                    ctx.count("obs_v1_table_still_present_after_migration");
                }
                if after.get("STORE.RANGES").is_some_and(|rows| rows.iter().any(|r| r.starts_with(V2_SAMPLED_RANGES_KEY))) {
                    ctx.count("obs_v2_key_still_present_after_migration");
                }
                if spec.with_identity && after.get("LIBP2P.IDENTITY") != before.get("LIBP2P.IDENTITY") {
                    ctx.count("obs_identity_changed_by_open");
                }
                for t in ["STORE.HEADERS", "STORE.HEIGHTS", "STORE.SAMPLING_METADATA"] {
                    if before.get(t).is_some_and(|b| !b.is_empty()) && before.get(t) != after.get(t) {
                        self.viol(&spec, "header-tables-changed-by-open", format!("table {t} changed by open"));
                    }
                }
            }
            Err(e) => self.viol(&spec, "database-unreadable-after-open", format!("raw dump after open failed: {e}")),
        }
        // second open (must not migrate again), with a write + functional probe where possible
        let mark = if spec.with_headers { want_stored.first().map(|r| r.0) } else { None };
        let want_sampled2 = match mark {
            Some(h) => norm([want_sampled.clone(), vec![(h, h)]].concat()),
            None => want_sampled.clone(),
        };
        if mark.is_some() {
            ctx.count("functional_probes");
        }
        if !check("second", self.open_and_read(&db, mark), &want_sampled2) {
            return;
        }
        if !check("third", self.open_and_read(&db, None), &want_sampled2) {
            return;
        }
        ctx.count("reopened_ok");
    }
}

pub fn run(ctx: &Ctx) {
    ctx.rule(
        "random raw redb databases: schema version 1 (STORE.HEIGHT_RANGES, index or ascending keys, table absent), 2 \
         (KEY.ACCEPTED_SAMPING_RANGES, optional pruned key), 3, 4, 5, 6..1000, u64::MAX-1..; range lists of 0..7 valid \
         ranges over {1, small, 2^32, 2^50, u64::MAX-k} (sometimes adjacent), sampled = sub-list of stored or independent \
         or key absent; 40% of the databases carry real headers + (v<=2) old-format sampling metadata for the stored \
         heights. Non-trivial = database with non-empty stored or sampled ranges; distinct by (version, range lists).",
    );
    ctx.assume("v1/v2 table layouts are those read by migrate_v1_to_v2 / migrate_v2_to_v3 (no older lumina release is available offline)");
    ctx.assume("range lists are compared as sets of heights");
    ctx.assume("redb InMemoryBackend stands for the file backend (migration code is backend-independent)");
    let n = ctx.scale(800u64, 20_000u64);
    let shards = ctx.cores();
    ctx.par(shards, |shard| {
        let bt = Duration::from_secs(1);
        let start = ChainGen::start_time_for(N_HEADERS + 2, bt, Duration::from_secs(86_400));
        let mut g = ChainGen::new(ChaCha8Rng::seed_from_u64(23), "verif-c23", 2, &[10], 1, start, bt);
        let headers = g.next_many(N_HEADERS);
        let rt = tokio::runtime::Builder::new_current_thread().max_blocking_threads(2).build().expect("runtime");
        let mon = Mon { ctx, rt, headers };
        for case in (shard as u64..n).step_by(shards) {
            let mut rng = ctx.rng(23, case);
            mon.case(&mut rng);
        }
    });
    for v in ["v1", "v2", "v3", "v4", "v5", "v>5"] {
        ctx.floor(&format!("databases_{v}"), 30);
    }
    // (floors are on generated inputs only, so that a broken store yields violations, not "inconclusive")
    ctx.floor("databases_with_headers_v1_v3", 100);
}
