//! C46 (node part) — `BlockRanges` round-trips through its serde (JSON) form.
//!
//! `BlockRanges` has no protobuf form; its serde form is a sequence of `{start, end}` objects and
//! its `Deserialize` re-validates (sorted, non-overlapping, `1 <= start <= end`). Valid values are
//! produced through the public API (`from_vec`, `insert_relaxed`, `remove_relaxed`, set operators)
//! over a boundary-heavy height pool; oracle: `decode(encode(v)) == v` through four serde_json
//! decoders. The other types of C46 are in vt/src/c46.rs.

use lumina_node::block_ranges::{BlockRange, BlockRanges};
use vcore::{Ctx, Rng, guard, json, panic_site};

fn pool(rng: &mut impl Rng) -> u64 {
    match rng.gen_range(0..9) {
        0 => rng.gen_range(1..4),
        1 => rng.gen_range(1..60),
        2 => u64::MAX - rng.gen_range(0..6),
        3 => u64::MAX,
        4 => (1u64 << 32) - 2 + rng.gen_range(0..4),
        5 => (1u64 << 53) - 2 + rng.gen_range(0..4), // beyond f64-exact integers
        6 => i64::MAX as u64 - 1 + rng.gen_range(0..3),
        7 => rng.gen_range(1..100_000),
        _ => rng.r#gen::<u64>().max(1),
    }
}

/// Sorted, non-overlapping (possibly adjacent) ranges, as `from_vec` accepts them.
fn sorted_ranges(rng: &mut impl Rng) -> Vec<BlockRange> {
    let n = match rng.gen_range(0..6) {
        0 => 0,
        1 => 1,
        2 => 2,
        3 => 3, // spills the inline SmallVec capacity of 2
        _ => rng.gen_range(0..12),
    };
    let mut points: Vec<u64> = (0..2 * n).map(|_| pool(rng)).collect();
    points.sort_unstable();
    points.dedup();
    let mut out = Vec::new();
    let mut it = points.chunks_exact(2);
    for c in &mut it {
        // single heights and wide ranges
        if rng.gen_bool(0.3) {
            out.push(c[0]..=c[0]);
        } else {
            out.push(c[0]..=c[1]);
        }
    }
    // make some neighbours adjacent (from_vec keeps them as two ranges)
    if out.len() >= 2 && rng.gen_bool(0.3) {
        let i = rng.gen_range(0..out.len() - 1);
        let end = *out[i].end();
        if end < u64::MAX && end + 1 <= *out[i + 1].end() {
            out[i + 1] = end + 1..=*out[i + 1].end();
        }
    }
    out
}

fn check(ctx: &Ctx, v: &BlockRanges, origin: &str) {
    let detail = || json!({"ranges": format!("{v:?}"), "origin": origin});
    ctx.eval();
    let text = match guard(|| serde_json::to_string(v).map_err(|e| e.to_string())) {
        Ok(Ok(t)) => t,
        Ok(Err(e)) => {
            ctx.violation("C46/BlockRanges/json/encode-error", &format!("does not serialize: {e}"), detail());
            return;
        }
        Err(p) => {
            ctx.violation(&format!("C46/BlockRanges/json/panic/{}", panic_site(&p)), &p, detail());
            return;
        }
    };
    let paths: [(&str, Box<dyn Fn() -> Result<BlockRanges, String>>); 4] = [
        ("json", Box::new(|| serde_json::from_str(&text).map_err(|e| e.to_string()))),
        ("json-slice", Box::new(|| serde_json::from_slice(text.as_bytes()).map_err(|e| e.to_string()))),
        (
            "json-value",
            Box::new(|| {
                let val = serde_json::to_value(v).map_err(|e| e.to_string())?;
                serde_json::from_value(val).map_err(|e| e.to_string())
            }),
        ),
        ("json-reader", Box::new(|| serde_json::from_reader(std::io::Cursor::new(text.as_bytes())).map_err(|e| e.to_string()))),
    ];
    let has_max = v.as_ref().iter().any(|r| *r.end() == u64::MAX);
    let class = if has_max { "contains-u64max" } else { "" };
    for (form, f) in paths.iter() {
        ctx.eval();
        let sig = |kind: &str| {
            if class.is_empty() { format!("C46/BlockRanges/{form}/{kind}") } else { format!("C46/BlockRanges/{form}/{kind}/{class}") }
        };
        match guard(|| f()) {
            Ok(Ok(back)) if &back == v => ctx.count(&format!("BlockRanges.{form}.ok")),
            Ok(Ok(back)) => {
                ctx.violation(&sig("not-equal"), &format!("decoded {back:?} from {text}"), detail());
                return;
            }
            Ok(Err(e)) => {
                ctx.violation(&sig("decode-error"), &format!("own encoding {text} does not decode: {e}"), detail());
                return;
            }
            Err(p) => {
                ctx.violation(&format!("C46/BlockRanges/{form}/panic/{}", panic_site(&p)), &p, detail());
                return;
            }
        }
    }
    ctx.nontrivial(&text);
    ctx.count(&format!("origin.{origin}"));
    if has_max {
        ctx.count("class.contains-u64max");
    }
    match v.as_ref().len() {
        0 => ctx.count("class.empty"),
        1..=2 => ctx.count("class.inline"),
        _ => ctx.count("class.spilled"),
    }
    ctx.sample(|| json!({"json": text, "origin": origin}));
}

pub fn run(ctx: &Ctx) {
    ctx.rule(
        "BlockRanges built by from_vec over sorted boundary-heavy heights (1, small, 2^32+-, 2^53+-, i64::MAX+-, \
         u64::MAX-k, u64::MAX; 0..11 ranges, single heights, adjacent neighbours) and evolved by insert_relaxed / \
         remove_relaxed / union / difference / complement; each value serialized with serde_json and decoded by from_str, \
         from_slice, from_value, from_reader; oracle decode(encode(v)) == v. Non-trivial = value compared on all four \
         paths; distinct by JSON text.",
    );
    ctx.assume("PartialEq of BlockRanges is the notion of equality; values come from the public constructors only");
    let n = ctx.scale(30_000u64, 1_000_000u64);
    let shards = ctx.cores();
    ctx.par(shards, |shard| {
        for case in (shard as u64..n).step_by(shards) {
            let mut rng = ctx.rng(1, case);
            let ranges = sorted_ranges(&mut rng);
            let Ok(v) = BlockRanges::from_vec(ranges.iter().cloned().collect()) else {
                ctx.count("gen.from_vec_rejected");
                continue;
            };
            check(ctx, &v, "from_vec");
            // evolve through the public operations
            let mut w = v.clone();
            for _ in 0..3 {
                let a = pool(&mut rng);
                let b = a.saturating_add(match rng.gen_range(0..3) {
                    0 => 0,
                    1 => rng.gen_range(0..50),
                    _ => rng.r#gen::<u64>() >> rng.gen_range(0..64),
                });
                if rng.r#gen() {
                    let _ = w.insert_relaxed(a..=b);
                } else {
                    let _ = w.remove_relaxed(a..=b);
                }
            }
            check(ctx, &w, "insert/remove_relaxed");
            match rng.gen_range(0..3) {
                0 => check(ctx, &(v.clone() | w.clone()), "union"),
                1 => check(ctx, &(v.clone() - &w), "difference"),
                _ => check(ctx, &!w.clone(), "complement"),
            }
        }
    });
    ctx.floor("BlockRanges.json.ok", 20_000);
    ctx.floor("BlockRanges.json-reader.ok", 20_000);
    ctx.floor("class.contains-u64max", 1_000);
    ctx.floor("class.empty", 100);
    ctx.floor("class.spilled", 1_000);
}
