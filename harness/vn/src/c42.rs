//! C42 — task join handles resolve exactly when the task ends.
//!
//! Code under test (public API, no hook): `lumina_utils::executor::{spawn, spawn_cancellable,
//! JoinHandle}` and `lumina_utils::token::{Token, TokenTriggerDropGuard}`.
//!
//! Workload: batches of tasks with random lifetimes (steps separated by `yield_now`, optional
//! short sleeps), normal completion, panics, bodies that never finish on their own, and
//! cancellation before spawn / right after spawn (racing the first poll) / after m steps (by an
//! async task or a blocking thread) / from inside the body / after completion / never.
//!   V1: multi-thread runtime (real threads, real time), V2: current-thread runtime with paused
//!   clock (progress decided by quiescence), V3: runtime shutdown while tasks are unstarted,
//!   suspended or running. Plus `Token` rounds (trigger by call / by drop guard / disarmed guard).
//!
//! Every task body owns an end-marker (`Marker`) as a local of the *user* future; it is dropped when
//! the body completes, unwinds or is dropped.
//! Oracle:
//!  A. when `join()` returns the marker is set (also probed with a non-blocking poll of `join()`
//!     while the task runs, and deterministically inside the marker's drop: there `join()` must
//!     still be pending);
//!  B. every join returns once the task has ended (V2: virtual 1 h watchdog = quiescence, confirmed
//!     once; V1: 20 s stall re-run once; V3: after the runtime is dropped every handle is resolved);
//!     and a cancellable task whose token is cancelled does end;
//!  C. a cancellable task performs no step after its first yield following cancellation: the body
//!     reads `cancel_done` (set by the canceller *after* `cancel()` returned) right before each
//!     `yield_now().await`; being resumed after a yield that started with the flag set is a violation.

use std::future::Future;
use std::sync::atomic::{AtomicBool, AtomicU64, Ordering::SeqCst};
use std::sync::{Arc, OnceLock};
use std::time::{Duration, Instant};

use futures::FutureExt;
use lumina_utils::executor::{JoinHandle, spawn, spawn_cancellable};
use lumina_utils::token::Token;
use tokio_util::sync::CancellationToken;
use vcore::{Ctx, Rng, json};

/// Real-time stall bound (never a verdict on its own: a stall is re-run once). Interpreters and
/// sanitizers slow everything down by orders of magnitude, so the bound grows with them.
fn stall() -> Duration {
    static S: std::sync::OnceLock<Duration> = std::sync::OnceLock::new();
    *S.get_or_init(|| {
        let on = |k: &str| std::env::var(k).is_ok_and(|v| v == "1");
        Duration::from_secs(if on("VERIF_TINY") { 1800 } else if on("VERIF_SAN") { 180 } else { 20 })
    })
}
const VIRTUAL_HOUR: Duration = Duration::from_secs(3600);

#[derive(Clone, Copy, Debug, PartialEq, Eq, Hash)]
enum Kind {
    Plain,
    Cancellable,
}

#[derive(Clone, Copy, Debug, PartialEq, Eq, Hash)]
enum End {
    /// finishes after `steps` steps
    Finish,
    /// panics at step `steps`
    Panic,
    /// after `steps` steps waits for something that never happens
    Hang,
}

#[derive(Clone, Copy, Debug, PartialEq, Eq, Hash)]
enum Cancel {
    Never,
    BeforeSpawn,
    AtStart,
    /// an async task cancels once the body made `m` steps
    AfterStepsByTask(u64),
    /// a blocking thread cancels once the body made `m` steps
    AfterStepsByThread(u64),
    /// the body cancels its own token at step `m` and carries on to the next yield
    SelfAt(u64),
    AfterJoin,
}

#[derive(Clone, Copy, Debug, PartialEq, Eq, Hash)]
struct Spec {
    kind: Kind,
    end: End,
    steps: u64,
    cancel: Cancel,
    sleep_us: u64,
}

#[derive(Default)]
struct TaskState {
    started: AtomicBool,
    steps: AtomicU64,
    ended: AtomicBool,
    cancel_done: AtomicBool,
    step_after_cancel: AtomicBool,
    /// 0 = not probed (handle not yet published), 1 = join pending at marker drop, 2 = join resolved
    join_at_marker_drop: AtomicU64,
    handle: OnceLock<Arc<JoinHandle>>,
    /// signalled after every step and at the end (lets a canceller wait without keeping the runtime busy)
    progress: tokio::sync::Notify,
}

struct Marker(Arc<TaskState>);

impl Drop for Marker {
    fn drop(&mut self) {
        if let Some(h) = self.0.handle.get() {
            let resolved = h.join().now_or_never().is_some();
            self.0.join_at_marker_drop.store(if resolved { 2 } else { 1 }, SeqCst);
        }
        self.0.ended.store(true, SeqCst);
        self.0.progress.notify_waiters();
    }
}

fn body(ts: Arc<TaskState>, spec: Spec, token: CancellationToken) -> impl Future<Output = ()> + Send + 'static {
    // the marker is owned by the future from its construction: a body that is never polled still
    // drops it when the future is dropped
    let marker = Marker(ts.clone());
    async move {
        let _m = marker;
        ts.started.store(true, SeqCst);
        let mut yield_began_after_cancel = false;
        let mut i = 0u64;
        loop {
            // ---- one step ----
            if yield_began_after_cancel {
                ts.step_after_cancel.store(true, SeqCst);
            }
            ts.steps.fetch_add(1, SeqCst);
            ts.progress.notify_waiters();
            if spec.cancel == Cancel::SelfAt(i) {
                token.cancel();
                ts.cancel_done.store(true, SeqCst);
            }
            if i >= spec.steps {
                match spec.end {
                    End::Finish => return,
                    End::Panic => panic!("c42 task panic (expected)"),
                    End::Hang => {
                        yield_began_after_cancel = ts.cancel_done.load(SeqCst);
                        tokio::task::yield_now().await;
                        if yield_began_after_cancel {
                            ts.step_after_cancel.store(true, SeqCst);
                        }
                        std::future::pending::<()>().await;
                    }
                }
            }
            i += 1;
            // ---- the yield separating steps ----
            yield_began_after_cancel = ts.cancel_done.load(SeqCst);
            tokio::task::yield_now().await;
            if spec.sleep_us > 0 && !yield_began_after_cancel {
                tokio::time::sleep(Duration::from_micros(spec.sleep_us)).await;
            }
        }
    }
}

fn gen_spec(rng: &mut impl Rng, tiny: bool, allow_threads: bool, allow_plain_hang: bool) -> Spec {
    let kind = if rng.gen_bool(0.6) { Kind::Cancellable } else { Kind::Plain };
    let steps = if tiny { rng.gen_range(0..4) } else { *[0u64, 1, 2, 3, 5, 8, 20].get(rng.gen_range(0..7)).unwrap() };
    let mut end = match rng.gen_range(0..10) {
        0..=5 => End::Finish,
        6..=7 => End::Panic,
        _ => End::Hang,
    };
    let m = if steps == 0 { 0 } else { rng.gen_range(0..=steps) };
    let mut cancel = match kind {
        Kind::Plain => Cancel::Never,
        Kind::Cancellable => match rng.gen_range(0..12) {
            0 => Cancel::Never,
            1..=2 => Cancel::BeforeSpawn,
            3..=4 => Cancel::AtStart,
            5..=6 => Cancel::AfterStepsByTask(m),
            7 => {
                if allow_threads {
                    Cancel::AfterStepsByThread(m)
                } else {
                    Cancel::AfterStepsByTask(m)
                }
            }
            8..=9 => Cancel::SelfAt(m),
            _ => Cancel::AfterJoin,
        },
    };
    // a body that hangs must be ended by something
    if end == End::Hang {
        match (kind, cancel) {
            (Kind::Plain, _) if !allow_plain_hang => end = End::Finish,
            (Kind::Cancellable, Cancel::Never | Cancel::AfterJoin) if !allow_plain_hang => cancel = Cancel::AfterStepsByTask(m),
            _ => {}
        }
    }
    let sleep_us = if tiny || rng.gen_bool(0.7) { 0 } else { rng.gen_range(1..300) };
    Spec { kind, end, steps, cancel, sleep_us }
}

struct Running {
    spec: Spec,
    ts: Arc<TaskState>,
    handle: Arc<JoinHandle>,
    token: CancellationToken,
}

/// Spawn one task (must run inside a runtime) and arrange its cancellation.
fn start(spec: Spec) -> Running {
    let ts = Arc::new(TaskState::default());
    let token = CancellationToken::new();
    let fut = body(ts.clone(), spec, token.clone());
    if spec.cancel == Cancel::BeforeSpawn {
        token.cancel();
        ts.cancel_done.store(true, SeqCst);
    }
    let handle = Arc::new(match spec.kind {
        Kind::Plain => spawn(fut),
        Kind::Cancellable => spawn_cancellable(token.clone(), fut),
    });
    let _ = ts.handle.set(handle.clone());
    match spec.cancel {
        Cancel::AtStart => {
            token.cancel();
            ts.cancel_done.store(true, SeqCst);
        }
        Cancel::AfterStepsByTask(m) => {
            let (ts, token) = (ts.clone(), token.clone());
            tokio::spawn(async move {
                loop {
                    let progressed = ts.progress.notified();
                    if ts.steps.load(SeqCst) > m || ts.ended.load(SeqCst) {
                        break;
                    }
                    progressed.await;
                }
                token.cancel();
                ts.cancel_done.store(true, SeqCst);
            });
        }
        Cancel::AfterStepsByThread(m) => {
            let (ts, token) = (ts.clone(), token.clone());
            tokio::task::spawn_blocking(move || {
                let t0 = Instant::now();
                while ts.steps.load(SeqCst) <= m && !ts.ended.load(SeqCst) && t0.elapsed() < stall() {
                    std::hint::spin_loop();
                    std::thread::yield_now();
                }
                token.cancel();
                ts.cancel_done.store(true, SeqCst);
            });
        }
        _ => {}
    }
    Running { spec, ts, handle, token }
}

fn viol(ctx: &Ctx, sig: &str, variant: &str, case: u64, r: &Running, msg: &str) {
    ctx.violation(
        sig,
        &format!("{variant}: {msg}"),
        json!({"variant": variant, "case": case, "spec": format!("{:?}", r.spec),
               "steps_made": r.ts.steps.load(SeqCst), "started": r.ts.started.load(SeqCst),
               "ended": r.ts.ended.load(SeqCst), "cancel_done": r.ts.cancel_done.load(SeqCst)}),
    );
}

/// What a joiner saw (reported by `report_join`; joiners may run as spawned tasks).
#[derive(Clone, Copy, Debug, Default)]
struct JoinObs {
    /// non-blocking probe found join() resolved while the end marker was not yet set
    probe_resolved_while_alive: bool,
    probe_pending: bool,
    /// join() returned while the end marker was not yet set
    alive_at_join: bool,
    second_join_pending: bool,
}

/// Oracle A at join time; returns after the handle resolved.
async fn join_obs(r: &Running) -> JoinObs {
    let mut o = JoinObs::default();
    // non-blocking probe while the task may still be running: probe first, then read the marker
    let early = r.handle.join().now_or_never().is_some();
    let ended = r.ts.ended.load(SeqCst);
    o.probe_resolved_while_alive = early && !ended;
    o.probe_pending = !early;
    r.handle.join().await;
    o.alive_at_join = !r.ts.ended.load(SeqCst);
    o.second_join_pending = r.handle.join().now_or_never().is_none();
    if r.spec.cancel == Cancel::AfterJoin {
        r.token.cancel();
    }
    o
}

fn report_join(ctx: &Ctx, variant: &str, case: u64, r: &Running, o: JoinObs) {
    ctx.eval();
    if o.probe_resolved_while_alive {
        viol(ctx, "C42/join/resolved-before-task-ended", variant, case, r, "join() was already resolved while the task's future was still alive (probe)");
    }
    if o.probe_pending {
        ctx.count("probe_saw_join_pending");
    }
    if o.alive_at_join {
        viol(ctx, "C42/join/resolved-before-task-ended", variant, case, r, "join() returned but the task's future (end marker) was still alive");
    }
    if o.second_join_pending {
        viol(ctx, "C42/join/second-join-pending", variant, case, r, "a second join() on a resolved handle did not return immediately");
    }
}

/// Checks after the task is known to be over (flags written by the body / marker).
fn post_checks(ctx: &Ctx, variant: &str, case: u64, r: &Running) {
    let ts = &r.ts;
    if ts.step_after_cancel.load(SeqCst) && r.spec.kind == Kind::Cancellable {
        viol(ctx, "C42/spawn_cancellable/step-after-cancel", variant, case, r,
             "the body was resumed after a yield that began after cancel() had returned");
    }
    match ts.join_at_marker_drop.load(SeqCst) {
        2 if ts.started.load(SeqCst) => viol(ctx, "C42/join/resolved-before-task-ended", variant, case, r,
             "join() was already resolved when the running task's end marker was dropped"),
        2 => ctx.count("observed_join_resolved_before_never_polled_future_was_dropped"),
        1 => ctx.count("marker_drop_saw_join_pending"),
        _ => ctx.count("marker_dropped_before_handle_published"),
    }
    let made = ts.steps.load(SeqCst);
    let class = match (r.spec.kind, r.spec.end, r.spec.cancel) {
        (Kind::Plain, End::Finish, _) => "plain_finished",
        (Kind::Plain, End::Panic, _) => "plain_panicked",
        (Kind::Plain, End::Hang, _) => "plain_hanging",
        (Kind::Cancellable, _, Cancel::Never | Cancel::AfterJoin) => "cancellable_not_cancelled",
        (Kind::Cancellable, _, Cancel::BeforeSpawn) => "cancelled_before_spawn",
        (Kind::Cancellable, _, Cancel::AtStart) => "cancelled_at_start",
        (Kind::Cancellable, _, Cancel::SelfAt(_)) => "cancelled_by_itself",
        (Kind::Cancellable, _, _) => "cancelled_after_steps",
    };
    ctx.count(&format!("tasks:{class}"));
    if r.spec.kind == Kind::Cancellable && ts.cancel_done.load(SeqCst) {
        if !ts.started.load(SeqCst) {
            ctx.count("cancelled_task_never_started");
        } else if made <= r.spec.steps && r.spec.end != End::Hang {
            ctx.count("cancel_cut_task_short");
        }
        if r.spec.end == End::Hang {
            ctx.count("cancel_ended_hanging_task");
        }
    }
    ctx.nontrivial(&(variant, r.spec, made.min(32), ts.started.load(SeqCst), ts.join_at_marker_drop.load(SeqCst)));
    ctx.sample(|| json!({"variant": variant, "case": case, "spec": format!("{:?}", r.spec), "steps_made": made,
                         "started": ts.started.load(SeqCst), "join_at_marker_drop": ts.join_at_marker_drop.load(SeqCst)}));
}

// ---------------------------------------------------------------------------------------------
// Token rounds
// ---------------------------------------------------------------------------------------------

async fn token_round(ctx: &Ctx, variant: &'static str, case: u64, allow_threads: bool) {
    let mut rng = ctx.rng(5, case);
    let token = Token::new();
    let seq = Arc::new(AtomicU64::new(0));
    if token.is_triggered() || token.triggered().now_or_never().is_some() {
        ctx.violation("C42/Token/triggered-before-trigger", "a fresh token reports triggered", json!({"case": case}));
    }
    // a disarmed guard must not trigger
    let mut g = token.trigger_drop_guard();
    g.disarm();
    drop(g);
    if token.is_triggered() {
        ctx.violation("C42/Token/disarmed-guard-triggered", "dropping a disarmed guard triggered the token", json!({"case": case}));
    }
    let n = rng.gen_range(1..=3);
    let mut waiters = Vec::new();
    for _ in 0..n {
        let (t, s) = (token.clone(), seq.clone());
        waiters.push(tokio::spawn(async move {
            t.triggered().await;
            s.fetch_add(1, SeqCst) + 1
        }));
    }
    for _ in 0..rng.gen_range(0..4) {
        tokio::task::yield_now().await;
    }
    let how = rng.gen_range(0..3);
    let t_call = Arc::new(AtomicU64::new(0));
    let fire = {
        let (token, seq, t_call) = (token.clone(), seq.clone(), t_call.clone());
        move || {
            // stamp BEFORE the trigger begins
            t_call.store(seq.fetch_add(1, SeqCst) + 1, SeqCst);
            if how == 0 {
                token.trigger();
            } else {
                drop(token.trigger_drop_guard());
            }
        }
    };
    if how == 2 && allow_threads {
        tokio::task::spawn_blocking(fire);
    } else {
        fire();
    }
    for w in waiters {
        match w.await {
            Ok(stamp) => {
                ctx.eval();
                let t = t_call.load(SeqCst);
                if t == 0 || stamp < t {
                    ctx.violation(
                        "C42/Token/triggered-returned-before-trigger",
                        &format!("{variant}: triggered() returned (stamp {stamp}) before trigger was called (stamp {t})"),
                        json!({"case": case}),
                    );
                }
            }
            Err(e) => ctx.inconclusive(&format!("harness: token waiter failed: {e}")),
        }
    }
    if !token.is_triggered() || token.triggered().now_or_never().is_none() {
        ctx.violation("C42/Token/not-triggered-after-trigger", "token not triggered after trigger", json!({"case": case}));
    }
    ctx.count("token_rounds");
}

// ---------------------------------------------------------------------------------------------
// Variants
// ---------------------------------------------------------------------------------------------

enum Outcome {
    Done,
    Stall(String),
}

/// V1: multi-thread runtime; the whole batch must be over within the stall bound.
fn batch_v1(ctx: &Ctx, rt: &tokio::runtime::Runtime, case: u64, n: usize, tiny: bool) -> Outcome {
    let specs: Vec<Spec> = {
        let mut rng = ctx.rng(1, case);
        (0..n).map(|_| gen_spec(&mut rng, tiny, true, false)).collect()
    };
    rt.block_on(async {
        let running: Arc<Vec<Running>> = Arc::new(specs.iter().map(|s| start(*s)).collect());
        // every joiner is a task of its own, so that joins run on all workers
        let mut joiners = Vec::new();
        for i in 0..running.len() {
            let running = running.clone();
            joiners.push(tokio::spawn(async move { join_obs(&running[i]).await }));
        }
        let all = futures::future::join_all(joiners);
        let res = tokio::time::timeout(stall(), async {
            let obs = all.await;
            token_round(ctx, "v1", case, true).await;
            obs
        })
        .await;
        if let Ok(obs) = &res {
            for (r, o) in running.iter().zip(obs) {
                match o {
                    Ok(o) => report_join(ctx, "v1", case, r, *o),
                    Err(e) => ctx.inconclusive(&format!("harness: joiner task failed: {e}")),
                }
            }
        }
        if res.is_err() {
            let stuck: Vec<String> = running
                .iter()
                .filter(|r| r.handle.join().now_or_never().is_none())
                .map(|r| format!("{:?} ended={} cancel_done={}", r.spec, r.ts.ended.load(SeqCst), r.ts.cancel_done.load(SeqCst)))
                .collect();
            return Outcome::Stall(format!("{} join(s) pending after 20 s: {stuck:?}", stuck.len()));
        }
        for r in running.iter() {
            post_checks(ctx, "v1", case, r);
        }
        ctx.count("v1:batches");
        Outcome::Done
    })
}

/// V2: current-thread runtime, paused clock: progress decided by quiescence.
fn batch_v2(ctx: &Ctx, rt: &tokio::runtime::Runtime, case: u64, n: usize, tiny: bool) {
    let specs: Vec<Spec> = {
        let mut rng = ctx.rng(2, case);
        (0..n).map(|_| gen_spec(&mut rng, tiny, false, false)).collect()
    };
    rt.block_on(async {
        let running: Vec<Running> = specs.iter().map(|s| start(*s)).collect();
        let all = futures::future::join_all(running.iter().map(join_obs));
        tokio::pin!(all);
        let mut confirmed = false;
        let mut quiescent_but_pending = false;
        loop {
            match tokio::time::timeout(VIRTUAL_HOUR, &mut all).await {
                Ok(obs) => {
                    for (r, o) in running.iter().zip(obs) {
                        report_join(ctx, "v2", case, r, o);
                    }
                    break;
                }
                Err(_) => {
                    ctx.count("v2:virtual_watchdog_fired");
                    if !confirmed {
                        confirmed = true;
                        continue;
                    }
                    quiescent_but_pending = true;
                    break;
                }
            }
        }
        if quiescent_but_pending {
            // nothing is runnable, no timer is due within two virtual hours: whoever is pending stays pending
            for r in running.iter().filter(|r| r.handle.join().now_or_never().is_none()) {
                let ts = &r.ts;
                ctx.eval();
                if ts.ended.load(SeqCst) {
                    viol(ctx, "C42/join/never-resolves-after-task-ended", "v2", case, r,
                         "the task's future is gone (end marker set) but join() is still pending at runtime quiescence");
                } else if r.spec.kind == Kind::Cancellable && ts.cancel_done.load(SeqCst) {
                    viol(ctx, "C42/spawn_cancellable/task-did-not-stop-after-cancel", "v2", case, r,
                         "token cancelled, runtime quiescent, but the task's future is still alive");
                } else {
                    ctx.inconclusive(&format!("harness: v2 task neither ended nor cancelled at quiescence: {:?}", r.spec));
                }
            }
            return;
        }
        token_round(ctx, "v2", case, false).await;
        for r in running.iter() {
            post_checks(ctx, "v2", case, r);
        }
        ctx.count("v2:batches");
    });
}

/// V3: the runtime is shut down under the tasks.
fn batch_v3(ctx: &Ctx, case: u64, n: usize, tiny: bool) {
    let mut rng = ctx.rng(3, case);
    let specs: Vec<Spec> = (0..n).map(|_| gen_spec(&mut rng, tiny, false, true)).collect();
    let multi = rng.gen_bool(0.5);
    let drive = rng.gen_range(0..4u32);
    let rt = if multi {
        tokio::runtime::Builder::new_multi_thread()
            .worker_threads(2)
            .enable_time()
            .on_thread_start(|| std::mem::forget(vcore::QuietPanics::new()))
            .build()
            .expect("runtime")
    } else {
        tokio::runtime::Builder::new_current_thread().enable_time().build().expect("runtime")
    };
    let running: Vec<Running> = rt.block_on(async {
        let running: Vec<Running> = specs.iter().map(|s| start(*s)).collect();
        // let the tasks get to different stages (0 = most are never polled on the current-thread flavour)
        for _ in 0..drive {
            tokio::task::yield_now().await;
        }
        running
    });
    let alive_before = running.iter().filter(|r| !r.ts.ended.load(SeqCst)).count();
    drop(rt); // blocks until the workers stopped; every task future is dropped
    for r in &running {
        ctx.eval();
        let resolved = r.handle.join().now_or_never().is_some();
        let ended = r.ts.ended.load(SeqCst);
        if !resolved {
            let when = if r.ts.started.load(SeqCst) { "suspended-task" } else { "never-polled-task" };
            viol(ctx, &format!("C42/join/unresolved-after-runtime-shutdown/{when}"), "v3", case, r,
                 "the runtime was shut down (task dropped) but join() is still pending");
        } else if !ended {
            viol(ctx, "C42/join/resolved-before-task-ended", "v3", case, r, "join() resolved but the task's future is still alive after runtime shutdown");
        }
        if !r.ts.started.load(SeqCst) {
            ctx.count("v3:tasks_never_polled");
        }
        post_checks(ctx, "v3", case, r);
    }
    ctx.count_n("v3:tasks_alive_at_shutdown", alive_before as u64);
    ctx.count("v3:batches");
}

pub fn run(ctx: &Ctx) {
    ctx.rule(
        "batches of tasks spawned with executor::spawn / spawn_cancellable: 0..20 steps separated by yield_now (+ optional \
         1..300 us sleeps), ending by return / panic / never; cancellation before spawn, right after spawn, after m steps (by \
         task or by blocking thread), from inside the body, after join, never. V1 multi-thread runtime, V2 paused current-thread \
         runtime, V3 runtime shutdown under unstarted/suspended tasks; Token rounds. Non-trivial = distinct (variant, spec, \
         steps actually made, started?, join state seen at marker drop).",
    );
    ctx.assume("tokio drops every task future when the Runtime is dropped (V3) and auto-advances a paused clock only at quiescence (V2)");
    ctx.assume("'task ended' = the user future was dropped (completed, unwound by a panic, or dropped by cancellation/shutdown)");
    let tiny = ctx.tiny();
    let _quiet = vcore::QuietPanics::new();
    let shards = if tiny { 1 } else { (ctx.cores() / 4).clamp(1, 4) };
    let batch = if tiny { 3 } else { 24 };

    let t = Instant::now();
    let san = if ctx.san() { 8 } else { 1 };
    let n1 = ctx.scale3(3u64, 500 / san, 15_000 / san);
    ctx.par(shards, |shard| {
        let _quiet = vcore::QuietPanics::new();
        let rt = tokio::runtime::Builder::new_multi_thread()
            .worker_threads(if tiny { 2 } else { 4 })
            .max_blocking_threads(8)
            .enable_time()
            .on_thread_start(|| std::mem::forget(vcore::QuietPanics::new()))
            .build()
            .expect("runtime");
        for case in (shard as u64..n1).step_by(shards) {
            match batch_v1(ctx, &rt, case, batch, tiny) {
                Outcome::Done => {}
                Outcome::Stall(s1) => {
                    ctx.count("real_time_stalls");
                    match batch_v1(ctx, &rt, case, batch, tiny) {
                        Outcome::Stall(s2) => ctx.violation(
                            "C42/join/stall-reproduced",
                            &format!("v1: batch stalled beyond the real-time bound twice in a row: {s1} / {s2}"),
                            json!({"case": case, "first": s1, "second": s2}),
                        ),
                        Outcome::Done => ctx.inconclusive(&format!("v1: a real-time stall did not reproduce on re-run: {s1}")),
                    }
                    rt.shutdown_background();
                    return;
                }
            }
        }
    });
    ctx.extra("phase_v1_s", json!(t.elapsed().as_secs_f64()));

    let t = Instant::now();
    let n2 = ctx.scale3(3u64, 10_000 / san, 100_000 / san);
    ctx.par(shards, |shard| {
        let _quiet = vcore::QuietPanics::new();
        let rt = tokio::runtime::Builder::new_current_thread()
            .enable_time()
            .start_paused(true)
            .build()
            .expect("runtime");
        for case in (shard as u64..n2).step_by(shards) {
            batch_v2(ctx, &rt, case, batch, tiny);
        }
    });
    ctx.extra("phase_v2_s", json!(t.elapsed().as_secs_f64()));

    let t = Instant::now();
    let n3 = ctx.scale3(2u64, 3_000 / san, 20_000 / san);
    ctx.par(shards, |shard| {
        let _quiet = vcore::QuietPanics::new();
        for case in (shard as u64..n3).step_by(shards) {
            batch_v3(ctx, case, if tiny { 3 } else { 12 }, tiny);
        }
    });
    ctx.extra("phase_v3_s", json!(t.elapsed().as_secs_f64()));

    if !tiny && !ctx.san() {
        for c in [
            "tasks:plain_finished",
            "tasks:plain_panicked",
            "tasks:cancelled_before_spawn",
            "tasks:cancelled_at_start",
            "tasks:cancelled_after_steps",
            "tasks:cancelled_by_itself",
            "tasks:cancellable_not_cancelled",
            "cancel_cut_task_short",
            "cancel_ended_hanging_task",
            "marker_drop_saw_join_pending",
            "probe_saw_join_pending",
            "v3:tasks_alive_at_shutdown",
            "v3:tasks_never_polled",
            "token_rounds",
        ] {
            ctx.floor(c, 100);
        }
    }
}
