//! C21 — stored headers always form fork-free hash-linked segments.
//!
//! Same engine as C19 over small universes with a fork branching off at *every* height, so that
//! every insertion next to stored headers has competing candidates. After every operation, on
//! every backend: for all consecutive heights answered by `get_by_height` the real
//! `verify_adjacent` succeeds *and* (generator ground truth) the higher header was generated on
//! top of the lower one; every header the store returns is found under its own hash and at its
//! own height as itself.

#[path = "c19_model.rs"]
mod c19_model;

use c19_model::{Cfg, common_assumptions, run_histories};
use vcore::Ctx;

pub fn run(ctx: &Ctx) {
    ctx.rule(
        "histories as in C19 over universes of 8..24 heights with a fork (2..5 own headers, half of them with a nested \
         fork) at every height plus a chain with another chain id; mix biased to inserts next to stored headers from the \
         wrong fork (left neighbour / right neighbour / both), gap fills from either side and removals in the middle of \
         ranges. Invariant checked after every op on 4 backends (c21_invariant_checks). Non-trivial history = >=1 rejected \
         op, >=1 removal and >=1 re-insertion; distinct by final abstract state.",
    );
    common_assumptions(ctx);
    let cfg = Cfg {
        prop: "C21",
        universes: ctx.scale(vec![8, 12, 18], vec![10, 20, 32, 48]),
        ops: ctx.scale(100, 300),
        max_batch: 5,
        w: [34, 30, 20, 4, 4],
        p_correct: 0.6,
        forks_everywhere: true,
        n_forks: 0,
        histories: ctx.scale(80, 200),
        positional: false,
    };
    ctx.extra("config", vcore::json!(format!("{cfg:?}")));
    run_histories(ctx, &cfg);
    ctx.floor("histories_nontrivial", ctx.scale(40, 120));
    ctx.floor("insert_rejected_NeighborsVerificationFailed", 200);
    ctx.floor("insert_intent_nvf_left", 50);
    ctx.floor("insert_intent_nvf_right", 50);
    ctx.floor("reinsert_after_removal", 100);
    ctx.floor("histories_ending_with_gaps", 10);
    ctx.floor("c21_invariant_checks", 10_000);
}
