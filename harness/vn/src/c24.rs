//! C24 — the syncer fetches missing, insertable heights nearest the head first.
//!
//! Code under observation: the private `calculate_range_to_fetch(head, synced, limit)` of
//! node/src/syncer.rs through the pass-through hook `lumina_node::verif::calculate_range_to_fetch`.
//! `Worker::fetch_next_batch` calls it with `synced = (pruned + &stored).as_ref()` (a normalized
//! `BlockRanges` slice: sorted, disjoint, non-adjacent, heights >= 1), the subjective (network) head
//! height (a real header height, so >= 1) and the configured batch size; afterwards it may only
//! *skip* the batch (empty / slow-sync back-pressure / outside the sampling window), it never
//! alters it. The batch returned here is therefore exactly what is requested from the network.
//! The harness builds `synced` the same way the worker does (real `pruned + &stored`).
//!
//! Oracle = the property text on an independent interval model (u128 arithmetic). For the returned
//! batch B (a single inclusive range; start > end means "nothing to fetch"):
//!   1. B contains only heights >= 1 that are neither stored nor pruned,
//!   2. |B| <= limit,
//!   3. max B <= head,
//!   4. if anything is synced: B starts directly above the highest synced height (only possible
//!      when that is below the head), or B ends directly below the highest synced range,
//!   5. B is empty only if limit = 0 or no height satisfies 1,3,4 (DESIGN §5 C24).
//! With nothing synced (never the case in the worker, which stores the head first) any B
//! satisfying 1-3,5 is accepted. The text does not say which of the two positions of clause 4 has
//! priority when both exist; both are accepted and the choice is only counted.
//!
//! Part (c) observes the same clauses at the running component: a real `Syncer` worker over a mocked
//! P2p and a real `InMemoryStore` (virtual time); the first batch it announces
//! (`FetchingHeadersStarted` + the matching header request) is judged with synced = stored ∪ pruned ∪
//! {head the trusted peer reported} (the worker stores that head before it selects a batch).
//!
//! Signatures: `C24/<calculate_range_to_fetch|worker>/<kind>/<where the head is relative to synced>`,
//! kind ∈ {contains-synced-height, contains-height-0, exceeds-limit, above-head, detached,
//! empty-although-fetchable, panic/<site>}.
//!
//! Known divergence on the pinned tree (see agent_out/C18.md): when the head passed in is *below* the
//! highest synced height (a lagging trusted peer after a restart), the batch below the highest
//! synced range may lie above that head: `.../above-head/head-below-highest-synced`.

use lumina_node::block_ranges::{BlockRange, BlockRanges};
use vcore::{Ctx, Rng, guard, json, panic_site, serde_json};

use crate::c18::ISet; // interval-set model shared by C18 / C24 / C36

fn to_ranges(m: &ISet) -> BlockRanges {
    BlockRanges::from_vec(m.0.iter().map(|(a, b)| *a..=*b).collect()).expect("model is normalized")
}

#[derive(Default)]
struct Local {
    /// "" for hook-level observations, "worker_" for batches observed at the running syncer
    prefix: &'static str,
    /// (counter name, count); looked up by the address of the literal (hot path), merged by name on flush
    counts: Vec<(&'static str, u64)>,
    evals: u64,
    /// violations already handed to vcore per signature by this shard (the rest is only counted:
    /// formatting millions of witnesses of one defect would dominate the run time)
    reported: std::collections::BTreeMap<String, u64>,
}

const WITNESSES_PER_SHARD_AND_SIGNATURE: u64 = 4;

impl Local {
    fn c(&mut self, k: &'static str) {
        for e in self.counts.iter_mut() {
            if std::ptr::eq(e.0.as_ptr(), k.as_ptr()) && e.0.len() == k.len() {
                e.1 += 1;
                return;
            }
        }
        self.counts.push((k, 1));
    }
    fn flush(self, ctx: &Ctx) {
        ctx.evals(self.evals);
        for (k, v) in self.counts {
            ctx.count_n(&format!("{}{k}", self.prefix), v);
        }
    }
}

/// One observed call. `synced` is the slice given to the real function, `m` the same set in the model.
fn check(ctx: &Ctx, loc: &mut Local, m: &ISet, synced: &[BlockRange], head: u64, limit: u64) -> Option<BlockRange> {
    loc.evals += 1;
    let got = match guard(|| lumina_node::verif::calculate_range_to_fetch(head, synced, limit)) {
        Ok(v) => v,
        Err(p) => {
            ctx.violation(
                &format!("C24/calculate_range_to_fetch/panic/{}", panic_site(&p)),
                &format!("panicked on synced {:?}, head {head}, limit {limit}: {p}", m.0),
                json!({"observed_at": "calculate_range_to_fetch", "synced": format!("{:?}", m.0), "head": head, "limit": limit, "returned": "panic",
                       "replay": {"synced_ranges": m.0, "head": head, "limit": limit}}),
            );
            return None;
        }
    };
    if head == 0 {
        // not a header height; the worker never passes it. Only absence of panics is observed.
        loc.c("head_zero_calls_panic_check_only");
        return Some(got);
    }
    judge(ctx, loc, "calculate_range_to_fetch", m, head, limit, &got, &vcore::Value::Null);
    Some(got)
}

/// Judge a batch (`got`; start > end = nothing) against clauses 1-5. `op` names where it was
/// observed: the hook ("calculate_range_to_fetch") or the running syncer ("worker").
#[allow(clippy::too_many_arguments)]
fn judge(ctx: &Ctx, loc: &mut Local, op: &str, m: &ISet, head: u64, limit: u64, got: &BlockRange, config: &vcore::Value) {
    let detail = |got: &str| {
        json!({"observed_at": op, "synced": format!("{:?}", m.0), "head": head, "limit": limit, "returned": got, "config": config,
               "replay": {"synced_ranges": m.0, "head": head, "limit": limit}})
    };
    let (s, e) = (*got.start(), *got.end());
    let empty = s > e;
    let top = m.0.last().copied(); // highest synced range
    let behind = top.is_some_and(|t| t.1 < head);
    // input class used in signatures: where the head is relative to the synced heights
    let class = match top {
        None => "nothing-synced",
        Some(t) if t.1 < head => "head-above-synced",
        Some(t) if t.1 == head => "head-is-highest-synced",
        Some(_) => "head-below-highest-synced",
    };
    let mut violating: Vec<(String, String)> = Vec::new();
    let mut bad = |kind: &str, msg: String| violating.push((format!("C24/{op}/{kind}/{class}"), msg));

    // clause 5: is there a height the text would have us fetch?
    let fetchable = limit > 0
        && match top {
            None => true, // head >= 1
            Some(t) => behind || (t.0 >= 2 && t.0 - 1 <= head),
        };
    // workload class (from the model, independent of what the code answered)
    loc.c(match (limit, top) {
        (0, _) => "input_limit_zero",
        (_, None) => "input_nothing_synced",
        (_, Some(_)) if behind => "input_behind_head",
        (_, Some(_)) if fetchable => "input_caught_up_gap_below_highest_range",
        (_, Some(t)) if t.0 == 1 => "input_fully_synced",
        _ => "input_gap_below_highest_range_is_above_head",
    });
    if top.is_some_and(|t| t.1 == u64::MAX) || head == u64::MAX || limit == u64::MAX {
        loc.c("input_touching_u64max");
    }
    if empty {
        if fetchable {
            bad("empty-although-fetchable", "nothing requested although a missing height at an allowed position exists".into());
        }
        loc.c(if limit == 0 { "empty_limit_zero" } else { "empty_nothing_to_fetch" });
        emit(ctx, loc, violating, m, head, limit, (s, e), &detail);
        return;
    }

    // clause 1
    if s == 0 {
        bad("contains-height-0", "0 is not a height".into());
    }
    if m.meets(s.max(1), e) {
        bad("contains-synced-height", "requests a height that is already stored or pruned".into());
    }
    // clause 2
    let len = (e - s) as u128 + 1;
    if len > limit as u128 {
        bad("exceeds-limit", format!("{len} heights requested"));
    }
    // clause 3
    if e > head {
        bad("above-head", format!("requests heights above the network head {head}"));
    }
    // clause 4
    match top {
        None => loc.c("batch_nothing_synced"),
        Some(t) => {
            let above = behind && s as u128 == t.1 as u128 + 1;
            let below = e as u128 + 1 == t.0 as u128;
            if above {
                loc.c("batch_directly_above_synced_head");
            } else if below {
                loc.c(if behind { "batch_below_although_behind_head" } else { "batch_directly_below_highest_range" });
            } else {
                bad(
                    "detached",
                    format!(
                        "neither directly above the highest synced height {} nor directly below the highest synced range {}..={}",
                        t.1, t.0, t.1
                    ),
                );
            }
        }
    }
    if len == limit as u128 {
        loc.c("batch_cut_by_limit");
    }
    if e == head {
        loc.c("batch_reaches_head");
    }
    if matches!(class, "head-below-highest-synced") {
        loc.c("batches_with_head_below_highest_synced");
    }
    emit(ctx, loc, violating, m, head, limit, (s, e), &detail);
}

#[allow(clippy::too_many_arguments)]
fn emit(
    ctx: &Ctx,
    loc: &mut Local,
    violating: Vec<(String, String)>,
    m: &ISet,
    head: u64,
    limit: u64,
    got: (u64, u64),
    detail: &dyn Fn(&str) -> vcore::Value,
) {
    if violating.is_empty() {
        return;
    }
    let shown = &format!("{}..={}", got.0, got.1);
    for (sig, msg) in violating {
        loc.c("violating_observations");
        let n = loc.reported.entry(sig.clone()).or_insert(0);
        *n += 1;
        if *n <= WITNESSES_PER_SHARD_AND_SIGNATURE {
            ctx.violation(&sig, &format!("synced {:?}, head {head}, limit {limit}: returned {shown}: {msg}", m.0), detail(shown));
        }
    }
}

fn pool(rng: &mut impl Rng) -> u64 {
    match rng.gen_range(0..10) {
        0 => rng.gen_range(1..4),
        1 => rng.gen_range(1..40),
        2 => u64::MAX - rng.gen_range(0..6),
        3 => u64::MAX,
        4 => (1u64 << 32) - 2 + rng.gen_range(0..4),
        5 => rng.gen_range(1..1000),
        6 => u64::MAX / 2 + rng.gen_range(0..4),
        7 => 0,
        _ => rng.gen_range(1..200),
    }
}

fn random_set(rng: &mut impl Rng) -> ISet {
    let n = rng.gen_range(0..6);
    let mut v = Vec::new();
    for _ in 0..n {
        let a = pool(rng).max(1);
        let l = match rng.gen_range(0..4) {
            0 => 0,
            1 => rng.gen_range(0..5),
            2 => rng.gen_range(0..100),
            _ => rng.r#gen::<u64>() >> rng.gen_range(0..64),
        };
        v.push((a, a.saturating_add(l)));
    }
    ISet::normalize(v)
}

/// Split a synced set into (stored, pruned) at random and rebuild it the way the worker does.
fn worker_union(rng: &mut impl Rng, m: &ISet) -> BlockRanges {
    let mut stored = BlockRanges::new();
    let mut pruned = BlockRanges::new();
    for (a, b) in &m.0 {
        // cut the interval at up to two random points, alternate owners
        let mut cuts = vec![*a];
        for _ in 0..rng.gen_range(0..3) {
            if a < b {
                cuts.push(rng.gen_range(*a + 1..=*b));
            }
        }
        cuts.sort();
        cuts.dedup();
        let mut owner = rng.gen_bool(0.5);
        for (i, c) in cuts.iter().enumerate() {
            let end = if i + 1 < cuts.len() { cuts[i + 1] - 1 } else { *b };
            let t = if owner { &mut stored } else { &mut pruned };
            t.insert_relaxed(*c..=end).expect("valid");
            owner = !owner;
        }
    }
    pruned + &stored
}

pub fn run(ctx: &Ctx) {
    ctx.rule(
        "(a) every synced (= stored ∪ pruned) subset of heights 1..=12, each presented through K random \
         stored/pruned splits united by the real `pruned + &stored` (K = 4 quick, 48 thorough; the first one is the plain set) x every head \
         0..=13 and u64::MAX x every limit 0..=13 and u64::MAX; (b) random synced sets over the pool {small, \
         2^32±, 2^63±, u64::MAX-k, u64::MAX} with head/limit from the pool or within ±2 of a range edge. \
         Every returned batch is checked against clauses 1-5 of the module doc (property text on the ISet \
         model). head = 0 calls are observed for panics only. (c) real Syncer worker (mock P2p, real \
         InMemoryStore, virtual time) on random stored/pruned layouts over 12 signed headers with a trusted \
         peer reporting any head the store accepts: the first batch it announces is judged by the same \
         clauses. Non-trivial = (synced set, head) pair / worker configuration.",
    );
    ctx.assume("ISet interval model (u128 arithmetic) is the specification of 'stored or pruned heights'");
    ctx.assume("fetch_next_batch requests exactly the returned range or nothing (read from node/src/syncer.rs); the end-to-end effect of a batch the store refuses is observed by C25/C38, not here");
    ctx.assume("inputs are what the worker can pass: normalized BlockRanges slice, head >= 1");

    // --replay FILE: re-observe exactly the recorded witness (hook call, or one syncer run)
    if let Some(d) = ctx.replay.as_ref().map(|r| &r["detail"]) {
        let mut loc = Local::default();
        if d["observed_at"] == "worker" {
            worker::replay(ctx, &d["config"]);
        } else {
            let w = &d["replay"];
            match (serde_json::from_value::<Vec<(u64, u64)>>(w["synced_ranges"].clone()), w["head"].as_u64(), w["limit"].as_u64()) {
                (Ok(v), Some(head), Some(limit)) => {
                    let m = ISet::normalize(v);
                    check(ctx, &mut loc, &m, to_ranges(&m).as_ref(), head, limit);
                }
                _ => ctx.inconclusive("replay file carries no C24 witness"),
            }
        }
        loc.flush(ctx);
        return;
    }

    let shards = ctx.cores();
    let splits = ctx.scale(4usize, 48usize);
    let masks: Vec<u32> = (0..4096u32).map(|m| m << 1).collect();
    let mut heads: Vec<u64> = (0..=13).collect();
    heads.push(u64::MAX);
    let mut limits: Vec<u64> = (0..=13).collect();
    limits.push(u64::MAX);
    ctx.par(shards, |shard| {
        let mut loc = Local::default();
        for (i, mask) in masks.iter().enumerate() {
            if i % shards != shard {
                continue;
            }
            let m = ISet::from_mask(*mask);
            let mut rng = ctx.rng(1, i as u64);
            for k in 0..splits {
                let synced = if k == 0 { to_ranges(&m) } else { worker_union(&mut rng, &m) };
                let slice: &[BlockRange] = synced.as_ref();
                // harness sanity: the real union equals the model set
                let back: Vec<(u64, u64)> = slice.iter().map(|r| (*r.start(), *r.end())).collect();
                if back != m.0 {
                    ctx.inconclusive(&format!("harness: pruned+stored {:?} differs from model {:?} (C17 territory)", back, m.0));
                    return;
                }
                for &head in &heads {
                    for &limit in &limits {
                        check(ctx, &mut loc, &m, slice, head, limit);
                    }
                }
            }
            for &head in &heads {
                ctx.nontrivial(&("small", mask, head));
            }
            loc.c("small_universe_sets");
        }
        loc.flush(ctx);
    });
    ctx.extra("small_universe_exhaustive", json!({"heights": "1..=12", "heads": "0..=13,u64::MAX", "limits": "0..=13,u64::MAX", "splits_per_set": splits}));

    let cases = ctx.scale(600_000u64, 30_000_000u64);
    ctx.par(shards, |shard| {
        let mut loc = Local::default();
        for case in (shard as u64..cases).step_by(shards) {
            let mut rng = ctx.rng(2, case);
            let m = random_set(&mut rng);
            let synced = if rng.gen_bool(0.5) { to_ranges(&m) } else { worker_union(&mut rng, &m) };
            let slice: &[BlockRange] = synced.as_ref();
            for _ in 0..8 {
                let near = |rng: &mut vcore::ChaCha8Rng| -> u64 {
                    if m.0.is_empty() || rng.gen_range(0..3) == 0 {
                        return pool(rng);
                    }
                    let (s, e) = m.0[rng.gen_range(0..m.0.len())];
                    let base = if rng.gen_bool(0.3) { s } else { e };
                    let d = rng.gen_range(0..3u64);
                    if rng.gen_bool(0.5) { base.saturating_add(d) } else { base.saturating_sub(d) }
                };
                let head = near(&mut rng);
                let limit = match rng.gen_range(0..6) {
                    0 => 0,
                    1 => rng.gen_range(1..4),
                    2 => 512,
                    3 => u64::MAX,
                    _ => pool(&mut rng),
                };
                let got = check(ctx, &mut loc, &m, slice, head, limit);
                if case % 64 == 0 {
                    ctx.nontrivial(&("rand", &m, head));
                }
                if case % 1024 == 0 {
                    ctx.sample(|| json!({"synced": format!("{:?}", m.0), "head": head, "limit": limit, "returned": format!("{got:?}")}));
                }
            }
            loc.c("random_sets");
        }
        loc.flush(ctx);
    });

    let t_hook = ctx.elapsed().as_secs_f64();
    worker::run(ctx);
    ctx.extra("stage_seconds", json!({"hook_level": t_hook, "worker_level": ctx.elapsed().as_secs_f64() - t_hook}));

    for (k, min) in [
        ("worker_batches_observed", 2000),
        ("small_universe_sets", 4096u64),
        ("input_behind_head", 10_000),
        ("input_caught_up_gap_below_highest_range", 10_000),
        ("input_nothing_synced", 100),
        ("input_limit_zero", 1000),
        ("input_fully_synced", 1000),
        ("input_touching_u64max", 1000),
    ] {
        ctx.floor(k, min);
    }
}

// ---------------------------------------------------------------------------------------------
// (c) the same oracle at the running syncer: real `Syncer` worker, mocked P2p, real InMemoryStore
// ---------------------------------------------------------------------------------------------

mod worker {
    use std::sync::Arc;
    use std::time::Duration;

    use celestia_proto::p2p::pb::header_request::Data;
    use celestia_types::ExtendedHeader;
    use lumina_node::events::NodeEvent;
    use lumina_node::node::PeerTrackerInfo;
    use lumina_node::store::{InMemoryStore, Store};
    use lumina_node::verif::{VEventChannel, VP2p, VP2pCmd, VSyncer};
    use vcore::{Ctx, Rng, json};
    use vgen::chain::ChainGen;

    use super::{ISet, Local, judge};

    pub const N: u64 = 12;
    const DAY: u64 = 24 * 3600;

    /// 12 honest headers, 10 s apart, the newest one hour old: all far inside the 30-day sampling
    /// window used below (the worker's only wall-clock predicate; margin >> 30 s).
    pub fn chain(ctx: &Ctx) -> Vec<ExtendedHeader> {
        let bt = Duration::from_secs(10);
        let start = ChainGen::start_time_for(N, bt, Duration::from_secs(3600));
        ChainGen::new(ctx.rng(200, 0), "private", 3, &[10], 1, start, bt).next_many(N)
    }

    pub enum Seen {
        Batch(u64, u64),
        NoBatch,
        Harness(String),
    }

    /// Store holds `stored`, has `pruned` recorded as pruned; a trusted peer reports `head`.
    /// Returns the first batch the syncer announces (`FetchingHeadersStarted`) / requests.
    pub async fn first_batch(chain: &[ExtendedHeader], stored: &[u64], pruned: &[u64], head: u64, batch_size: u64) -> Seen {
        let store = Arc::new(InMemoryStore::new());
        let mut all: Vec<u64> = stored.iter().chain(pruned).copied().collect();
        all.sort();
        let mut i = 0;
        while i < all.len() {
            let mut j = i;
            while j + 1 < all.len() && all[j + 1] == all[j] + 1 {
                j += 1;
            }
            let run: Vec<ExtendedHeader> = (all[i]..=all[j]).map(|h| chain[h as usize - 1].clone()).collect();
            if let Err(e) = store.insert(run).await {
                return Seen::Harness(format!("prefill insert: {e}"));
            }
            i = j + 1;
        }
        for h in pruned {
            if let Err(e) = store.remove_height(*h).await {
                return Seen::Harness(format!("prefill remove: {e}"));
            }
        }

        let events = VEventChannel::new();
        let mut sub = events.subscribe();
        let (p2p, mut handle) = VP2p::mocked();
        let syncer = match VSyncer::start(&p2p, store.clone(), &events, batch_size, Duration::from_secs(30 * DAY), Duration::from_secs(31 * DAY)) {
            Ok(s) => s,
            Err(e) => return Seen::Harness(format!("syncer start: {e}")),
        };
        handle.set_peer_tracker_info(PeerTrackerInfo {
            num_connected_peers: 1,
            num_connected_trusted_peers: 1,
            num_connected_full_nodes: 1,
            num_connected_archival_nodes: 1,
        });

        // the unanswered responder and the header-sub sender stay alive until the syncer stopped
        let mut keep = Vec::new();
        let mut header_sub = None;
        let mut inited = false;
        let mut seen = Seen::NoBatch;
        // virtual time: the runtime is paused, timeouts fire only when the syncer is idle
        loop {
            let cmd = match tokio::time::timeout(Duration::from_secs(20), handle.recv_cmd()).await {
                Ok(Some(c)) => c,
                Ok(None) => break,
                Err(_) => break, // idle for 20 virtual seconds
            };
            match cmd {
                VP2pCmd::HeaderExRequest { request, respond_to } => match request.data {
                    Some(Data::Origin(0)) if request.amount == 1 && !inited => {
                        let _ = respond_to.send(Ok(vec![chain[head as usize - 1].clone()]));
                    }
                    Some(Data::Origin(from)) => {
                        // first sub-request of the first batch; the event carries the whole range
                        let mut range = None;
                        while let Ok(info) = sub.try_recv() {
                            if let NodeEvent::FetchingHeadersStarted { from_height, to_height } = info.event {
                                range.get_or_insert((from_height, to_height));
                            }
                        }
                        keep.push(respond_to);
                        seen = match range {
                            Some((a, b)) if a <= from && from <= b => Seen::Batch(a, b),
                            other => Seen::Harness(format!("request from height {from} x{} without matching FetchingHeadersStarted ({other:?})", request.amount)),
                        };
                        break;
                    }
                    other => {
                        seen = Seen::Harness(format!("unexpected header request {other:?}"));
                        break;
                    }
                },
                VP2pCmd::InitHeaderSub { head: h, channel } => {
                    if h.height() != head {
                        seen = Seen::Harness(format!("header-sub initialised with {} instead of {head}", h.height()));
                        break;
                    }
                    inited = true;
                    header_sub = Some(channel);
                }
                _ => {}
            }
        }
        if !inited && matches!(seen, Seen::NoBatch) {
            seen = Seen::Harness("syncer never initialised (head not accepted by the store?)".into());
        }
        syncer.stop();
        syncer.join().await;
        drop((keep, header_sub));
        seen
    }

    pub fn run(ctx: &Ctx) {
        let chain = chain(ctx);
        let cases = ctx.scale(4000u64, 60_000u64);
        let shards = ctx.cores();
        ctx.par(shards, |shard| {
            let rt = tokio::runtime::Builder::new_current_thread().enable_time().start_paused(true).build().expect("runtime");
            let mut loc = Local { prefix: "worker_", ..Default::default() };
            for case in (shard as u64..cases).step_by(shards) {
                let mut rng = ctx.rng(3, case);
                // synced-before-start set U, split into stored / pruned
                let mask: u32 = if case < 64 { [0b0000_1110_0111u32, 0b1110_0000_0111, 0b1000_0000_0001, 0b0110_0110_0110][case as usize % 4] } else { rng.gen_range(0..(1u32 << N)) };
                let mut stored = Vec::new();
                let mut pruned = Vec::new();
                for h in 1..=N {
                    if mask & (1 << (h - 1)) != 0 {
                        if rng.gen_range(0..4) == 0 { pruned.push(h) } else { stored.push(h) }
                    }
                }
                // heads the store accepts in try_init: its own head (same header), a new head above
                // it, or a missing height touching a stored one; anything on an empty store
                let top = stored.last().copied();
                let cands: Vec<u64> = (1..=N)
                    .filter(|h| match top {
                        None => true,
                        Some(t) => *h == t || (!stored.contains(h) && (*h > t || stored.contains(&(h - 1)) || stored.contains(&(h + 1)))),
                    })
                    .collect();
                let head = cands[rng.gen_range(0..cands.len())];
                let batch = if rng.gen_bool(0.5) { rng.gen_range(1..=4) } else { rng.gen_range(1..=16) };
                if !one(ctx, &mut loc, &rt, &chain, &stored, &pruned, head, batch) {
                    return;
                }
            }
            loc.flush(ctx);
        });
    }

    /// One syncer run on (stored, pruned, reported head, batch size); false = harness trouble.
    #[allow(clippy::too_many_arguments)]
    fn one(ctx: &Ctx, loc: &mut Local, rt: &tokio::runtime::Runtime, chain: &[ExtendedHeader], stored: &[u64], pruned: &[u64], head: u64, batch: u64) -> bool {
        // what the worker will consider synced when it picks its first batch
        let mut synced: Vec<(u64, u64)> = stored.iter().chain(pruned).map(|h| (*h, *h)).collect();
        synced.push((head, head));
        let m = ISet::normalize(synced);
        loc.evals += 1;
        match rt.block_on(first_batch(chain, stored, pruned, head, batch)) {
            Seen::Harness(e) => {
                ctx.inconclusive(&format!("worker stage: {e} (stored {stored:?}, pruned {pruned:?}, head {head}, batch {batch})"));
                return false;
            }
            Seen::NoBatch => judge_nobatch(ctx, loc, &m, head, batch),
            Seen::Batch(a, b) => {
                loc.c("batches_observed");
                // the hook on the same input: the worker must request exactly that
                let r = super::to_ranges(&m);
                let f = vcore::guard(|| lumina_node::verif::calculate_range_to_fetch(head, r.as_ref(), batch));
                if f.map(|f| (*f.start(), *f.end())) != Ok((a, b)) {
                    loc.c("batch_differs_from_hook_result");
                }
                let config = json!({"stored_before_start": stored, "pruned_before_start": pruned, "head_reported_by_trusted_peer": head,
                    "batch_size": batch, "first_batch_announced": format!("{a}..={b}")});
                judge(ctx, loc, "worker", &m, head, batch, &(a..=b), &config);
                ctx.nontrivial(&("worker", stored, pruned, head, batch));
                ctx.sample(|| json!({"observed_at": "worker", "stored": stored, "pruned": pruned, "network_head": head, "batch_size": batch, "requested": format!("{a}..={b}")}));
            }
        }
        true
    }

    /// Re-run one recorded worker configuration.
    pub fn replay(ctx: &Ctx, config: &vcore::Value) {
        let get = |k: &str| vcore::serde_json::from_value::<Vec<u64>>(config[k].clone());
        let (Ok(stored), Ok(pruned), Some(head), Some(batch)) =
            (get("stored_before_start"), get("pruned_before_start"), config["head_reported_by_trusted_peer"].as_u64(), config["batch_size"].as_u64())
        else {
            ctx.inconclusive("replay file carries no C24 worker configuration");
            return;
        };
        let chain = chain(ctx);
        let rt = tokio::runtime::Builder::new_current_thread().enable_time().start_paused(true).build().expect("runtime");
        let mut loc = Local { prefix: "worker_", ..Default::default() };
        one(ctx, &mut loc, &rt, &chain, &stored, &pruned, head, batch);
        loc.flush(ctx);
    }

    fn judge_nobatch(_ctx: &Ctx, loc: &mut Local, m: &ISet, head: u64, _batch: u64) {
        // not judged (liveness of the running syncer is C38's subject); only classified
        let top = m.0.last().copied();
        let fetchable = match top {
            None => true,
            Some(t) => t.1 < head || (t.0 >= 2 && t.0 - 1 <= head),
        };
        loc.c(if fetchable { "no_batch_although_fetchable_not_judged" } else { "no_batch_nothing_to_fetch" });
    }
}
