//! Shared machinery of the C25 / C38 monitors: a fake header network in tokio virtual time that
//! drives the REAL `Syncer` worker through the mocked `P2p` command channel, and one totally
//! ordered event log (store call/return events, network events, node events).
//!
//! The harness is the *network* (answers `HeaderExRequest`s, feeds header-sub, flips the peer
//! tracker) and, for C25, the *pruner* (removes heights through the logged store). Answers that a
//! peer gives are modelled at peer level (`PeerAnswer`): everything that is not a plain list of
//! valid consecutive headers is pushed through the real header-ex client filter
//! (`verif::header_ex::decode_and_verify_responses`), so the session/syncer only ever sees what
//! the real `P2p` worker could deliver.

#![allow(dead_code)]

use std::cmp::Reverse;
use std::collections::{BTreeMap, BTreeSet, BinaryHeap, HashMap};
use std::sync::atomic::{AtomicBool, Ordering};
use std::sync::{Arc, Mutex};
use std::time::Duration;

use celestia_proto::p2p::pb::header_request::Data;
use celestia_proto::p2p::pb::{HeaderRequest, HeaderResponse, StatusCode};
use celestia_types::ExtendedHeader;
use celestia_types::hash::Hash;
use libp2p::request_response::OutboundFailure;
use lumina_node::events::{EventSubscriber, NodeEvent};
use lumina_node::node::{HeaderExError, P2pError, PeerTrackerInfo};
use lumina_node::store::{InMemoryStore, Store};
use lumina_node::verif::{self, VEventChannel, VP2p, VP2pCmd, VP2pHandle, VResponder, VSyncer};
use tendermint::Time;
use tendermint_proto::Protobuf;
use tokio::sync::mpsc;
use vcore::{ChaCha8Rng, Rng, json};
use vgen::chain::ChainGen;
use vnode::{Clock, LoggedStore, StoreEvent, StoreOp, StoreRet};

pub type LStore = LoggedStore<InMemoryStore>;

// ---------------------------------------------------------------------------------------------
// Chains with explicit times
// ---------------------------------------------------------------------------------------------

/// Safety margin between any header time and the sampling-window boundary (`Time::now()` inside
/// lumina is wall-clock; a run takes seconds).
pub const MARGIN: Duration = Duration::from_secs(2 * 3600);
/// The newest header ever generated in a run is at least this old (clock-drift check).
pub const HEAD_BACK: Duration = Duration::from_secs(120);

/// Which chain a header belongs to (ground truth by construction).
#[derive(Clone, Copy, Debug, PartialEq, Eq, Hash, PartialOrd, Ord)]
pub enum Src {
    Honest,
    /// Same chain id / heights / times, signed by validators the node has never heard of.
    Outsider,
    /// Fork signed by the *honest* validator keys (equivocation), differs from height 2 on.
    SameVals,
}

/// Time layout: heights `1..=n_old` are older than the sampling window by >= MARGIN, heights above
/// are inside it by >= MARGIN and older than `HEAD_BACK`.
#[derive(Clone, Debug)]
pub struct Layout {
    pub n_old: u64,
    pub old_t0: Time,
    pub new_t0: Time,
    pub bt: Duration,
    pub window: Duration,
    /// Stalled / old chain: every height, including the network head and everything announced
    /// later, is older than the sampling window.
    pub all_old: bool,
}

impl Layout {
    /// A chain that is old as a whole (e.g. a network that stopped producing blocks hours ago, or
    /// a node syncing an archived chain): all `n_old + reserve` heights end >= MARGIN before the
    /// window edge.
    pub fn new_stalled(n_old: u64, reserve: u64, bt: Duration, extra_window: Duration) -> Layout {
        let now = Time::now();
        let span_new = bt * (reserve as u32 + 2);
        let window = MARGIN + HEAD_BACK + span_new + extra_window;
        let old_end = now.checked_sub(window + MARGIN).unwrap();
        let old_t0 = old_end.checked_sub(bt * ((n_old + reserve) as u32 + 2)).unwrap();
        Layout { n_old, old_t0, new_t0: old_t0, bt, window, all_old: true }
    }
    /// `reserve` = maximal number of in-window heights that will ever be generated.
    pub fn new(n_old: u64, reserve: u64, bt: Duration, extra_window: Duration) -> Layout {
        let now = Time::now();
        let span_new = bt * (reserve as u32 + 2);
        let window = MARGIN + HEAD_BACK + span_new + extra_window;
        let new_t0 = now.checked_sub(HEAD_BACK + span_new).unwrap();
        let old_end = now.checked_sub(window + MARGIN).unwrap();
        let old_t0 = old_end.checked_sub(bt * (n_old as u32 + 1)).unwrap();
        Layout { n_old, old_t0, new_t0, bt, window, all_old: false }
    }
    pub fn time_of(&self, h: u64) -> Time {
        if self.all_old || h <= self.n_old {
            (self.old_t0 + self.bt * (h as u32)).unwrap()
        } else {
            (self.new_t0 + self.bt * ((h - self.n_old) as u32)).unwrap()
        }
    }
    /// Ground truth: is height `h` older than the sampling window (by construction, >= MARGIN)?
    pub fn is_old(&self, h: u64) -> bool {
        self.all_old || h <= self.n_old
    }
}

pub struct Chains {
    pub layout: Layout,
    pub honest: ChainGen,
    pub outsider: Option<ChainGen>,
    pub samevals: Option<ChainGen>,
    /// hash -> (src, height) of every header ever generated
    pub index: HashMap<Hash, (Src, u64)>,
    indexed: usize,
}

fn extend(g: &mut ChainGen, layout: &Layout, upto: u64) {
    while g.next_height <= upto {
        g.time = layout.time_of(g.next_height);
        g.next();
    }
}

impl Chains {
    pub fn new(rng: &mut ChaCha8Rng, layout: Layout, n_vals: usize, height: u64, forks: bool) -> Chains {
        use vcore::SeedableRng;
        let powers: Vec<u64> = (0..n_vals).map(|_| rng.gen_range(1..100)).collect();
        let mk = |seed: u64| ChaCha8Rng::seed_from_u64(seed);
        let s1: u64 = rng.r#gen();
        let s2: u64 = rng.r#gen();
        let mut honest = ChainGen::new(mk(s1), "verif-net", 3, &powers, 1, layout.time_of(1), layout.bt);
        extend(&mut honest, &layout, 1);
        let (outsider, samevals) = if forks {
            let mut o = ChainGen::new(mk(s2), "verif-net", 3, &powers, 1, layout.time_of(1), layout.bt);
            extend(&mut o, &layout, height);
            let mut s = honest.fork(rng.r#gen());
            extend(&mut s, &layout, height);
            (Some(o), Some(s))
        } else {
            (None, None)
        };
        extend(&mut honest, &layout, height);
        let mut c = Chains { layout, honest, outsider, samevals, index: HashMap::new(), indexed: 0 };
        c.reindex();
        c
    }
    fn reindex(&mut self) {
        let from = self.indexed;
        self.indexed = self.honest.headers.len();
        for (src, g) in [(Src::Honest, Some(&self.honest)), (Src::Outsider, self.outsider.as_ref()), (Src::SameVals, self.samevals.as_ref())] {
            if let Some(g) = g {
                for h in g.headers.iter().skip(from) {
                    let e = (src, h.height());
                    // SameVals shares height 1 with the honest chain: honest wins.
                    self.index.entry(h.hash()).or_insert(e);
                }
            }
        }
    }
    pub fn head(&self) -> u64 {
        self.honest.headers.len() as u64
    }
    /// Produce the next honest block (the network moves on); forks follow.
    pub fn grow(&mut self) -> ExtendedHeader {
        let h = self.head() + 1;
        extend(&mut self.honest, &self.layout, h);
        if let Some(o) = self.outsider.as_mut() {
            extend(o, &self.layout, h);
        }
        if let Some(s) = self.samevals.as_mut() {
            extend(s, &self.layout, h);
        }
        self.reindex();
        self.honest.headers[(h - 1) as usize].clone()
    }
    pub fn get(&self, src: Src, h: u64) -> Option<&ExtendedHeader> {
        let g = match src {
            Src::Honest => &self.honest,
            Src::Outsider => self.outsider.as_ref()?,
            Src::SameVals => self.samevals.as_ref()?,
        };
        if h == 0 {
            return None;
        }
        g.headers.get((h - 1) as usize)
    }
    pub fn range(&self, src: Src, from: u64, n: u64) -> Vec<ExtendedHeader> {
        (from..from + n).filter_map(|h| self.get(src, h).cloned()).collect()
    }
    pub fn honest_hash(&self, h: u64) -> Option<Hash> {
        self.get(Src::Honest, h).map(|x| x.hash())
    }
}

// ---------------------------------------------------------------------------------------------
// Event log
// ---------------------------------------------------------------------------------------------

#[derive(Clone, Debug)]
pub enum NodeEv {
    HeadStarted,
    HeadFinished(u64),
    Started(u64, u64),
    Finished(u64, u64),
    Failed(u64, u64, String),
    AddedFromSub(u64),
    Fatal(String),
}

#[derive(Clone, Debug)]
pub enum Given {
    /// `len` headers starting at `start`; `srcs` = distinct chains they were taken from.
    Headers { start: u64, len: u64, srcs: Vec<Src> },
    Err(String),
}

#[derive(Clone, Debug)]
pub enum Ev {
    Store(StoreEvent),
    Node(NodeEv),
    /// `HeaderExRequest` received by the network; `origin == 0` is a head request.
    Req { id: u64, origin: u64, amount: u64 },
    /// What the `P2p` boundary delivered for request `id` (`family` = peer-level behaviour);
    /// `dropped` = the requester had gone away.
    Resp { id: u64, family: &'static str, given: Given, dropped: bool },
    InitSub { head: u64 },
    Announce { height: u64, delivered: bool },
    Peers { connected: u64, trusted: u64 },
    Mark(&'static str),
}

#[derive(Clone, Debug)]
pub struct Rec {
    pub vt_ms: u64,
    pub ev: Ev,
}

pub struct Log {
    recs: Mutex<Vec<Rec>>,
    sub: Mutex<EventSubscriber>,
    t0: tokio::time::Instant,
    wall_deadline: std::time::Instant,
    pub tripped: AtomicBool,
    /// Range of the batch announced by the newest `FetchingHeadersStarted` seen so far.
    last_started: Mutex<Option<(u64, u64)>>,
}

impl Log {
    pub fn now_ms(&self) -> u64 {
        (tokio::time::Instant::now() - self.t0).as_millis() as u64
    }
    fn drain_locked(&self, recs: &mut Vec<Rec>, vt_ms: u64) {
        let mut sub = self.sub.lock().unwrap();
        while let Ok(info) = sub.try_recv() {
            let ev = match info.event {
                NodeEvent::FetchingHeadHeaderStarted => NodeEv::HeadStarted,
                NodeEvent::FetchingHeadHeaderFinished { height, .. } => NodeEv::HeadFinished(height),
                NodeEvent::FetchingHeadersStarted { from_height, to_height } => NodeEv::Started(from_height, to_height),
                NodeEvent::FetchingHeadersFinished { from_height, to_height, .. } => NodeEv::Finished(from_height, to_height),
                NodeEvent::FetchingHeadersFailed { from_height, to_height, error, .. } => NodeEv::Failed(from_height, to_height, error),
                NodeEvent::AddedHeaderFromHeaderSub { height } => NodeEv::AddedFromSub(height),
                NodeEvent::FatalSyncerError { error } => NodeEv::Fatal(error),
                _ => continue,
            };
            if let NodeEv::Started(a, b) = &ev {
                *self.last_started.lock().unwrap() = Some((*a, *b));
            }
            recs.push(Rec { vt_ms, ev: Ev::Node(ev) });
        }
    }
    /// Append an event; node events published since the last append are placed before it
    /// (everything runs on one thread, so that is their true position).
    pub fn push(&self, ev: Ev) {
        let vt_ms = self.now_ms();
        let mut recs = self.recs.lock().unwrap();
        self.drain_locked(&mut recs, vt_ms);
        recs.push(Rec { vt_ms, ev });
    }
    pub fn drain(&self) {
        let vt_ms = self.now_ms();
        let mut recs = self.recs.lock().unwrap();
        self.drain_locked(&mut recs, vt_ms);
    }
    /// Batch the syncer is working on according to its own events (drains pending events first).
    pub fn current_batch(&self) -> Option<(u64, u64)> {
        self.drain();
        *self.last_started.lock().unwrap()
    }
    pub fn last(&self) -> Option<Rec> {
        self.recs.lock().unwrap().last().cloned()
    }
    pub fn snapshot(&self) -> Vec<Rec> {
        self.recs.lock().unwrap().clone()
    }
    pub fn len(&self) -> usize {
        self.recs.lock().unwrap().len()
    }
}

pub fn render(r: &Rec) -> String {
    let body = match &r.ev {
        Ev::Store(StoreEvent::Call { op, .. }) => format!("store.call {}", render_op(op)),
        Ev::Store(StoreEvent::Return { op, ret, .. }) => format!("store.ret  {} -> {}", render_op(op), render_ret(ret)),
        Ev::Node(n) => format!("node {n:?}"),
        Ev::Req { id, origin, amount } => {
            if *origin == 0 {
                format!("net.req #{id} HEAD")
            } else {
                format!("net.req #{id} [{}..={}]", origin, origin + amount - 1)
            }
        }
        Ev::Resp { id, family, given, dropped } => format!("net.resp #{id} {family} {given:?}{}", if *dropped { " (requester gone)" } else { "" }),
        Ev::InitSub { head } => format!("net.init_header_sub head={head}"),
        Ev::Announce { height, delivered } => format!("net.header_sub announce {height} delivered={delivered}"),
        Ev::Peers { connected, trusted } => format!("net.peers connected={connected} trusted={trusted}"),
        Ev::Mark(m) => format!("---- {m}"),
    };
    format!("t={:>8.3}s {body}", r.vt_ms as f64 / 1000.0)
}

fn render_op(op: &StoreOp) -> String {
    match op {
        StoreOp::Insert(v) => match (v.first(), v.last()) {
            (Some(a), Some(b)) => format!("insert[{}..={}]", a.0, b.0),
            _ => "insert[]".into(),
        },
        other => format!("{other:?}"),
    }
}

fn render_ret(r: &StoreRet) -> String {
    match r {
        StoreRet::Header(h, _) => format!("Header({h})"),
        StoreRet::Ranges(b) => format!("{b}"),
        other => format!("{other:?}"),
    }
}

/// Events that matter for reading a history (drops the read-only store chatter).
pub fn essential(r: &Rec) -> bool {
    match &r.ev {
        Ev::Store(StoreEvent::Call { .. }) => false,
        Ev::Store(StoreEvent::Return { op, .. }) => matches!(op, StoreOp::Insert(_) | StoreOp::RemoveHeight(_) | StoreOp::GetByHeight(_)),
        Ev::Resp { .. } => false,
        _ => true,
    }
}

// ---------------------------------------------------------------------------------------------
// Store model rebuilt from the log (offline)
// ---------------------------------------------------------------------------------------------

#[derive(Default, Clone)]
pub struct Model {
    pub stored: BTreeMap<u64, Hash>,
    pub pruned: BTreeSet<u64>,
}

impl Model {
    pub fn apply(&mut self, ev: &Ev) {
        if let Ev::Store(StoreEvent::Return { op, ret: StoreRet::Unit, .. }) = ev {
            match op {
                StoreOp::Insert(v) => {
                    for (h, hash) in v {
                        self.stored.insert(*h, *hash);
                        self.pruned.remove(h);
                    }
                }
                StoreOp::RemoveHeight(h) => {
                    if self.stored.remove(h).is_some() {
                        self.pruned.insert(*h);
                    }
                }
                _ => {}
            }
        }
    }
    pub fn synced(&self, h: u64) -> bool {
        self.stored.contains_key(&h) || self.pruned.contains(&h)
    }
    /// Lowest synced (stored or pruned) height strictly above `h`.
    pub fn lowest_synced_above(&self, h: u64) -> Option<u64> {
        let a = self.stored.range(h + 1..).next().map(|x| *x.0);
        let b = self.pruned.range(h + 1..).next().copied();
        match (a, b) {
            (Some(a), Some(b)) => Some(a.min(b)),
            (a, b) => a.or(b),
        }
    }
    pub fn head(&self) -> Option<u64> {
        self.stored.keys().next_back().copied()
    }
    pub fn ranges(&self) -> String {
        fn fmt(it: impl Iterator<Item = u64>) -> String {
            let mut out: Vec<(u64, u64)> = Vec::new();
            for h in it {
                match out.last_mut() {
                    Some(l) if l.1 + 1 == h => l.1 = h,
                    _ => out.push((h, h)),
                }
            }
            out.iter().map(|(a, b)| format!("{a}-{b}")).collect::<Vec<_>>().join(",")
        }
        format!("stored[{}] pruned[{}]", fmt(self.stored.keys().copied()), fmt(self.pruned.iter().copied()))
    }
}

// ---------------------------------------------------------------------------------------------
// Peer-level answers and the real client filter
// ---------------------------------------------------------------------------------------------

pub enum PeerAnswer {
    /// Valid headers (by construction), consecutive from the requested origin, at most `amount`.
    /// Delivered as they are — this is exactly what the client filter lets through.
    Valid(Vec<ExtendedHeader>),
    /// Arbitrary wire responses: go through the real `decode_and_verify_responses`.
    Wire(Vec<HeaderResponse>),
    /// Transport failure reported by libp2p after the client's retries.
    Fail(OutboundFailure),
}

pub fn wire_ok(h: &ExtendedHeader) -> HeaderResponse {
    HeaderResponse { body: h.clone().encode_vec(), status_code: StatusCode::Ok.into() }
}
pub fn wire_status(s: StatusCode) -> HeaderResponse {
    HeaderResponse { body: vec![], status_code: s.into() }
}

pub fn classify(chains: &Chains, hs: &[ExtendedHeader]) -> Vec<Src> {
    let mut s = BTreeSet::new();
    for h in hs {
        match chains.index.get(&h.hash()) {
            Some((src, _)) => {
                s.insert(*src);
            }
            None => {}
        }
    }
    s.into_iter().collect()
}

/// What the `P2p` boundary hands to the session for a peer-level answer.
pub async fn deliver(chains: &Chains, request: &HeaderRequest, ans: PeerAnswer) -> (Result<Vec<ExtendedHeader>, P2pError>, Given) {
    let res: Result<Vec<ExtendedHeader>, HeaderExError> = match ans {
        PeerAnswer::Valid(v) => Ok(v),
        PeerAnswer::Wire(w) => verif::header_ex::decode_and_verify_responses(request, &w).await,
        PeerAnswer::Fail(f) => Err(HeaderExError::OutboundFailure(f)),
    };
    match res {
        Ok(v) => {
            let given = Given::Headers {
                start: v.first().map(|h| h.height()).unwrap_or(0),
                len: v.len() as u64,
                srcs: classify(chains, &v),
            };
            (Ok(v), given)
        }
        Err(e) => {
            let s = e.to_string();
            (Err(P2pError::HeaderEx(e)), Given::Err(s))
        }
    }
}

// ---------------------------------------------------------------------------------------------
// Simulation engine
// ---------------------------------------------------------------------------------------------

pub struct PendingReq {
    pub origin: u64,
    pub amount: u64,
    pub request: HeaderRequest,
    pub respond_to: VResponder<Vec<ExtendedHeader>>,
    pub at_ms: u64,
}

#[derive(Clone, Copy, Debug, PartialEq, Eq, PartialOrd, Ord)]
pub enum Timer {
    /// Answer request `id` now (what to answer was decided by the driver and is kept by it).
    Respond(u64),
    Tick,
    Custom(u32, u64),
}

pub enum Incoming {
    Head(u64),
    Range(u64),
    InitSub(u64),
    Timer(Timer),
    Other,
    /// Command channel closed (all `P2p` clones dropped).
    Closed,
    /// Wall-clock watchdog or event cap: the run must be abandoned as inconclusive.
    Watchdog,
}

pub struct Sim {
    pub log: Arc<Log>,
    pub store: Arc<LStore>,
    pub handle: VP2pHandle,
    pub syncer: VSyncer<LStore>,
    pub sub_tx: Option<mpsc::Sender<ExtendedHeader>>,
    pub pending: BTreeMap<u64, PendingReq>,
    timers: BinaryHeap<Reverse<(u64, u64, Timer)>>,
    tie: u64,
    next_id: u64,
    pub range_reqs: u64,
    pub head_reqs: u64,
    pub last_range_req_ms: u64,
    _events: VEventChannel,
    _p2p: VP2p,
}

pub struct SimArgs {
    pub batch_size: u64,
    pub sampling_window: Duration,
    pub pruning_window: Duration,
    pub wall_budget: Duration,
    /// Header ranges put into the store (through the logged store) before the syncer starts.
    pub prefill: Vec<Vec<ExtendedHeader>>,
}

const MAX_LOG: usize = 3_000_000;

impl Sim {
    /// Must be called inside the paused current-thread runtime.
    pub async fn start(args: SimArgs) -> Result<Sim, String> {
        let events = VEventChannel::new();
        let log = Arc::new(Log {
            recs: Mutex::new(Vec::new()),
            sub: Mutex::new(events.subscribe()),
            t0: tokio::time::Instant::now(),
            wall_deadline: std::time::Instant::now() + args.wall_budget,
            tripped: AtomicBool::new(false),
            last_started: Mutex::new(None),
        });
        let sink_log = log.clone();
        let store = Arc::new(LoggedStore::new(
            InMemoryStore::new(),
            Clock::new(),
            Arc::new(move |e: StoreEvent| {
                // Emergency brake against a zero-virtual-time spin inside the component under
                // test: abandons the run (reported as inconclusive by the driver).
                if sink_log.len() > MAX_LOG || std::time::Instant::now() > sink_log.wall_deadline {
                    sink_log.tripped.store(true, Ordering::SeqCst);
                    panic!("VERIF-WATCHDOG: run abandoned");
                }
                sink_log.push(Ev::Store(e));
            }),
        ));
        for r in args.prefill {
            store.insert(r).await.map_err(|e| format!("prefill: {e}"))?;
        }
        log.push(Ev::Mark("prefill done, syncer starts"));
        let (p2p, handle) = VP2p::mocked();
        let syncer = VSyncer::start(&p2p, store.clone(), &events, args.batch_size, args.sampling_window, args.pruning_window)?;
        Ok(Sim {
            log,
            store,
            handle,
            syncer,
            sub_tx: None,
            pending: BTreeMap::new(),
            timers: BinaryHeap::new(),
            tie: 0,
            next_id: 0,
            range_reqs: 0,
            head_reqs: 0,
            last_range_req_ms: 0,
            _events: events,
            _p2p: p2p,
        })
    }

    pub fn now_ms(&self) -> u64 {
        self.log.now_ms()
    }

    pub fn after(&mut self, delay_ms: u64, t: Timer) {
        self.tie += 1;
        self.timers.push(Reverse((self.now_ms() + delay_ms, self.tie, t)));
    }

    pub fn set_peers(&mut self, connected: u64, trusted: u64) {
        self.log.push(Ev::Peers { connected, trusted });
        self.handle.set_peer_tracker_info(PeerTrackerInfo {
            num_connected_peers: connected,
            num_connected_trusted_peers: trusted,
            ..Default::default()
        });
    }

    /// Header-sub delivery exactly as the real worker does it: `try_send`, never blocking.
    pub fn announce(&mut self, h: &ExtendedHeader) -> bool {
        let delivered = match &self.sub_tx {
            Some(tx) => tx.try_send(h.clone()).is_ok(),
            None => false,
        };
        self.log.push(Ev::Announce { height: h.height(), delivered });
        delivered
    }

    /// Pruner action through the logged store.
    pub async fn prune(&mut self, h: u64) -> bool {
        self.store.remove_height(h).await.is_ok()
    }

    pub async fn respond(&mut self, chains: &Chains, id: u64, family: &'static str, ans: PeerAnswer) {
        let Some(p) = self.pending.remove(&id) else { return };
        let (res, given) = deliver(chains, &p.request, ans).await;
        let dropped = p.respond_to.send(res).is_err();
        self.log.push(Ev::Resp { id, family, given, dropped });
    }

    /// Forget requests whose requester has gone away (cancelled batch).
    pub fn reap(&mut self) -> usize {
        let dead: Vec<u64> = self.pending.iter().filter(|(_, p)| p.respond_to.is_closed()).map(|(k, _)| *k).collect();
        for id in &dead {
            self.pending.remove(id);
        }
        dead.len()
    }

    pub async fn next(&mut self) -> Incoming {
        if self.log.tripped.load(Ordering::SeqCst) || std::time::Instant::now() > self.log.wall_deadline {
            return Incoming::Watchdog;
        }
        let due = self.timers.peek().map(|t| self.log.t0 + Duration::from_millis(t.0.0));
        let cmd = tokio::select! {
            biased;
            cmd = self.handle.recv_cmd() => Some(cmd),
            _ = async { match due { Some(d) => tokio::time::sleep_until(d).await, None => std::future::pending().await } } => None,
        };
        match cmd {
            None => {
                let Reverse((_, _, t)) = self.timers.pop().expect("timer due");
                Incoming::Timer(t)
            }
            Some(None) => Incoming::Closed,
            Some(Some(VP2pCmd::HeaderExRequest { request, respond_to })) => {
                let id = self.next_id;
                self.next_id += 1;
                let (origin, amount) = match &request.data {
                    Some(Data::Origin(o)) => (*o, request.amount),
                    _ => (u64::MAX, request.amount),
                };
                self.log.push(Ev::Req { id, origin, amount });
                let at_ms = self.now_ms();
                self.pending.insert(id, PendingReq { origin, amount, request, respond_to, at_ms });
                if origin == 0 {
                    self.head_reqs += 1;
                    Incoming::Head(id)
                } else {
                    self.range_reqs += 1;
                    self.last_range_req_ms = at_ms;
                    Incoming::Range(id)
                }
            }
            Some(Some(VP2pCmd::InitHeaderSub { head, channel })) => {
                self.log.push(Ev::InitSub { head: head.height() });
                self.sub_tx = Some(channel);
                Incoming::InitSub(head.height())
            }
            Some(Some(VP2pCmd::GetNetworkHead { respond_to })) => {
                let _ = respond_to.send(None);
                Incoming::Other
            }
            Some(Some(_)) => Incoming::Other,
        }
    }

    /// Stop the worker and collect the log. Returns `Err` if the worker had already died.
    pub async fn finish(self) -> (Vec<Rec>, bool) {
        let alive = self.syncer.info().await.is_ok();
        self.syncer.stop();
        let _ = tokio::time::timeout(Duration::from_secs(5), self.syncer.join()).await;
        self.log.drain();
        (self.log.snapshot(), alive)
    }
}

/// Real content of the wrapped store (unlogged harness read).
pub async fn stored_heights(store: &LStore) -> Vec<u64> {
    let r = store.inner.get_stored_header_ranges().await.unwrap();
    r.as_ref().iter().flat_map(|x| x.clone()).collect()
}

pub fn tail_history(log: &[Rec], upto: usize, max: usize) -> Vec<String> {
    let sel: Vec<&Rec> = log[..=upto.min(log.len() - 1)].iter().filter(|r| essential(r)).collect();
    let from = sel.len().saturating_sub(max);
    sel[from..].iter().map(|r| render(r)).collect()
}

pub fn run_paused<T>(f: impl std::future::Future<Output = T>) -> T {
    let rt = tokio::runtime::Builder::new_current_thread()
        .enable_time()
        .start_paused(true)
        .build()
        .expect("runtime");
    rt.block_on(f)
}

pub fn params_json(layout: &Layout, extra: vcore::Value) -> vcore::Value {
    json!({"n_old": layout.n_old, "block_time_s": layout.bt.as_secs(), "sampling_window_s": layout.window.as_secs(), "run": extra})
}
