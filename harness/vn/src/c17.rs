//! C17 — BlockRanges behaves as a set of heights.
//!
//! Oracle: an independent interval-set model (`ISet`, u128 arithmetic, "collect, sort, merge").
//! After every operation on the real `BlockRanges` the result value, the full content and the
//! representation invariant (sorted, disjoint, non-adjacent, no height 0, non-empty ranges) are
//! compared with the model.

use lumina_node::block_ranges::{BlockRange, BlockRanges};
use lumina_node::verif::ranges as vr;
use vcore::{Ctx, Rng, guard, json, panic_site};

const MAX: u128 = u64::MAX as u128;

/// Model: sorted, disjoint, non-adjacent inclusive intervals over 1..=u64::MAX.
#[derive(Clone, Debug, PartialEq, Eq, Hash, Default)]
pub struct ISet(pub Vec<(u64, u64)>);

impl ISet {
    pub fn normalize(mut v: Vec<(u64, u64)>) -> ISet {
        v.retain(|(a, b)| a <= b && *b >= 1);
        for x in v.iter_mut() {
            if x.0 == 0 {
                x.0 = 1;
            }
        }
        v.sort();
        let mut out: Vec<(u64, u64)> = Vec::new();
        for (a, b) in v {
            if let Some(last) = out.last_mut() {
                if (a as u128) <= last.1 as u128 + 1 {
                    if b > last.1 {
                        last.1 = b;
                    }
                    continue;
                }
            }
            out.push((a, b));
        }
        ISet(out)
    }
    pub fn from_mask(mask: u32) -> ISet {
        let mut v = Vec::new();
        for h in 1..=31u64 {
            if mask & (1 << h) != 0 {
                v.push((h, h));
            }
        }
        ISet::normalize(v)
    }
    pub fn contains(&self, h: u64) -> bool {
        self.0.iter().any(|(a, b)| *a <= h && h <= *b)
    }
    pub fn len(&self) -> u128 {
        self.0.iter().map(|(a, b)| (*b - *a) as u128 + 1).sum()
    }
    pub fn head(&self) -> Option<u64> {
        self.0.last().map(|x| x.1)
    }
    pub fn tail(&self) -> Option<u64> {
        self.0.first().map(|x| x.0)
    }
    pub fn union(&self, o: &ISet) -> ISet {
        let mut v = self.0.clone();
        v.extend(o.0.iter().copied());
        ISet::normalize(v)
    }
    pub fn complement(&self) -> ISet {
        let mut out = Vec::new();
        let mut next: u128 = 1;
        for (a, b) in &self.0 {
            if (*a as u128) > next {
                out.push((next as u64, *a - 1));
            }
            next = *b as u128 + 1;
        }
        if next <= MAX {
            out.push((next as u64, u64::MAX));
        }
        ISet(out)
    }
    pub fn intersection(&self, o: &ISet) -> ISet {
        let mut v = Vec::new();
        for (a, b) in &self.0 {
            for (c, d) in &o.0 {
                let s = *a.max(c);
                let e = *b.min(d);
                if s <= e {
                    v.push((s, e));
                }
            }
        }
        ISet::normalize(v)
    }
    pub fn difference(&self, o: &ISet) -> ISet {
        self.intersection(&o.complement())
    }
    pub fn insert(&self, a: u64, b: u64) -> ISet {
        self.union(&ISet::normalize(vec![(a, b)]))
    }
    pub fn remove(&self, a: u64, b: u64) -> ISet {
        self.difference(&ISet::normalize(vec![(a, b)]))
    }
    /// The `n` highest heights.
    pub fn headn(&self, n: u64) -> ISet {
        let mut left = n as u128;
        let mut v = Vec::new();
        for (a, b) in self.0.iter().rev() {
            if left == 0 {
                break;
            }
            let l = (*b - *a) as u128 + 1;
            if l <= left {
                v.push((*a, *b));
                left -= l;
            } else {
                v.push(((*b as u128 - left + 1) as u64, *b));
                left = 0;
            }
        }
        ISet::normalize(v)
    }
    /// The `n` lowest heights.
    pub fn tailn(&self, n: u64) -> ISet {
        let mut left = n as u128;
        let mut v = Vec::new();
        for (a, b) in self.0.iter() {
            if left == 0 {
                break;
            }
            let l = (*b - *a) as u128 + 1;
            if l <= left {
                v.push((*a, *b));
                left -= l;
            } else {
                v.push((*a, (*a as u128 + left - 1) as u64));
                left = 0;
            }
        }
        ISet::normalize(v)
    }
    pub fn edges(&self) -> ISet {
        let mut v = Vec::new();
        for (a, b) in &self.0 {
            v.push((*a, *a));
            v.push((*b, *b));
        }
        ISet::normalize(v)
    }
    /// Greatest element strictly below `h`.
    pub fn left_of(&self, h: u64) -> Option<u64> {
        let mut best = None;
        for (a, b) in &self.0 {
            if *b < h {
                best = Some(*b);
            } else if *a < h {
                best = Some(h - 1);
            }
        }
        best
    }
    /// Smallest element strictly above `h`.
    pub fn right_of(&self, h: u64) -> Option<u64> {
        for (a, b) in &self.0 {
            if *a > h {
                return Some(*a);
            } else if *b > h {
                return Some(h + 1);
            }
        }
        None
    }
}

pub fn to_model(r: &BlockRanges) -> ISet {
    ISet::normalize(
        r.as_ref()
            .iter()
            .map(|x| (*x.start(), *x.end()))
            .collect(),
    )
}

pub fn from_model(m: &ISet) -> BlockRanges {
    BlockRanges::from_vec(m.0.iter().map(|(a, b)| *a..=*b).collect()).expect("model is normalized")
}

/// Representation invariant, checked on the raw slice.
pub fn repr_ok(r: &BlockRanges) -> Result<(), String> {
    let s = r.as_ref();
    for (i, x) in s.iter().enumerate() {
        if *x.start() == 0 {
            return Err(format!("range {i} starts at height 0: {x:?}"));
        }
        if x.start() > x.end() {
            return Err(format!("range {i} is empty/inverted: {x:?}"));
        }
        if i > 0 {
            let p = &s[i - 1];
            if *p.end() as u128 + 1 >= *x.start() as u128 {
                return Err(format!("ranges {} and {i} unsorted/overlapping/adjacent: {p:?} {x:?}", i - 1));
            }
        }
    }
    Ok(())
}

struct Mon<'a> {
    ctx: &'a Ctx,
}

impl Mon<'_> {
    fn viol(&self, op: &str, kind: &str, msg: String, set: &ISet, arg: String) {
        self.ctx.violation(
            &format!("C17/{op}/{kind}"),
            &msg,
            json!({"op": op, "set": format!("{:?}", set.0), "arg": arg}),
        );
    }

    /// Compare a `BlockRanges` result with the model value.
    fn same(&self, op: &str, set: &ISet, arg: &dyn Fn() -> String, got: &BlockRanges, want: &ISet) {
        if let Err(e) = repr_ok(got) {
            self.viol(op, "repr", format!("representation invariant broken: {e}"), set, arg());
        }
        let g = to_model(got);
        if &g != want {
            let class = if want.0.iter().any(|x| x.1 == u64::MAX) || set.0.iter().any(|x| x.1 == u64::MAX) {
                "mismatch-at-u64max"
            } else {
                "mismatch"
            };
            self.viol(op, class, format!("got {:?}, set semantics give {:?}", g.0, want.0), set, arg());
        }
    }

    fn val<T: PartialEq + std::fmt::Debug>(&self, op: &str, set: &ISet, arg: &dyn Fn() -> String, got: T, want: T) {
        if got != want {
            self.viol(op, "mismatch", format!("got {got:?}, set semantics give {want:?}"), set, arg());
        }
    }

    fn run<T>(&self, op: &str, set: &ISet, arg: &dyn Fn() -> String, f: impl FnOnce() -> T) -> Option<T> {
        self.ctx.eval();
        match guard(f) {
            Ok(v) => Some(v),
            Err(p) => {
                self.ctx.violation(
                    &format!("C17/{op}/panic/{}", panic_site(&p)),
                    &format!("panicked: {p}"),
                    json!({"op": op, "set": format!("{:?}", set.0), "arg": arg()}),
                );
                None
            }
        }
    }

    /// All unary operations and operations with a scalar/range argument from `args`.
    fn unary(&self, m: &ISet, heights: &[u64], limits: &[u64], ranges: &[(u64, u64)]) {
        let r = from_model(m);
        let none = || String::new();
        if let Some(v) = self.run("len", m, &none, || r.len()) {
            self.val("len", m, &none, v as u128, m.len());
        }
        if let Some(v) = self.run("is_empty", m, &none, || r.is_empty()) {
            self.val("is_empty", m, &none, v, m.0.is_empty());
        }
        if let Some(v) = self.run("head", m, &none, || r.head()) {
            self.val("head", m, &none, v, m.head());
        }
        if let Some(v) = self.run("tail", m, &none, || r.tail()) {
            self.val("tail", m, &none, v, m.tail());
        }
        if let Some(v) = self.run("edges", m, &none, || vr::edges(&r)) {
            self.same("edges", m, &none, &v, &m.edges());
        }
        if let Some(v) = self.run("complement", m, &none, || !r.clone()) {
            self.same("complement", m, &none, &v, &m.complement());
        }
        // pop_head / pop_tail
        if let Some((v, rest)) = self.run("pop_head", m, &none, || {
            let mut c = r.clone();
            let v = c.pop_head();
            (v, c)
        }) {
            self.val("pop_head", m, &none, v, m.head());
            let want = match m.head() {
                Some(h) => m.remove(h, h),
                None => m.clone(),
            };
            self.same("pop_head", m, &none, &rest, &want);
        }
        if let Some((v, rest)) = self.run("pop_tail", m, &none, || {
            let mut c = r.clone();
            let v = c.pop_tail();
            (v, c)
        }) {
            self.val("pop_tail", m, &none, v, m.tail());
            let want = match m.tail() {
                Some(h) => m.remove(h, h),
                None => m.clone(),
            };
            self.same("pop_tail", m, &none, &rest, &want);
        }
        // partitions
        if let Some(p) = self.run("partitions", m, &none, || vr::partitions(&r)) {
            match p {
                None => self.val("partitions", m, &none, true, m.0.is_empty()),
                Some((l, mid, rt)) => {
                    let (lm, rm) = (to_model(&l), to_model(&rt));
                    for (x, nm) in [(&l, "left"), (&rt, "right")] {
                        if let Err(e) = repr_ok(x) {
                            self.viol("partitions", "repr", format!("{nm}: {e}"), m, String::new());
                        }
                    }
                    let whole = lm.union(&rm).insert(mid, mid);
                    let ok = m.contains(mid)
                        && !lm.contains(mid)
                        && !rm.contains(mid)
                        && lm.head().is_none_or(|h| h < mid)
                        && rm.tail().is_none_or(|t| t > mid)
                        && &whole == m
                        && lm.len() + rm.len() + 1 == m.len()
                        && lm.len().abs_diff(rm.len()) <= 1;
                    if !ok {
                        self.viol(
                            "partitions",
                            "mismatch",
                            format!("left {:?} mid {mid} right {:?} is not a balanced partition", lm.0, rm.0),
                            m,
                            String::new(),
                        );
                    }
                }
            }
        }
        // iteration
        if m.len() <= 64 {
            if let Some(v) = self.run("iter", m, &none, || r.clone().collect::<Vec<u64>>()) {
                let want: Vec<u64> = m.0.iter().flat_map(|(a, b)| *a..=*b).collect();
                self.val("iter", m, &none, v, want);
            }
            if let Some(v) = self.run("iter_rev", m, &none, || r.clone().rev().collect::<Vec<u64>>()) {
                let mut want: Vec<u64> = m.0.iter().flat_map(|(a, b)| *a..=*b).collect();
                want.reverse();
                self.val("iter_rev", m, &none, v, want);
            }
        }
        for &h in heights {
            let a = move || format!("{h}");
            if let Some(v) = self.run("contains", m, &a, || r.contains(h)) {
                self.val("contains", m, &a, v, m.contains(h));
            }
            // height 0 is not a height: left_of/right_of document `h >= 1` with a debug assertion
            if h == 0 {
                continue;
            }
            if let Some(v) = self.run("left_of", m, &a, || vr::left_of(&r, h)) {
                self.val("left_of", m, &a, v, m.left_of(h));
            }
            if let Some(v) = self.run("right_of", m, &a, || vr::right_of(&r, h)) {
                self.val("right_of", m, &a, v, m.right_of(h));
            }
        }
        for &n in limits {
            let a = move || format!("{n}");
            if let Some(v) = self.run("headn", m, &a, || vr::headn(&r, n)) {
                self.same("headn", m, &a, &v, &m.headn(n));
            }
            if let Some(v) = self.run("tailn", m, &a, || vr::tailn(&r, n)) {
                self.same("tailn", m, &a, &v, &m.tailn(n));
            }
        }
        for &(a, b) in ranges {
            let arg = move || format!("{a}..={b}");
            let valid = a >= 1 && a <= b;
            if let Some((res, c)) = self.run("insert_relaxed", m, &arg, || {
                let mut c = r.clone();
                let res = c.insert_relaxed(a..=b).is_ok();
                (res, c)
            }) {
                self.val("insert_relaxed", m, &arg, res, valid);
                let want = if valid { m.insert(a, b) } else { m.clone() };
                self.same("insert_relaxed", m, &arg, &c, &want);
            }
            if let Some((res, c)) = self.run("remove_relaxed", m, &arg, || {
                let mut c = r.clone();
                let res = c.remove_relaxed(a..=b).is_ok();
                (res, c)
            }) {
                self.val("remove_relaxed", m, &arg, res, valid);
                let want = if valid { m.remove(a, b) } else { m.clone() };
                self.same("remove_relaxed", m, &arg, &c, &want);
            }
        }
    }

    fn binary(&self, m: &ISet, o: &ISet) {
        let (r, s) = (from_model(m), from_model(o));
        let arg = || format!("{:?}", o.0);
        if let Some(v) = self.run("union", m, &arg, || r.clone() | s.clone()) {
            self.same("union", m, &arg, &v, &m.union(o));
        }
        if let Some(v) = self.run("add", m, &arg, || r.clone() + &s) {
            self.same("add", m, &arg, &v, &m.union(o));
        }
        if let Some(v) = self.run("difference", m, &arg, || r.clone() - &s) {
            self.same("difference", m, &arg, &v, &m.difference(o));
        }
        if let Some(v) = self.run("intersection", m, &arg, || r.clone() & &s) {
            self.same("intersection", m, &arg, &v, &m.intersection(o));
        }
    }

    /// Single `BlockRange` helpers (used by the syncer's batch selection).
    fn range_ops(&self, a: u64, b: u64, n: u64) {
        if a == 0 {
            return;
        }
        let set = if a <= b { ISet(vec![(a, b)]) } else { ISet::default() };
        let rg: BlockRange = a..=b;
        let arg = move || format!("{a}..={b} limit {n}");
        let as_set = |r: &BlockRange| {
            if r.start() <= r.end() {
                ISet::normalize(vec![(*r.start(), *r.end())])
            } else {
                ISet::default()
            }
        };
        if let Some(v) = self.run("range_headn", &set, &arg, || vr::range_headn(&rg, n)) {
            let want = set.headn(n);
            if as_set(&v) != want {
                let k = if b == u64::MAX { "mismatch-at-u64max" } else { "mismatch" };
                self.viol("range_headn", k, format!("got {v:?}, want {:?}", want.0), &set, arg());
            }
        }
        if let Some(v) = self.run("range_tailn", &set, &arg, || vr::range_tailn(&rg, n)) {
            let want = set.tailn(n);
            if as_set(&v) != want {
                let k = if a.checked_add(n).is_none() { "mismatch-start+limit-overflows" } else { "mismatch" };
                self.viol("range_tailn", k, format!("got {v:?}, want {:?}", want.0), &set, arg());
            }
        }
        if let Some(v) = self.run("range_len", &set, &arg, || vr::range_len(&rg)) {
            self.val("range_len", &set, &arg, v as u128, set.len());
        }
    }
}

fn pool(rng: &mut impl Rng) -> u64 {
    match rng.gen_range(0..10) {
        0 => rng.gen_range(1..4),
        1 => rng.gen_range(1..40),
        2 => u64::MAX - rng.gen_range(0..6),
        3 => u64::MAX,
        4 => (1u64 << 32) - 2 + rng.gen_range(0..4),
        5 => rng.gen_range(1..1000),
        6 => u64::MAX / 2 + rng.gen_range(0..4),
        7 => 0,
        _ => rng.gen_range(1..200),
    }
}

fn random_set(rng: &mut impl Rng) -> ISet {
    let n = rng.gen_range(0..6);
    let mut v = Vec::new();
    for _ in 0..n {
        let a = pool(rng).max(1);
        let l = match rng.gen_range(0..4) {
            0 => 0,
            1 => rng.gen_range(0..5),
            2 => rng.gen_range(0..100),
            _ => rng.r#gen::<u64>() >> rng.gen_range(0..64),
        };
        v.push((a, a.saturating_add(l)));
    }
    ISet::normalize(v)
}

pub fn run(ctx: &Ctx) {
    ctx.rule(
        "(a) every subset of heights 1..=10 x every operation x every argument in 0..=12 (binary ops: \
         every/sampled second subset); (b) random sets and op sequences over a boundary pool \
         {small, 2^32±, u64::MAX-k, u64::MAX, 0}. Non-trivial = (operation, abstract set) pair whose \
         result was compared with the model; distinct by hash of (op-group, set, argument set).",
    );
    ctx.assume("ISet model (collect/sort/merge intervals in u128) is the specification of 'set of heights'");
    let mon = Mon { ctx };

    // (a) exhaustive small universe
    let heights: Vec<u64> = (0..=12).collect();
    let mut limits: Vec<u64> = (0..=12).collect();
    limits.push(u64::MAX);
    let mut ranges = Vec::new();
    for a in 0..=12u64 {
        for b in 0..=12u64 {
            ranges.push((a, b));
        }
    }
    let tiny = ctx.tiny();
    let masks: Vec<u32> = if tiny {
        // Miri: 24 sets spread over the universe, few arguments
        (0..1024u32).step_by(43).map(|m| m << 1).collect()
    } else {
        (0..1024u32).map(|m| m << 1).collect()
    };
    if tiny {
        ranges.retain(|(a, b)| (a + 2 * b) % 7 == 0);
        limits.retain(|n| n % 4 == 0 || *n == u64::MAX);
    }
    let n_masks = masks.len();
    let n_second = ctx.scale3(3usize, 48usize, 1024usize);
    let shards = ctx.cores();
    ctx.par(shards, |shard| {
        let mon = Mon { ctx };
        for (i, mask) in masks.iter().enumerate() {
            if i % shards != shard {
                continue;
            }
            let m = ISet::from_mask(*mask);
            mon.unary(&m, &heights, &limits, &ranges);
            ctx.nontrivial(&("unary", mask));
            let mut rng = ctx.rng(1, i as u64);
            for j in 0..n_second {
                let other = if n_second == 1024 { masks[j] } else { masks[rng.gen_range(0..n_masks)] };
                mon.binary(&m, &ISet::from_mask(other));
                ctx.nontrivial(&("binary", mask, other));
            }
            ctx.count("small_universe_sets");
        }
    });
    ctx.extra("small_universe_exhaustive_unary", json!(true));
    ctx.extra("small_universe_binary_second_operands_per_set", json!(n_second));

    // single-range helpers: exhaustive small + boundary pool
    for a in 1..=ctx.scale3(3, 12, 12u64) {
        for b in 0..=12u64 {
            for n in 0..=13u64 {
                mon.range_ops(a, b, n);
            }
            mon.range_ops(a, b, u64::MAX);
        }
    }

    // (b) random histories over the full u64 range
    let histories = ctx.scale3(6u64, 4_000u64, 200_000u64);
    let ops_per = 12;
    ctx.par(shards, |shard| {
        let mon = Mon { ctx };
        for case in (shard as u64..histories).step_by(shards) {
            let mut rng = ctx.rng(2, case);
            let mut m = random_set(&mut rng);
            for _ in 0..ops_per {
                let hs: Vec<u64> = (0..3).map(|_| pool(&mut rng)).collect();
                let ls: Vec<u64> = (0..3).map(|_| pool(&mut rng)).collect();
                let rs: Vec<(u64, u64)> = (0..2)
                    .map(|_| {
                        let a = pool(&mut rng);
                        let b = if rng.gen_bool(0.5) { a.saturating_add(rng.gen_range(0..50)) } else { pool(&mut rng) };
                        (a, b)
                    })
                    .collect();
                mon.unary(&m, &hs, &ls, &rs);
                let o = random_set(&mut rng);
                mon.binary(&m, &o);
                mon.range_ops(pool(&mut rng).max(1), pool(&mut rng), pool(&mut rng));
                ctx.nontrivial(&("hist", &m, &o, &hs, &ls, &rs));
                if m.0.iter().any(|x| x.1 == u64::MAX) {
                    ctx.count("sets_containing_u64max");
                }
                ctx.sample(|| json!({"set": format!("{:?}", m.0), "other": format!("{:?}", o.0), "heights": hs, "limits": ls, "ranges": rs}));
                // evolve the set through the real implementation's own result
                m = match rng.gen_range(0..4) {
                    0 => m.union(&o),
                    1 => m.difference(&o),
                    2 => m.insert(rs[0].0.max(1), rs[0].1.max(rs[0].0.max(1))),
                    _ => o,
                };
            }
            ctx.count("random_histories");
        }
    });
    if !tiny {
        ctx.floor("small_universe_sets", 1024);
        ctx.floor("sets_containing_u64max", 100);
    }
}
