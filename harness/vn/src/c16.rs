//! C16 (vn half) — decoding network input never panics: node-side codecs reached through the
//! `lumina_node::verif` hooks (header-ex wire codec, header-ex client response validation,
//! header-ex server request handling, shrex response/request codecs, EDS notifications,
//! shwap multihasher and block container extraction).
//!
//! Same method as the vt half (shared generators in `vt/src/c16_gen.rs`): honest encodings of every
//! message → byte / wire-tree mutations, truncations, and structured adversarial protobufs; every
//! lumina call runs under `vcore::guard`; a panic is a violation `C16/<codec>/panic/<file:line>`.

#[path = "../../vt/src/c16_gen.rs"]
#[macro_use]
mod c16_gen;

use std::sync::Arc;
use std::task::{Context, Poll};

use c16_gen::*;
use celestia_proto::bitswap::Block as RawBlock;
use celestia_proto::p2p::pb::header_request::Data;
use celestia_proto::p2p::pb::{HeaderRequest, HeaderResponse};
use celestia_proto::share::p2p::shrex::sub::RecentEdsNotification;
use celestia_proto::shwap::{
    Row as RawRow, RowNamespaceData as RawRnd, Sample as RawSample, Share as RawShare,
};
use celestia_types::consts::appconsts::SHARE_SIZE;
use celestia_types::eds::EdsId;
use celestia_types::namespace_data::NamespaceDataId;
use celestia_types::row::{ROW_ID_MULTIHASH_CODE, Row, RowId};
use celestia_types::row_namespace_data::{ROW_NAMESPACE_DATA_ID_MULTIHASH_CODE, RowNamespaceDataId};
use celestia_types::sample::{SAMPLE_ID_MULTIHASH_CODE, Sample, SampleId};
use celestia_types::{AxisType, ExtendedHeader};
use cid::CidGeneric;
use futures::io::Cursor;
use libp2p::PeerId;
use lumina_node::store::{InMemoryStore, Store};
use lumina_node::verif::header_ex::{VHeaderCodec, VHeaderExServer, decode_and_verify_responses};
use lumina_node::verif::{shrex, shwap};
use prost::Message;
use vcore::{ChaCha8Rng, Ctx, Rng, SliceRandom, json, rand_bytes};
use vgen::chain::ChainGen;

pub struct Env {
    fxs: Vec<Fixture>,
    /// holds the fixture headers at their heights (for the shwap multihasher)
    fx_store: Arc<InMemoryStore>,
    /// a contiguous honest chain 1..=CHAIN_LEN (header-ex server / client)
    chain: Vec<ExtendedHeader>,
    chain_store: Arc<InMemoryStore>,
}

const CHAIN_LEN: u64 = 24;

fn fx<'a>(e: &'a Env, p: &Params) -> &'a Fixture {
    &e.fxs[p.fx % e.fxs.len()]
}

thread_local! {
    static RT: tokio::runtime::Runtime = tokio::runtime::Builder::new_current_thread()
        .enable_time()
        .start_paused(true)
        .build()
        .unwrap();
}

fn block_on<T>(f: impl std::future::Future<Output = T>) -> T {
    RT.with(|rt| rt.block_on(f))
}

fn lab<T, E: std::fmt::Display>(r: &Result<T, E>) -> String {
    match r {
        Ok(_) => "ok".into(),
        Err(e) => label_disp(e),
    }
}

/// First words of an error text (the shrex hooks stringify their errors).
fn lab_head<T, E: std::fmt::Display>(r: &Result<T, E>) -> String {
    match r {
        Ok(_) => "ok".into(),
        Err(e) => {
            let s = e.to_string();
            let mut out = String::new();
            let mut colons = 0;
            for ch in s.chars() {
                if ch.is_ascii_alphabetic() {
                    out.push(ch);
                } else if ch == ' ' || ch == '_' {
                    out.push('_');
                } else if ch == ':' && colons < 1 {
                    colons += 1;
                    out.push(':');
                } else {
                    break;
                }
                if out.len() > 70 {
                    break;
                }
            }
            out.trim_end_matches(['_', ':']).to_string()
        }
    }
}

// ---------------------------------------------------------------------------------------------
// Targets
// ---------------------------------------------------------------------------------------------

fn framed_ld<M: Message + Default>(b: &[u8]) -> bool {
    M::decode_length_delimited(b).is_ok()
}

fn t_shrex_row(e: &Env, p: &Params, b: &[u8]) -> Res {
    let f = fx(e, p);
    let Ok(id) = RowId::new(p.row, f.height) else { return Ok((false, "bad-id".into())) };
    let r = c16_stage!("shrex::decode_and_verify_row", shrex::decode_and_verify_row(b, &id, &f.dah, f.app));
    Ok((framed_ld::<RawRow>(b), lab_head(&r)))
}

fn t_shrex_sample(e: &Env, p: &Params, b: &[u8]) -> Res {
    let f = fx(e, p);
    let Ok(id) = SampleId::new(p.row, p.col, f.height) else { return Ok((false, "bad-id".into())) };
    let r = c16_stage!("shrex::decode_and_verify_sample", shrex::decode_and_verify_sample(b, &id, &f.dah, f.app));
    Ok((framed_ld::<RawSample>(b), lab_head(&r)))
}

fn t_shrex_nsdata(e: &Env, p: &Params, b: &[u8]) -> Res {
    let f = fx(e, p);
    let Ok(id) = NamespaceDataId::new(p.ns, f.height) else { return Ok((false, "bad-id".into())) };
    let r = c16_stage!(
        "shrex::decode_and_verify_namespace_data",
        shrex::decode_and_verify_namespace_data(b, &id, &f.dah, f.app)
    );
    // framed = the whole buffer is a sequence of length-delimited rows
    let mut rest = b;
    let mut framed = true;
    while !rest.is_empty() {
        if RawRnd::decode_length_delimited(&mut rest).is_err() {
            framed = false;
            break;
        }
    }
    Ok((framed, lab_head(&r)))
}

fn t_shrex_eds(e: &Env, p: &Params, b: &[u8]) -> Res {
    let f = fx(e, p);
    let Ok(id) = EdsId::new(f.height) else { return Ok((false, "bad-id".into())) };
    let app = vgen::square::ALL_APP_VERSIONS[(p.aux % 7) as usize];
    let r = c16_stage!("shrex::decode_and_verify_eds", shrex::decode_and_verify_eds(b, &id, &f.dah, if p.aux & 8 == 0 { f.app } else { app }));
    Ok((!b.is_empty() && b.len() % SHARE_SIZE == 0, lab_head(&r)))
}

fn t_eds_notification(_e: &Env, _p: &Params, b: &[u8]) -> Res {
    let r = c16_stage!("shrex::decode_eds_notification", shrex::decode_eds_notification(b));
    Ok((RecentEdsNotification::decode(b).is_ok(), lab_head(&r)))
}

fn t_shrex_requests(_e: &Env, _p: &Params, b: &[u8]) -> Res {
    let a = c16_stage!("shrex::decode_row_request", shrex::decode_row_request(b));
    let s = c16_stage!("shrex::decode_sample_request", shrex::decode_sample_request(b));
    let d = c16_stage!("shrex::decode_eds_request", shrex::decode_eds_request(b));
    let n = c16_stage!("shrex::decode_namespace_data_request", shrex::decode_namespace_data_request(b));
    // whatever decoded must re-encode
    if let Ok(id) = &a {
        let _ = c16_stage!("shrex::encode_row_request", shrex::encode_row_request(id));
    }
    if let Ok(id) = &n {
        let _ = c16_stage!("shrex::encode_namespace_data_request", shrex::encode_namespace_data_request(id));
    }
    let which = [a.is_ok(), s.is_ok(), d.is_ok(), n.is_ok()];
    let err = a.err().map(|e| lab_head::<(), _>(&Err(e))).unwrap_or_default();
    Ok((matches!(b.len(), 8 | 10 | 12 | 37), format!("{which:?}:{err}")))
}

fn mh_code(p: &Params) -> u64 {
    match p.aux % 5 {
        0 => ROW_ID_MULTIHASH_CODE,
        1 => SAMPLE_ID_MULTIHASH_CODE,
        2 => ROW_NAMESPACE_DATA_ID_MULTIHASH_CODE,
        3 => 0x12,
        _ => p.aux >> 8,
    }
}

fn t_multihash(e: &Env, p: &Params, b: &[u8]) -> Res {
    let code = mh_code(p);
    let r = c16_stage!("shwap::multihash", block_on(shwap::multihash(e.fx_store.clone(), code, b)));
    Ok((RawBlock::decode(b).is_ok(), format!("{}:{}", p.aux % 5, lab_head(&r))))
}

fn t_block_container(e: &Env, p: &Params, b: &[u8]) -> Res {
    let f = fx(e, p);
    let Ok(cid) = shwap::sample_cid(p.row, p.col, f.height) else { return Ok((false, "bad-id".into())) };
    let r = c16_stage!("shwap::get_block_container", shwap::get_block_container(&cid, b));
    Ok((RawBlock::decode(b).is_ok(), lab_head(&r)))
}

fn t_read_request(_e: &Env, _p: &Params, b: &[u8]) -> Res {
    let r = c16_stage!("header_ex::read_request", block_on(async {
        let mut io = Cursor::new(b.to_vec());
        VHeaderCodec::read_request(&mut io).await
    }));
    Ok((framed_ld::<HeaderRequest>(b), lab(&r)))
}

/// The request *we* sent (local, valid by construction): p.aux % 3 selects head / by-height / by-hash.
fn our_request(e: &Env, p: &Params) -> HeaderRequest {
    let origin = 1 + (p.row as u64 % CHAIN_LEN);
    match p.aux % 3 {
        0 => HeaderRequest { amount: 1, data: Some(Data::Origin(0)) },
        1 => HeaderRequest { amount: 1 + (p.col as u64 % 8), data: Some(Data::Origin(origin)) },
        _ => HeaderRequest {
            amount: 1,
            data: Some(Data::Hash(e.chain[(origin - 1) as usize].hash().as_bytes().to_vec())),
        },
    }
}

fn t_read_response(e: &Env, p: &Params, b: &[u8]) -> Res {
    let r = c16_stage!("header_ex::read_response", block_on(async {
        let mut io = Cursor::new(b.to_vec());
        VHeaderCodec::read_response(&mut io).await
    }));
    let resps = match r {
        Ok(v) => v,
        Err(err) => return Ok((false, format!("err:{}", label_disp(&err)))),
    };
    let req = our_request(e, p);
    let v = c16_stage!(
        "header_ex::decode_and_verify_responses",
        block_on(decode_and_verify_responses(&req, &resps))
    );
    Ok((true, format!("ok{}>req{}>verify:{}", resps.len().min(3), p.aux % 3, v.as_ref().map(|h| format!("ok{}", h.len().min(3))).unwrap_or_else(|e| label(e)))))
}

fn t_server(e: &Env, p: &Params, b: &[u8]) -> Res {
    let req = match c16_stage!("header_ex::read_request", block_on(async {
        let mut io = Cursor::new(b.to_vec());
        VHeaderCodec::read_request(&mut io).await
    })) {
        Ok(r) => r,
        Err(_) => return Ok((false, "framing".into())),
    };
    let store = if p.aux & 1 == 0 { e.chain_store.clone() } else { e.fx_store.clone() };
    let out = c16_stage!("header_ex_server", {
        let mut srv = VHeaderExServer::new(store);
        srv.on_request_received(PeerId::random(), req.clone(), 7);
        let waker = futures::task::noop_waker();
        let mut cx = Context::from_waker(&waker);
        let mut polls = 0;
        block_on(async {
            // the store futures complete without waiting; poll until nothing is left
            while let Poll::Ready(()) = srv.poll(&mut cx) {
                polls += 1;
                if polls > 8 {
                    break;
                }
            }
        });
        srv.take_responses()
    });
    let lab = match out.first() {
        None => "no-response".to_string(),
        Some((_, rs)) => format!("n{}:status{:?}", rs.len().min(3), rs.first().map(|r| r.status_code)),
    };
    Ok((true, lab))
}

// ---------------------------------------------------------------------------------------------
// Seeds / structured generators
// ---------------------------------------------------------------------------------------------

struct Target {
    name: &'static str,
    run: TargetFn<Env>,
    seeds: Vec<(Params, Vec<u8>)>,
    structured: fn(&mut ChaCha8Rng, &Env) -> (Params, Vec<u8>),
    weight: u32,
}

fn ld<M: Message>(m: &M) -> Vec<u8> {
    m.encode_length_delimited_to_vec()
}

fn adv_u64(rng: &mut ChaCha8Rng) -> u64 {
    match rng.gen_range(0..16) {
        0 => 0,
        1 => 1,
        2 => u64::MAX,
        3 => u64::MAX - 1,
        4 => u64::MAX - rng.gen_range(0..600),
        5 => rng.gen_range(1..=CHAIN_LEN + 3),
        6 => i64::MAX as u64,
        7 => 1 << 63,
        8 => 1 << 32,
        9 => 512,
        10 => 513,
        11 => u32::MAX as u64,
        12 => rng.gen_range(0..2000),
        _ => rng.gen_range(1..=CHAIN_LEN),
    }
}

fn adv_request(rng: &mut ChaCha8Rng, e: &Env) -> HeaderRequest {
    let data = match rng.gen_range(0..8) {
        0 => None,
        1 | 2 => Some(Data::Hash(match rng.gen_range(0..4) {
            0 => rb(rng, &[0, 1, 31, 33, 64]),
            1 => rand_bytes(rng, 32),
            _ => e.chain.choose(rng).unwrap().hash().as_bytes().to_vec(),
        })),
        _ => Some(Data::Origin(adv_u64(rng))),
    };
    HeaderRequest { amount: adv_u64(rng), data }
}

fn adv_responses(rng: &mut ChaCha8Rng, e: &Env, p: &Params) -> Vec<HeaderResponse> {
    let req = our_request(e, p);
    let origin = match req.data {
        Some(Data::Origin(o)) if o > 0 => o,
        _ => 1 + (p.row as u64 % CHAIN_LEN),
    };
    let n = match rng.gen_range(0..8) {
        0 => 0,
        1 => req.amount as usize + 1,
        2 => rng.gen_range(1..12),
        _ => req.amount as usize,
    };
    let mut out = Vec::new();
    for k in 0..n as u64 {
        let body = match rng.gen_range(0..12) {
            0 => vec![],
            1 => adv_header(rng, &e.fxs[p.fx]),
            2 => {
                let mut b = enc_header(e.chain.choose(rng).unwrap());
                mutate_stack(rng, &mut b);
                b
            }
            3 => enc_header(e.chain.choose(rng).unwrap()),
            4 => enc_header(&e.fxs[p.fx].header),
            _ => enc_header(&e.chain[((origin - 1 + k) % CHAIN_LEN) as usize]),
        };
        let status_code = *[1i32, 1, 1, 1, 1, 1, 0, 2, 3, -1, i32::MAX].choose(rng).unwrap();
        out.push(HeaderResponse { body, status_code });
    }
    if rng.gen_bool(0.15) {
        out.reverse();
    }
    out
}

fn ods_bytes(f: &Fixture) -> Vec<u8> {
    let mut out = Vec::with_capacity(f.ods_w * f.ods_w * SHARE_SIZE);
    for r in 0..f.ods_w {
        for c in 0..f.ods_w {
            out.extend_from_slice(f.share(r, c));
        }
    }
    out
}

fn build_targets(e: &Env, ctx: &Ctx) -> Vec<Target> {
    let mut rng = ctx.rng(1002, 0);
    let mut t: Vec<Target> = Vec::new();

    // ---- shrex responses
    let mut seeds = Vec::new();
    for f in &e.fxs {
        for _ in 0..3 {
            let r = rng.gen_range(0..f.w) as u16;
            let row = Row::new(r, &f.eds).unwrap();
            let mut p = Params::new(f.idx);
            p.row = r;
            seeds.push((p.clone(), shrex::encode_row_response(&row)));
            let raw = RawRow {
                shares_half: (f.ods_w..f.w).map(|c| RawShare { data: f.share(r as usize, c).clone() }).collect(),
                half_side: 1,
            };
            seeds.push((p, ld(&raw)));
        }
    }
    t.push(Target {
        name: "shrex::row",
        run: t_shrex_row,
        seeds,
        structured: |rng, e| {
            let p = Params::random(rng, &e.fxs);
            (p.clone(), ld(&adv_row(rng, &e.fxs[p.fx], &p)))
        },
        weight: 4,
    });
    let mut seeds = Vec::new();
    for f in &e.fxs {
        for _ in 0..6 {
            let (r, c) = (rng.gen_range(0..f.w) as u16, rng.gen_range(0..f.w) as u16);
            let axis = if rng.gen_bool(0.5) { AxisType::Row } else { AxisType::Col };
            let s = Sample::new(r, c, axis, &f.eds).unwrap();
            let mut p = Params::new(f.idx);
            p.row = r;
            p.col = c;
            seeds.push((p, shrex::encode_sample_response(&s)));
        }
    }
    t.push(Target {
        name: "shrex::sample",
        run: t_shrex_sample,
        seeds,
        structured: |rng, e| {
            let p = Params::random(rng, &e.fxs);
            (p.clone(), ld(&adv_sample(rng, &e.fxs[p.fx], &p)))
        },
        weight: 6,
    });
    let mut seeds = Vec::new();
    for f in &e.fxs {
        for ns in f.namespaces.iter().chain(f.absent.iter()) {
            let mut p = Params::new(f.idx);
            p.ns = *ns;
            let mut bytes = Vec::new();
            for r in 0..f.w {
                if let Some(d) = honest_rnd(f, *ns, r) {
                    bytes.extend(ld(&d));
                }
            }
            seeds.push((p, bytes));
        }
    }
    t.push(Target {
        name: "shrex::namespace_data",
        run: t_shrex_nsdata,
        seeds,
        structured: |rng, e| {
            let p = Params::random(rng, &e.fxs);
            let rows = adv_nsdata(rng, &e.fxs[p.fx], &p, false);
            let mut bytes = Vec::new();
            for d in &rows {
                bytes.extend(ld(d));
            }
            if rng.gen_bool(0.1) {
                // trailing garbage / truncated last row
                match rng.gen_range(0..3) {
                    0 => bytes.extend(rb(rng, &[1, 2, 5])),
                    1 => {
                        bytes.pop();
                    }
                    _ => bytes.push(0),
                }
            }
            (p, bytes)
        },
        weight: 4,
    });
    let mut seeds = Vec::new();
    for f in &e.fxs {
        if f.ods_w <= 16 {
            seeds.push((Params::new(f.idx), ods_bytes(f)));
        }
    }
    t.push(Target {
        name: "shrex::eds",
        run: t_shrex_eds,
        seeds,
        structured: |rng, e| {
            let mut p = Params::random(rng, &e.fxs);
            p.fx = p.fx.min(3); // squares up to ODS width 4 as the honest base (extension is costly)
            let f = &e.fxs[p.fx];
            let mut b = ods_bytes(f);
            for _ in 0..rng.gen_range(1..=2) {
                if b.len() < SHARE_SIZE {
                    break;
                }
                match rng.gen_range(0..10) {
                    0 => {
                        // number of shares: non-squares, non powers of two, one too many
                        let n = *[1usize, 2, 3, 4, 5, 9, 15, 16, 17, 25, 36, 49, 63, 64, 65].choose(rng).unwrap();
                        let one = b[..SHARE_SIZE].to_vec();
                        b = (0..n).flat_map(|k| if (k + 1) * SHARE_SIZE <= b.len() { b[k * SHARE_SIZE..(k + 1) * SHARE_SIZE].to_vec() } else { one.clone() }).collect();
                    }
                    1 => {
                        let k = rng.gen_range(0..b.len() / SHARE_SIZE);
                        let s = adv_share_data(rng, f, 0, 0);
                        let mut s = s;
                        s.resize(SHARE_SIZE, 0);
                        b[k * SHARE_SIZE..(k + 1) * SHARE_SIZE].copy_from_slice(&s);
                    }
                    2 => {
                        // swap two shares (namespace order)
                        let n = b.len() / SHARE_SIZE;
                        let (i, j) = (rng.gen_range(0..n), rng.gen_range(0..n));
                        for x in 0..SHARE_SIZE {
                            b.swap(i * SHARE_SIZE + x, j * SHARE_SIZE + x);
                        }
                    }
                    3 => {
                        b.pop();
                    }
                    4 => b.push(0),
                    5 => b.clear(),
                    6 => {
                        let i = rng.gen_range(0..b.len());
                        b[i] ^= 1 << rng.gen_range(0..8);
                    }
                    7 => {
                        // parity namespace / tail padding inside the ODS
                        let k = rng.gen_range(0..b.len() / SHARE_SIZE);
                        for x in 0..29 {
                            b[k * SHARE_SIZE + x] = 0xff;
                        }
                    }
                    _ => {}
                }
            }
            (p, b)
        },
        weight: 1,
    });

    // ---- EDS notifications, shrex requests
    let mut seeds = Vec::new();
    for f in &e.fxs {
        seeds.push((
            Params::new(f.idx),
            RecentEdsNotification { height: f.height, data_hash: f.dah.hash().as_bytes().to_vec() }.encode_to_vec(),
        ));
    }
    t.push(Target {
        name: "shrex::eds_notification",
        run: t_eds_notification,
        seeds,
        structured: |rng, e| {
            let p = Params::random(rng, &e.fxs);
            let n = RecentEdsNotification {
                height: adv_u64(rng),
                data_hash: match rng.gen_range(0..6) {
                    0 => vec![0; 32],
                    1 => rb(rng, &[0, 1, 31, 33, 64]),
                    2 => celestia_types::ExtendedDataSquare::empty().square_width().to_be_bytes().to_vec(),
                    3 => celestia_types::DataAvailabilityHeader::from_eds(&celestia_types::ExtendedDataSquare::empty()).hash().as_bytes().to_vec(),
                    _ => rand_bytes(rng, 32),
                },
            };
            (p, n.encode_to_vec())
        },
        weight: 1,
    });
    let mut seeds = Vec::new();
    for f in &e.fxs {
        seeds.push((Params::new(f.idx), shrex::encode_row_request(&RowId::new(1, f.height).unwrap())));
        seeds.push((Params::new(f.idx), shrex::encode_sample_request(&SampleId::new(1, 2, f.height).unwrap())));
        seeds.push((Params::new(f.idx), shrex::encode_eds_request(&EdsId::new(f.height).unwrap())));
        seeds.push((
            Params::new(f.idx),
            shrex::encode_namespace_data_request(&NamespaceDataId::new(f.namespaces[0], f.height).unwrap()),
        ));
    }
    t.push(Target {
        name: "shrex::requests",
        run: t_shrex_requests,
        seeds,
        structured: |rng, e| {
            let p = Params::random(rng, &e.fxs);
            let mut v = adv_u64(rng).to_be_bytes().to_vec();
            match rng.gen_range(0..4) {
                0 => {}
                1 => v.extend_from_slice(&rng.r#gen::<u16>().to_be_bytes()),
                2 => v.extend_from_slice(&rng.r#gen::<u32>().to_be_bytes()),
                _ => {
                    let mut ns = e.fxs[p.fx].any_ns(rng).as_bytes().to_vec();
                    if rng.gen_bool(0.3) {
                        let i = rng.gen_range(0..ns.len());
                        ns[i] = rng.r#gen();
                    }
                    v.extend(ns);
                }
            }
            (p, v)
        },
        weight: 1,
    });

    // ---- shwap: multihasher and block container
    let mut seeds = Vec::new();
    let mut seeds_c = Vec::new();
    for f in &e.fxs {
        for k in 0..4u16 {
            let (r, c) = (rng.gen_range(0..f.w) as u16, rng.gen_range(0..f.w) as u16);
            let s = Sample::new(r, c, AxisType::Row, &f.eds).unwrap();
            let id = SampleId::new(r, c, f.height).unwrap();
            let block = RawBlock { cid: CidGeneric::<12>::from(id).to_bytes(), container: bm(|b| s.encode(b)) };
            let mut p = Params::new(f.idx);
            p.row = r;
            p.col = c;
            p.aux = 1;
            seeds.push((p.clone(), block.encode_to_vec()));
            seeds_c.push((p, block.encode_to_vec()));
            let row = Row::new(r, &f.eds).unwrap();
            let id = RowId::new(r, f.height).unwrap();
            let block = RawBlock { cid: CidGeneric::<10>::from(id).to_bytes(), container: bm(|b| row.encode(b)) };
            let mut p = Params::new(f.idx);
            p.aux = 0;
            seeds.push((p, block.encode_to_vec()));
            let ns = f.namespaces[k as usize % f.namespaces.len()];
            if let Ok(rows) = f.eds.get_namespace_data(ns, &f.dah, f.height) {
                if let Some((id, d)) = rows.into_iter().next() {
                    let block = RawBlock { cid: CidGeneric::<39>::from(id).to_bytes(), container: bm(|b| d.encode(b)) };
                    let mut p = Params::new(f.idx);
                    p.aux = 2;
                    seeds.push((p, block.encode_to_vec()));
                }
            }
        }
    }
    t.push(Target {
        name: "shwap::multihash",
        run: t_multihash,
        seeds,
        structured: |rng, e| {
            let mut p = Params::random(rng, &e.fxs);
            let f = &e.fxs[p.fx];
            let kind = rng.gen_range(0..3u64);
            p.aux = if rng.gen_bool(0.9) { kind } else { rng.r#gen() };
            let height = if rng.gen_bool(0.85) { f.height } else { adv_u64(rng).max(1) };
            // the id is taken from the block's CID, i.e. from the peer
            let (cid, container) = match kind {
                0 => (
                    RowId::new(p.row, height).map(|id| CidGeneric::<10>::from(id).to_bytes()).unwrap_or_default(),
                    enc(&adv_row(rng, f, &p)),
                ),
                1 => (
                    SampleId::new(p.row, p.col, height).map(|id| CidGeneric::<12>::from(id).to_bytes()).unwrap_or_default(),
                    enc(&adv_sample(rng, f, &p)),
                ),
                _ => (
                    RowNamespaceDataId::new(p.ns, p.row, height).map(|id| CidGeneric::<39>::from(id).to_bytes()).unwrap_or_default(),
                    enc(&adv_rnd(rng, f, &p)),
                ),
            };
            let mut cid = cid;
            if rng.gen_bool(0.1) {
                vcore::mutate_bytes(rng, &mut cid);
            }
            (p, RawBlock { cid, container }.encode_to_vec())
        },
        weight: 6,
    });
    t.push(Target {
        name: "shwap::get_block_container",
        run: t_block_container,
        seeds: seeds_c,
        structured: |rng, e| {
            let p = Params::random(rng, &e.fxs);
            let f = &e.fxs[p.fx];
            let cid = match rng.gen_range(0..5) {
                0 => vec![],
                1 => rb(rng, &[1, 4, 20, 36]),
                2 => shwap::sample_cid(p.col, p.row, f.height).map(|c| c.to_bytes()).unwrap_or_default(),
                _ => shwap::sample_cid(p.row, p.col, f.height).map(|c| c.to_bytes()).unwrap_or_default(),
            };
            let container = rb(rng, &[0, 1, 100]);
            (p, RawBlock { cid, container }.encode_to_vec())
        },
        weight: 1,
    });

    // ---- header-ex: wire codec, client-side response validation, server
    let mut seeds = Vec::new();
    for k in 0..6u64 {
        seeds.push((Params::new(0), ld(&HeaderRequest { amount: 1 + k, data: Some(Data::Origin(k)) })));
        seeds.push((Params::new(0), ld(&HeaderRequest { amount: 1, data: Some(Data::Hash(e.chain[k as usize].hash().as_bytes().to_vec())) })));
    }
    let req_seeds = seeds.clone();
    t.push(Target {
        name: "header_ex::read_request",
        run: t_read_request,
        seeds,
        structured: |rng, e| {
            let p = Params::random(rng, &e.fxs);
            let mut b = ld(&adv_request(rng, e));
            if rng.gen_bool(0.1) {
                // pad up to / beyond the 1024-byte request buffer
                b.extend(vec![0u8; *[1usize, 1000, 1024, 2000].choose(rng).unwrap()]);
            }
            (p, b)
        },
        weight: 2,
    });
    let mut seeds = req_seeds;
    for (p, _) in seeds.iter_mut() {
        p.aux = 0;
    }
    t.push(Target {
        name: "header_ex_server",
        run: t_server,
        seeds,
        structured: |rng, e| {
            let mut p = Params::random(rng, &e.fxs);
            p.aux = rng.gen_range(0..2);
            (p, ld(&adv_request(rng, e)))
        },
        weight: 4,
    });
    let mut seeds = Vec::new();
    for origin in [1u64, 2, 7, 20] {
        for amount in [1u64, 2, 4] {
            let mut p = Params::new(0);
            p.row = (origin - 1) as u16;
            p.col = (amount - 1) as u16;
            p.aux = 1;
            let mut bytes = Vec::new();
            for k in 0..amount {
                let h = &e.chain[((origin - 1 + k) % CHAIN_LEN) as usize];
                bytes.extend(ld(&HeaderResponse { body: enc_header(h), status_code: 1 }));
            }
            seeds.push((p, bytes));
        }
        let mut p = Params::new(0);
        p.row = (origin - 1) as u16;
        p.aux = 2;
        seeds.push((p.clone(), ld(&HeaderResponse { body: enc_header(&e.chain[(origin - 1) as usize]), status_code: 1 })));
        p.aux = 0;
        seeds.push((p, ld(&HeaderResponse { body: enc_header(&e.chain[(origin - 1) as usize]), status_code: 1 })));
    }
    seeds.push((Params::new(0), ld(&HeaderResponse { body: vec![], status_code: 2 })));
    seeds.push((Params::new(0), ld(&HeaderResponse { body: vec![], status_code: 0 })));
    t.push(Target {
        name: "header_ex::read_response",
        run: t_read_response,
        seeds,
        structured: |rng, e| {
            let mut p = Params::random(rng, &e.fxs);
            p.aux = rng.gen_range(0..3);
            let mut bytes = Vec::new();
            for r in adv_responses(rng, e, &p) {
                bytes.extend(ld(&r));
            }
            if rng.gen_bool(0.1) {
                match rng.gen_range(0..3) {
                    0 => bytes.extend(rb(rng, &[1, 2, 9])),
                    1 => {
                        bytes.pop();
                    }
                    _ => {
                        // a length prefix announcing more than there is
                        wr_varint(&mut bytes, *[1u64, 1 << 20, u32::MAX as u64, u64::MAX].choose(rng).unwrap());
                    }
                }
            }
            (p, bytes)
        },
        weight: 3,
    });
    t
}

pub fn run(ctx: &Ctx) {
    ctx.rule(
        "Inputs: honest wire encodings (length-delimited shrex row/sample/namespace-data responses, raw ODS for EDS \
         responses, EDS notifications, shrex request ids, bitswap Blocks with shwap CIDs, header-ex requests and \
         multi-message responses over a 24-header honest chain) mutated at byte level / protobuf wire-tree level (stacked 1..4), \
         truncated at every byte, and structured adversarial messages (vt generators: huge sibling lists, extreme proof \
         ranges, empty/oversized halves; header-ex requests with origin/amount from a u64 edge pool; responses with wrong \
         counts, statuses outside the enum, hostile self-consistent headers; CIDs naming any id). Decoded values are \
         verified against the fixture DAH / store. Non-trivial = input that passed the codec's framing; distinct by \
         (codec, outcome label).",
    );
    ctx.assume("a panic inside a dependency reached through a lumina codec on peer input counts as a panic of that codec");
    ctx.assume("requests our node sent (decode_and_verify_responses, shrex ids) are valid local values: amount 1..=8, origin + amount far from u64::MAX (that overflow is C28's)");
    ctx.extra("bin", json!("vn"));

    let n_fx = ctx.scale(5usize, 6usize);
    let fxs: Vec<Fixture> = (0..n_fx).map(|i| build_fixture(ctx, i)).collect();
    let fx_store = Arc::new(InMemoryStore::new());
    let chain_store = Arc::new(InMemoryStore::new());
    let mut cg = ChainGen::new(ctx.rng(1003, 0), "c16-chain", 3, &[5, 3, 2], 1, fixed_time(), std::time::Duration::from_secs(12));
    let chain = cg.next_many(CHAIN_LEN);
    block_on(async {
        for f in &fxs {
            fx_store.insert(vec![f.header.clone(), f.next_header.clone()]).await.expect("fixture headers insert");
        }
        chain_store.insert(chain.clone()).await.expect("chain insert");
    });
    let env = Env { fxs, fx_store, chain, chain_store };
    let mut targets = build_targets(&env, ctx);
    if let Ok(only) = std::env::var("C16_ONLY") {
        targets.retain(|t| only.split(',').any(|o| o == t.name)); // development aid
    }
    let names: Vec<&'static str> = targets.iter().map(|t| t.name).collect();
    let eng = Engine::new(ctx, "vn", &env);

    if ctx.replay.is_some() {
        if let Some((name, p, input)) = replay_case(ctx, "vn") {
            if let Some(t) = targets.iter().find(|t| t.name == name) {
                let mut l = Local::default();
                eng.exec(&mut l, t.name, t.run, &p, &input, "replay");
                eng.flush(l);
            }
        }
        return;
    }

    let shards = ctx.cores();

    // (0) honest seeds + truncations
    let mut sweep: Vec<(usize, usize)> = Vec::new();
    for (ti, t) in targets.iter().enumerate() {
        for si in 0..t.seeds.len() {
            sweep.push((ti, si));
        }
    }
    let trunc_full = ctx.scale(1200usize, 20_000usize);
    let trunc_sampled = ctx.scale(24usize, 256usize);
    ctx.par(shards, |shard| {
        let mut l = Local::default();
        for (k, (ti, si)) in sweep.iter().enumerate() {
            if k % shards != shard {
                continue;
            }
            let t = &targets[*ti];
            let (p, seed) = &t.seeds[*si];
            eng.exec(&mut l, t.name, t.run, p, seed, "honest");
            let mut rng = ctx.rng(3, k as u64);
            if seed.len() <= trunc_full {
                for n in 0..seed.len() {
                    eng.exec(&mut l, t.name, t.run, p, &seed[..n], "truncate");
                }
            } else {
                for _ in 0..trunc_sampled {
                    let n = rng.gen_range(0..seed.len());
                    eng.exec(&mut l, t.name, t.run, p, &seed[..n], "truncate");
                }
            }
        }
        eng.flush(l);
    });

    // (1) random cases
    let mut wheel: Vec<usize> = Vec::new();
    for (i, t) in targets.iter().enumerate() {
        for _ in 0..t.weight {
            wheel.push(i);
        }
    }
    let cases = std::env::var("C16_CASES").ok().and_then(|s| s.parse().ok()).unwrap_or(ctx.scale(300_000u64, 10_000_000u64));
    ctx.par(shards, |shard| {
        let mut l = Local::default();
        for case in (shard as u64..cases).step_by(shards) {
            let mut rng = ctx.rng(2, case);
            let t = &targets[wheel[(case as usize / shards) % wheel.len()]];
            let t0 = std::time::Instant::now();
            match rng.gen_range(0..20) {
                0..=5 => {
                    let (mut p, mut seed) = { let x = t.seeds.choose(&mut rng).unwrap(); (&x.0, &x.1) };
                    if rng.gen_bool(0.8) {
                        let y = t.seeds.choose(&mut rng).unwrap();
                        if y.1.len() < seed.len() {
                            p = &y.0;
                            seed = &y.1;
                        }
                    }
                    let mut b = seed.clone();
                    let what = mutate_stack(&mut rng, &mut b);
                    let mut p = p.clone();
                    if rng.gen_bool(0.15) {
                        let q = Params::random(&mut rng, &env.fxs);
                        p.row = q.row;
                        p.col = q.col;
                    }
                    l.add_time("(generator: seed mutation)", t0);
                    eng.exec(&mut l, t.name, t.run, &p, &b, &format!("mutate:{what}"));
                }
                6..=15 => {
                    let (p, b) = (t.structured)(&mut rng, &env);
                    l.add_time("(generator: structured)", t0);
                    eng.exec(&mut l, t.name, t.run, &p, &b, "structured");
                }
                16..=17 => {
                    let (p, mut b) = (t.structured)(&mut rng, &env);
                    let what = mutate_stack(&mut rng, &mut b);
                    eng.exec(&mut l, t.name, t.run, &p, &b, &format!("structured+mutate:{what}"));
                }
                18 => {
                    let o = targets.choose(&mut rng).unwrap();
                    let (_, b) = o.seeds.choose(&mut rng).unwrap();
                    if b.len() < 200_000 {
                        let p = Params::random(&mut rng, &env.fxs);
                        eng.exec(&mut l, t.name, t.run, &p, b, "cross-type");
                    }
                }
                _ => {
                    let n = *[0usize, 1, 2, 8, 10, 12, 37, 39, 90, 512, 1024].choose(&mut rng).unwrap();
                    let b = rand_bytes(&mut rng, n);
                    let p = Params::random(&mut rng, &env.fxs);
                    eng.exec(&mut l, t.name, t.run, &p, &b, "random");
                }
            }
        }
        eng.flush(l);
    });

    eng.finish(&names);

    // coverage floors: far below what the unchanged tree yields for any seed (see report)
    for n in &names {
        ctx.floor(&format!("{n}.framed"), ctx.scale(1_000, 20_000));
        // the request codec has a single error class; the container extractor two
        let min_outcomes = match *n {
            "header_ex::read_request" => 1,
            "shwap::get_block_container" => 2,
            _ => 3,
        };
        ctx.floor(&format!("{n}.outcomes"), min_outcomes);
    }
    for n in ["shrex::row", "shrex::sample", "shrex::namespace_data", "shrex::eds", "header_ex::read_response"] {
        ctx.floor(&format!("{n}.decoded_ok"), 200);
    }
    ctx.floor("distinct_decoder_outcome_pairs", 80);
    ctx.floor("family.structured", ctx.scale(100_000, 2_000_000));
    ctx.floor("family.truncate", 5_000);
}
