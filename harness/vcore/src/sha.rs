//! Independent reference implementations (on the `sha2` crate only) used as oracles:
//! RFC-6962 merkle trees (tendermint "simple" merkle) and Celestia's namespaced merkle tree.

use sha2::{Digest, Sha256};

pub const NS_SIZE: usize = 29;
pub const PARITY_NS: [u8; NS_SIZE] = [0xff; NS_SIZE];

pub fn sha256(data: &[u8]) -> [u8; 32] {
    let mut h = Sha256::new();
    h.update(data);
    h.finalize().into()
}

fn split_point(n: usize) -> usize {
    // largest power of two strictly less than n
    let mut k = 1;
    while k * 2 < n {
        k *= 2;
    }
    k
}

pub fn leaf_hash(leaf: &[u8]) -> [u8; 32] {
    let mut h = Sha256::new();
    h.update([0u8]);
    h.update(leaf);
    h.finalize().into()
}

pub fn inner_hash(l: &[u8], r: &[u8]) -> [u8; 32] {
    let mut h = Sha256::new();
    h.update([1u8]);
    h.update(l);
    h.update(r);
    h.finalize().into()
}

/// RFC-6962 merkle root over raw leaves.
pub fn merkle_root<T: AsRef<[u8]>>(leaves: &[T]) -> [u8; 32] {
    match leaves.len() {
        0 => sha256(&[]),
        1 => leaf_hash(leaves[0].as_ref()),
        n => {
            let k = split_point(n);
            inner_hash(&merkle_root(&leaves[..k]), &merkle_root(&leaves[k..]))
        }
    }
}

/// RFC-6962 audit path (aunts, leaf-to-root order) for `index`.
pub fn merkle_path<T: AsRef<[u8]>>(leaves: &[T], index: usize) -> Vec<[u8; 32]> {
    fn go<T: AsRef<[u8]>>(leaves: &[T], index: usize, out: &mut Vec<[u8; 32]>) {
        let n = leaves.len();
        if n <= 1 {
            return;
        }
        let k = split_point(n);
        if index < k {
            go(&leaves[..k], index, out);
            out.push(merkle_root(&leaves[k..]));
        } else {
            go(&leaves[k..], index - k, out);
            out.push(merkle_root(&leaves[..k]));
        }
    }
    let mut out = Vec::new();
    go(leaves, index, &mut out);
    out
}

/// A namespaced hash: min namespace, max namespace, digest (90 bytes when serialised).
#[derive(Clone, Debug, PartialEq, Eq)]
pub struct NsHash {
    pub min: [u8; NS_SIZE],
    pub max: [u8; NS_SIZE],
    pub hash: [u8; 32],
}

impl NsHash {
    pub fn to_bytes(&self) -> Vec<u8> {
        let mut v = Vec::with_capacity(90);
        v.extend_from_slice(&self.min);
        v.extend_from_slice(&self.max);
        v.extend_from_slice(&self.hash);
        v
    }
}

/// NMT leaf: `ns` is the namespace the leaf is pushed under, `data` the raw share bytes.
pub fn nmt_leaf(ns: &[u8; NS_SIZE], data: &[u8]) -> NsHash {
    let mut h = Sha256::new();
    h.update([0u8]);
    h.update(ns);
    h.update(data);
    NsHash {
        min: *ns,
        max: *ns,
        hash: h.finalize().into(),
    }
}

/// NMT inner node with `IgnoreMaxNamespace = true` (Celestia's configuration).
pub fn nmt_inner(l: &NsHash, r: &NsHash) -> NsHash {
    let min = if l.min <= r.min { l.min } else { r.min };
    let max = if l.min == PARITY_NS {
        PARITY_NS
    } else if r.min == PARITY_NS {
        l.max
    } else if l.max >= r.max {
        l.max
    } else {
        r.max
    };
    let mut h = Sha256::new();
    h.update([1u8]);
    h.update(l.to_bytes());
    h.update(r.to_bytes());
    NsHash {
        min,
        max,
        hash: h.finalize().into(),
    }
}

/// NMT root over `(namespace, share bytes)` leaves. Empty tree: zero namespaces + sha256("").
pub fn nmt_root(leaves: &[([u8; NS_SIZE], Vec<u8>)]) -> NsHash {
    match leaves.len() {
        0 => NsHash {
            min: [0; NS_SIZE],
            max: [0; NS_SIZE],
            hash: sha256(&[]),
        },
        1 => nmt_leaf(&leaves[0].0, &leaves[0].1),
        n => {
            let k = split_point(n);
            nmt_inner(&nmt_root(&leaves[..k]), &nmt_root(&leaves[k..]))
        }
    }
}

#[cfg(test)]
mod tests {
    use super::*;

    #[test]
    fn rfc6962_empty() {
        assert_eq!(
            hex::encode(merkle_root::<Vec<u8>>(&[])),
            "e3b0c44298fc1c149afbf4c8996fb92427ae41e4649b934ca495991b7852b855"
        );
    }
}
