//! Shared machinery of the lumina runtime monitors: context, PRNG derivation,
//! coverage counters, violation records, panic capture, result file.
//!
//! A property module drives the real lumina code, calls `ctx.eval()` for every
//! execution it observed, `ctx.nontrivial(key)` for every execution that is
//! non-trivial by the rule it states with `ctx.rule(..)`, and `ctx.violation(..)`
//! when its oracle is contradicted. The driver (`/verif/check`) turns the result
//! file into the verdict and the evidence file.

use std::collections::{BTreeMap, HashSet};
use std::hash::{Hash, Hasher};
use std::path::PathBuf;
use std::sync::Mutex;
use std::sync::atomic::{AtomicBool, AtomicU64, Ordering};
use std::time::{Duration, Instant};

pub use rand;
pub use rand::prelude::*;
pub use rand_chacha::ChaCha8Rng;
pub use serde_json::{self, Value, json};

pub mod sha;

#[derive(Clone, Copy, Debug, PartialEq, Eq)]
pub enum Tier {
    Quick,
    Thorough,
}

pub struct Violation {
    pub signature: String,
    pub message: String,
    pub replay: Option<String>,
}

pub struct Ctx {
    pub prop: String,
    pub tier: Tier,
    pub seed: u64,
    pub out_dir: PathBuf,
    pub replay: Option<Value>,
    start: Instant,
    evaluations: AtomicU64,
    distinct: Mutex<HashSet<u64>>,
    counters: Mutex<BTreeMap<String, u64>>,
    samples: Mutex<Vec<Value>>,
    sample_seen: AtomicU64,
    violations: Mutex<Vec<Violation>>,
    sig_counts: Mutex<BTreeMap<String, u64>>,
    rule: Mutex<String>,
    assumptions: Mutex<Vec<String>>,
    inconclusive: Mutex<Option<String>>,
    exhaustive: AtomicBool,
    extra: Mutex<BTreeMap<String, Value>>,
    floors: Mutex<Vec<(String, u64)>>,
}

const MAX_SAMPLES: usize = 6;
const MAX_REPLAYS_PER_SIG: u64 = 3;
const MAX_VIOLATIONS_KEPT: usize = 200;

fn fnv(bytes: &[u8]) -> u64 {
    let mut h: u64 = 0xcbf29ce484222325;
    for b in bytes {
        h ^= *b as u64;
        h = h.wrapping_mul(0x100000001b3);
    }
    h
}

struct Fnv(u64);
impl Hasher for Fnv {
    fn finish(&self) -> u64 {
        self.0
    }
    fn write(&mut self, bytes: &[u8]) {
        for b in bytes {
            self.0 ^= *b as u64;
            self.0 = self.0.wrapping_mul(0x100000001b3);
        }
    }
}

/// Stable 64-bit hash of any `Hash` value (independent of process / run).
pub fn hash64<T: Hash + ?Sized>(v: &T) -> u64 {
    let mut h = Fnv(0xcbf29ce484222325);
    v.hash(&mut h);
    h.finish()
}

impl Ctx {
    pub fn from_args() -> Ctx {
        let args: Vec<String> = std::env::args().collect();
        let mut prop = String::new();
        let mut tier = Tier::Quick;
        let mut seed = 1u64;
        let mut out = PathBuf::from("out");
        let mut replay = None;
        let mut i = 1;
        while i < args.len() {
            match args[i].as_str() {
                "--tier" => {
                    i += 1;
                    tier = if args[i] == "thorough" {
                        Tier::Thorough
                    } else {
                        Tier::Quick
                    };
                }
                "--seed" => {
                    i += 1;
                    seed = args[i].parse().unwrap_or_else(|_| fnv(args[i].as_bytes()));
                }
                "--out" => {
                    i += 1;
                    out = PathBuf::from(&args[i]);
                }
                "--replay" => {
                    i += 1;
                    let txt = std::fs::read_to_string(&args[i]).expect("replay file");
                    replay = Some(serde_json::from_str(&txt).expect("replay json"));
                }
                s => prop = s.to_string(),
            }
            i += 1;
        }
        Ctx::new(&prop, tier, seed, out, replay)
    }

    pub fn new(prop: &str, tier: Tier, seed: u64, out_dir: PathBuf, replay: Option<Value>) -> Ctx {
        let _ = std::fs::create_dir_all(&out_dir);
        install_panic_hook();
        Ctx {
            prop: prop.to_string(),
            tier,
            seed,
            out_dir,
            replay,
            start: Instant::now(),
            evaluations: AtomicU64::new(0),
            distinct: Mutex::new(HashSet::new()),
            counters: Mutex::new(BTreeMap::new()),
            samples: Mutex::new(Vec::new()),
            sample_seen: AtomicU64::new(0),
            violations: Mutex::new(Vec::new()),
            sig_counts: Mutex::new(BTreeMap::new()),
            rule: Mutex::new(String::new()),
            assumptions: Mutex::new(Vec::new()),
            inconclusive: Mutex::new(None),
            exhaustive: AtomicBool::new(false),
            extra: Mutex::new(BTreeMap::new()),
            floors: Mutex::new(Vec::new()),
        }
    }

    pub fn quick(&self) -> bool {
        self.tier == Tier::Quick
    }

    /// Tiny mode (`VERIF_TINY=1`): a minimal workload for interpreters / sanitizers
    /// (Miri is ~10^4 times slower than native). Monitors shrink their bounds drastically.
    pub fn tiny(&self) -> bool {
        std::env::var("VERIF_TINY").is_ok_and(|v| v == "1")
    }

    /// Reduced mode (`VERIF_SAN=1`): the quick workload scaled down for compiler sanitizers (5-20x slower).
    pub fn san(&self) -> bool {
        std::env::var("VERIF_SAN").is_ok_and(|v| v == "1")
    }

    /// Choose a bound by tier.
    pub fn scale<T>(&self, quick: T, thorough: T) -> T {
        if self.quick() { quick } else { thorough }
    }

    /// Choose a bound by mode: tiny (Miri) / quick / thorough.
    pub fn scale3<T>(&self, tiny: T, quick: T, thorough: T) -> T {
        if self.tiny() { tiny } else { self.scale(quick, thorough) }
    }

    pub fn elapsed(&self) -> Duration {
        self.start.elapsed()
    }

    /// Deterministic PRNG stream for `(seed, property, stream, case)`.
    pub fn rng(&self, stream: u64, case: u64) -> ChaCha8Rng {
        let mut key = [0u8; 32];
        key[..8].copy_from_slice(&self.seed.to_le_bytes());
        key[8..16].copy_from_slice(&fnv(self.prop.as_bytes()).to_le_bytes());
        key[16..24].copy_from_slice(&stream.to_le_bytes());
        key[24..32].copy_from_slice(&case.to_le_bytes());
        ChaCha8Rng::from_seed(key)
    }

    pub fn eval(&self) {
        self.evaluations.fetch_add(1, Ordering::Relaxed);
    }

    pub fn evals(&self, n: u64) {
        self.evaluations.fetch_add(n, Ordering::Relaxed);
    }

    pub fn evaluations(&self) -> u64 {
        self.evaluations.load(Ordering::Relaxed)
    }

    /// Record a non-trivial case; `key` identifies it for distinctness.
    pub fn nontrivial<T: Hash + ?Sized>(&self, key: &T) {
        let h = hash64(key);
        self.distinct.lock().unwrap().insert(h);
    }

    pub fn distinct_nontrivial(&self) -> u64 {
        self.distinct.lock().unwrap().len() as u64
    }

    pub fn count(&self, name: &str) {
        self.count_n(name, 1)
    }

    pub fn count_n(&self, name: &str, n: u64) {
        *self
            .counters
            .lock()
            .unwrap()
            .entry(name.to_string())
            .or_insert(0) += n;
    }

    pub fn counter(&self, name: &str) -> u64 {
        self.counters.lock().unwrap().get(name).copied().unwrap_or(0)
    }

    /// Require that counter `name` reached at least `min` by the end of the run;
    /// otherwise the run is inconclusive (the monitor observed too little).
    pub fn floor(&self, name: &str, min: u64) {
        self.floors.lock().unwrap().push((name.to_string(), min));
    }

    /// Keep a few written-out cases for the evidence file (first ones + sparse later ones).
    pub fn sample(&self, v: impl FnOnce() -> Value) {
        let n = self.sample_seen.fetch_add(1, Ordering::Relaxed);
        let mut s = self.samples.lock().unwrap();
        if s.len() < MAX_SAMPLES / 2 {
            s.push(v());
        } else if n.is_power_of_two() && n >= 64 {
            if s.len() >= MAX_SAMPLES {
                s.remove(MAX_SAMPLES / 2);
            }
            s.push(v());
        }
    }

    pub fn rule(&self, rule: &str) {
        *self.rule.lock().unwrap() = rule.to_string();
    }

    pub fn assume(&self, a: &str) {
        let mut v = self.assumptions.lock().unwrap();
        if !v.iter().any(|x| x == a) {
            v.push(a.to_string());
        }
    }

    pub fn set_exhaustive(&self, e: bool) {
        self.exhaustive.store(e, Ordering::Relaxed);
    }

    pub fn extra(&self, key: &str, v: Value) {
        self.extra.lock().unwrap().insert(key.to_string(), v);
    }

    pub fn inconclusive(&self, reason: &str) {
        let mut g = self.inconclusive.lock().unwrap();
        if g.is_none() {
            *g = Some(reason.to_string());
        }
    }

    /// Record a violation. `signature` names the class of failing input / call site
    /// (stable across runs and seeds); `detail` is the witness (input, history, seed).
    pub fn violation(&self, signature: &str, message: &str, detail: Value) {
        let n = {
            let mut c = self.sig_counts.lock().unwrap();
            let e = c.entry(signature.to_string()).or_insert(0);
            *e += 1;
            *e
        };
        let mut replay = None;
        if n <= MAX_REPLAYS_PER_SIG {
            let fname = format!(
                "replay-{}-{:016x}-{}.json",
                self.prop,
                fnv(signature.as_bytes()),
                n
            );
            let path = self.out_dir.join(fname);
            let doc = json!({
                "property": self.prop,
                "tier": if self.quick() { "quick" } else { "thorough" },
                "seed": self.seed,
                "signature": signature,
                "message": message,
                "detail": detail,
            });
            if std::fs::write(&path, serde_json::to_string_pretty(&doc).unwrap()).is_ok() {
                replay = Some(path.to_string_lossy().to_string());
            }
        }
        let mut v = self.violations.lock().unwrap();
        if v.len() < MAX_VIOLATIONS_KEPT && n <= MAX_REPLAYS_PER_SIG {
            v.push(Violation {
                signature: signature.to_string(),
                message: message.to_string(),
                replay,
            });
        }
    }

    pub fn violation_count(&self) -> u64 {
        self.sig_counts.lock().unwrap().values().sum()
    }

    /// Run shards on real threads; each shard gets its index.
    pub fn par<F>(&self, shards: usize, f: F)
    where
        F: Fn(usize) + Sync,
    {
        std::thread::scope(|s| {
            for i in 0..shards {
                let f = &f;
                std::thread::Builder::new()
                    .stack_size(64 << 20)
                    .spawn_scoped(s, move || {
                        if let Err(p) = guard(|| f(i)) {
                            self.inconclusive(&format!("harness shard {i} panicked: {p}"));
                        }
                    })
                    .unwrap();
            }
        });
    }

    /// Number of worker threads to use.
    pub fn cores(&self) -> usize {
        if self.tiny() {
            return 1;
        }
        std::env::var("VERIF_JOBS")
            .ok()
            .and_then(|s| s.parse().ok())
            .unwrap_or_else(|| {
                std::thread::available_parallelism()
                    .map(|n| n.get())
                    .unwrap_or(4)
            })
            .clamp(1, 16)
    }

    /// Write the result file and return the process exit code hint
    /// (0 = no violation recorded, 1 = violations, 3 = inconclusive).
    pub fn finish(&self) -> i32 {
        for (name, min) in self.floors.lock().unwrap().iter() {
            let got = self.counter(name);
            if got < *min {
                self.inconclusive(&format!(
                    "coverage floor not reached: {name} = {got} < {min}"
                ));
            }
        }
        let sigs = self.sig_counts.lock().unwrap().clone();
        let violations: Vec<Value> = self
            .violations
            .lock()
            .unwrap()
            .iter()
            .map(|v| {
                json!({"signature": v.signature, "message": v.message, "replay": v.replay})
            })
            .collect();
        let inconclusive = self.inconclusive.lock().unwrap().clone();
        let doc = json!({
            "property": self.prop,
            "tier": if self.quick() { "quick" } else { "thorough" },
            "seed": self.seed,
            "evaluations": self.evaluations(),
            "distinct_nontrivial": self.distinct_nontrivial(),
            "rule": *self.rule.lock().unwrap(),
            "samples": *self.samples.lock().unwrap(),
            "counters": *self.counters.lock().unwrap(),
            "exhaustive": self.exhaustive.load(Ordering::Relaxed),
            "assumptions": *self.assumptions.lock().unwrap(),
            "extra": *self.extra.lock().unwrap(),
            "violation_signatures": sigs,
            "violations": violations,
            "inconclusive": inconclusive,
            "run_s": self.start.elapsed().as_secs_f64(),
        });
        let path = self.out_dir.join("result.json");
        std::fs::write(&path, serde_json::to_string_pretty(&doc).unwrap()).expect("write result");
        if !sigs.is_empty() {
            1
        } else if inconclusive.is_some() {
            3
        } else {
            0
        }
    }
}

// ---------------------------------------------------------------------------
// Panic capture
// ---------------------------------------------------------------------------

thread_local! {
    static LAST_PANIC: std::cell::RefCell<Option<String>> = const { std::cell::RefCell::new(None) };
    static QUIET: std::cell::Cell<u32> = const { std::cell::Cell::new(0) };
}

static HOOK: std::sync::Once = std::sync::Once::new();

fn install_panic_hook() {
    HOOK.call_once(|| {
        let prev = std::panic::take_hook();
        std::panic::set_hook(Box::new(move |info| {
            let loc = info
                .location()
                .map(|l| format!("{}:{}", l.file(), l.line()))
                .unwrap_or_else(|| "?".into());
            let msg = if let Some(s) = info.payload().downcast_ref::<&str>() {
                s.to_string()
            } else if let Some(s) = info.payload().downcast_ref::<String>() {
                s.clone()
            } else {
                "<non-string panic>".into()
            };
            LAST_PANIC.with(|l| *l.borrow_mut() = Some(format!("{loc}: {msg}")));
            if QUIET.with(|q| q.get()) == 0 {
                prev(info);
            }
        }));
    });
}

/// Run `f`, converting a panic into `Err("file:line: message")`. Output of the
/// default hook is suppressed while inside.
pub fn guard<T>(f: impl FnOnce() -> T) -> Result<T, String> {
    install_panic_hook();
    QUIET.with(|q| q.set(q.get() + 1));
    let r = std::panic::catch_unwind(std::panic::AssertUnwindSafe(f));
    QUIET.with(|q| q.set(q.get() - 1));
    r.map_err(|_| {
        LAST_PANIC
            .with(|l| l.borrow_mut().take())
            .unwrap_or_else(|| "panic (location unknown)".into())
    })
}

/// Last panic recorded on this thread (for panics caught elsewhere, e.g. by tokio).
pub fn take_last_panic() -> Option<String> {
    LAST_PANIC.with(|l| l.borrow_mut().take())
}

/// Suppress default panic output on this thread until the guard drops.
pub struct QuietPanics;
impl QuietPanics {
    pub fn new() -> Self {
        install_panic_hook();
        QUIET.with(|q| q.set(q.get() + 1));
        QuietPanics
    }
}
impl Drop for QuietPanics {
    fn drop(&mut self) {
        QUIET.with(|q| q.set(q.get() - 1));
    }
}

/// The location part ("file:line") of a captured panic string, with the path reduced to
/// its in-repository suffix so that signatures are stable.
pub fn panic_site(p: &str) -> String {
    let loc = p.split(": ").next().unwrap_or(p);
    for marker in ["/repo/", "registry/src/"] {
        if let Some(i) = loc.find(marker) {
            let rest = &loc[i + marker.len()..];
            if marker == "registry/src/" {
                // strip the index directory
                return rest.splitn(2, '/').nth(1).unwrap_or(rest).to_string();
            }
            return rest.to_string();
        }
    }
    loc.to_string()
}

// ---------------------------------------------------------------------------
// Small generators / mutators shared by several monitors
// ---------------------------------------------------------------------------

pub fn rand_bytes(rng: &mut impl Rng, n: usize) -> Vec<u8> {
    let mut v = vec![0u8; n];
    rng.fill_bytes(&mut v);
    v
}

/// Byte-level mutation of an encoding; returns a short description of what was done.
pub fn mutate_bytes(rng: &mut impl Rng, data: &mut Vec<u8>) -> &'static str {
    if data.is_empty() {
        data.push(rng.r#gen());
        return "push";
    }
    match rng.gen_range(0..10) {
        0 => {
            let i = rng.gen_range(0..data.len());
            data[i] ^= 1 << rng.gen_range(0..8);
            "bitflip"
        }
        1 => {
            let i = rng.gen_range(0..data.len());
            data[i] = rng.r#gen();
            "byte"
        }
        2 => {
            let n = rng.gen_range(0..data.len());
            data.truncate(n);
            "truncate"
        }
        3 => {
            let i = rng.gen_range(0..=data.len());
            let n = rng.gen_range(1..9);
            let ins = rand_bytes(rng, n);
            data.splice(i..i, ins);
            "insert"
        }
        4 => {
            let i = rng.gen_range(0..data.len());
            let n = rng.gen_range(1..=(data.len() - i).min(16));
            data.drain(i..i + n);
            "delete"
        }
        5 => {
            // overwrite with an extreme varint
            let i = rng.gen_range(0..data.len());
            let pat: &[u8] = match rng.gen_range(0..4) {
                0 => &[0xff, 0xff, 0xff, 0xff, 0xff, 0xff, 0xff, 0xff, 0xff, 0x01],
                1 => &[0xff, 0xff, 0xff, 0xff, 0x0f],
                2 => &[0x80, 0x80, 0x80, 0x80, 0x80, 0x80, 0x80, 0x80, 0x80, 0x80, 0x01],
                _ => &[0x00],
            };
            let end = (i + pat.len()).min(data.len());
            data.splice(i..end, pat.iter().copied());
            "varint"
        }
        6 => {
            // duplicate a chunk
            let i = rng.gen_range(0..data.len());
            let n = rng.gen_range(1..=(data.len() - i).min(64));
            let chunk = data[i..i + n].to_vec();
            let j = rng.gen_range(0..=data.len());
            data.splice(j..j, chunk);
            "dup"
        }
        7 => {
            // swap two chunks of equal size
            let n = rng.gen_range(1..=(data.len() / 2).max(1).min(32));
            if data.len() >= 2 * n {
                let i = rng.gen_range(0..=data.len() - 2 * n);
                let j = rng.gen_range(i + n..=data.len() - n);
                for k in 0..n {
                    data.swap(i + k, j + k);
                }
            }
            "swap"
        }
        8 => {
            let i = rng.gen_range(0..data.len());
            data[i] = *[0u8, 1, 0x7f, 0x80, 0xff].choose(rng).unwrap();
            "magic"
        }
        _ => {
            // +-1 on a byte (length fields)
            let i = rng.gen_range(0..data.len());
            data[i] = if rng.r#gen() {
                data[i].wrapping_add(1)
            } else {
                data[i].wrapping_sub(1)
            };
            "incdec"
        }
    }
}

pub fn hex(b: &[u8]) -> String {
    let n = b.len().min(48);
    let mut s = ::hex::encode(&b[..n]);
    if b.len() > n {
        s.push_str(&format!("..(+{}B)", b.len() - n));
    }
    s
}

pub fn hex_full(b: &[u8]) -> String {
    ::hex::encode(b)
}

/// Boundary-heavy u64 pool.
pub fn edge_u64(rng: &mut impl Rng) -> u64 {
    match rng.gen_range(0..12) {
        0 => 0,
        1 => 1,
        2 => 2,
        3 => u64::MAX,
        4 => u64::MAX - 1,
        5 => u64::MAX - rng.gen_range(0..70),
        6 => (1u64 << 32) + rng.gen_range(0..3) - 1,
        7 => (1u64 << 63) + rng.gen_range(0..3) - 1,
        8 => rng.gen_range(0..20),
        9 => rng.gen_range(0..1000),
        10 => i64::MAX as u64 + rng.gen_range(0..3) - 1,
        _ => rng.r#gen(),
    }
}
