// Registers every property module `src/cNN.rs` (NN = digits) automatically:
// generates `mod cNN;` declarations and the dispatch table.
use std::fmt::Write;

fn main() {
    let dir = std::path::Path::new(&std::env::var("CARGO_MANIFEST_DIR").unwrap()).join("src");
    println!("cargo::rerun-if-changed={}", dir.display());
    let mut ids: Vec<String> = std::fs::read_dir(&dir)
        .unwrap()
        .filter_map(|e| e.ok())
        .filter_map(|e| e.file_name().into_string().ok())
        .filter_map(|n| n.strip_suffix(".rs").map(str::to_string))
        .filter(|n| n.len() >= 3 && n.starts_with('c') && n[1..].chars().all(|c| c.is_ascii_digit()))
        .collect();
    ids.sort();
    let mut out = String::new();
    for id in &ids {
        writeln!(out, "#[path = \"{}/{id}.rs\"] pub mod {id};", dir.display()).unwrap();
    }
    writeln!(out, "pub fn dispatch(ctx: &vcore::Ctx) -> bool {{ match ctx.prop.as_str() {{").unwrap();
    for id in &ids {
        writeln!(out, "\"{}\" => {id}::run(ctx),", id.to_uppercase()).unwrap();
    }
    writeln!(out, "_ => return false, }} true }}").unwrap();
    let dest = std::path::Path::new(&std::env::var("OUT_DIR").unwrap()).join("dispatch.rs");
    std::fs::write(dest, out).unwrap();
}
