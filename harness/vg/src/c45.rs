//! C45 — verified balances are backed by a proof to the header's app hash.
//!
//! Workload: the real `GrpcClient::get_verified_balance` over an in-process fake node that answers
//! `ABCIQuery`. The harness builds the world the node answers from: a bank store (IAVL-style tree:
//! sorted keys, random shape, heights/sizes/versions in the node headers) at three consecutive heights
//! with different balances, a multistore (RFC-6962 "simple" merkle tree over `name -> store root`), and
//! header app hashes = multistore roots. Answers are honest (existence proof chain, or a non-existence
//! proof for an unfunded account) or tampered in one of ~35 families (value, key, proof bytes per class,
//! op order / type / count, wrong store, other root, empty value with or without proof ...).
//! An honest empty answer for an unfunded address carries a genuine ICS-23 non-existence proof.
//!
//! Oracle (ground truth by construction + an independent hash-chain checker written on `vcore::sha`):
//!   * `Ok(coin)` only if the answer carries a chain: an existence proof for exactly (bank key of the
//!     account, returned value) whose computed root R is the value of an existence proof for key
//!     "bank" whose computed root is `header.app_hash`; and `coin` == the proven value;
//!   * an honest answer for a funded account is accepted with the right amount.
//! The checker is deliberately permissive (any op position / type label, plain or batch encoding), so
//! an `Ok` it cannot justify has no chain under any reading.

#[path = "c43_fake.rs"]
mod fake;

use std::sync::{Arc, Mutex};

use celestia_grpc::GrpcClient;
use celestia_proto::cosmos::base::tendermint::v1beta1::{
    AbciQueryRequest, AbciQueryResponse as RawAbciQueryResponse, ProofOp, ProofOps,
};
use celestia_types::ExtendedHeader;
use celestia_types::state::{AccAddress, Address};
use fake::{BoxFut, Call, FakeTransport, Handler, Reply};
use ics23::commitment_proof::Proof as IcsProof;
use ics23::{BatchEntry, BatchProof, CommitmentProof, ExistenceProof, InnerOp, LeafOp, NonExistenceProof};
use prost::Message;
use vcore::sha::sha256;
use vcore::{ChaCha8Rng, Ctx, Rng, SliceRandom, json};

// ---------------------------------------------------------------------------------------------
// Encoding helpers
// ---------------------------------------------------------------------------------------------

fn uvarint(mut x: u64, out: &mut Vec<u8>) {
    while x >= 0x80 {
        out.push((x as u8) | 0x80);
        x >>= 7;
    }
    out.push(x as u8);
}

/// Go's `binary.PutVarint` (zig-zag) as used by IAVL node headers.
fn zigzag(x: i64, out: &mut Vec<u8>) {
    uvarint(((x << 1) ^ (x >> 63)) as u64, out);
}

const HASH_SHA256: i32 = 1;
const LEN_VAR_PROTO: i32 = 1;

// ---------------------------------------------------------------------------------------------
// IAVL-style tree with ICS-23 proofs (generator side; ground truth by construction)
// ---------------------------------------------------------------------------------------------

enum Tree {
    Leaf { key: Vec<u8>, value: Vec<u8>, version: i64, hash: [u8; 32] },
    Inner { height: i64, size: i64, version: i64, hash: [u8; 32], left: Box<Tree>, right: Box<Tree> },
}

impl Tree {
    fn hash(&self) -> [u8; 32] {
        match self {
            Tree::Leaf { hash, .. } | Tree::Inner { hash, .. } => *hash,
        }
    }
    fn height(&self) -> i64 {
        match self {
            Tree::Leaf { .. } => 0,
            Tree::Inner { height, .. } => *height,
        }
    }
    fn size(&self) -> i64 {
        match self {
            Tree::Leaf { .. } => 1,
            Tree::Inner { size, .. } => *size,
        }
    }
}

fn iavl_header(height: i64, size: i64, version: i64) -> Vec<u8> {
    let mut h = Vec::new();
    zigzag(height, &mut h);
    zigzag(size, &mut h);
    zigzag(version, &mut h);
    h
}

fn iavl_leaf_hash(key: &[u8], value: &[u8], version: i64) -> [u8; 32] {
    let mut pre = iavl_header(0, 1, version);
    uvarint(key.len() as u64, &mut pre);
    pre.extend_from_slice(key);
    uvarint(32, &mut pre);
    pre.extend_from_slice(&sha256(value));
    sha256(&pre)
}

fn build_tree(rng: &mut ChaCha8Rng, kv: &[(Vec<u8>, Vec<u8>)], max_version: i64) -> Tree {
    if kv.len() == 1 {
        let version = rng.gen_range(1..=max_version);
        let hash = iavl_leaf_hash(&kv[0].0, &kv[0].1, version);
        return Tree::Leaf { key: kv[0].0.clone(), value: kv[0].1.clone(), version, hash };
    }
    // AVL-like (mostly balanced), sometimes skewed
    let mid = kv.len() / 2;
    let k = if rng.gen_bool(0.7) {
        mid.clamp(1, kv.len() - 1)
    } else {
        rng.gen_range(1..kv.len())
    };
    let left = build_tree(rng, &kv[..k], max_version);
    let right = build_tree(rng, &kv[k..], max_version);
    let height = left.height().max(right.height()) + 1;
    let size = left.size() + right.size();
    let version = rng.gen_range(1..=max_version);
    let mut pre = iavl_header(height, size, version);
    pre.push(32);
    pre.extend_from_slice(&left.hash());
    pre.push(32);
    pre.extend_from_slice(&right.hash());
    Tree::Inner { height, size, version, hash: sha256(&pre), left: Box::new(left), right: Box::new(right) }
}

fn iavl_leaf_op(version: i64) -> LeafOp {
    LeafOp {
        hash: HASH_SHA256,
        prehash_key: 0,
        prehash_value: HASH_SHA256,
        length: LEN_VAR_PROTO,
        prefix: iavl_header(0, 1, version),
    }
}

/// Existence proof of the `index`-th leaf (in key order).
fn iavl_exist(tree: &Tree, index: usize) -> ExistenceProof {
    fn go(t: &Tree, index: usize, path: &mut Vec<InnerOp>) -> ExistenceProof {
        match t {
            Tree::Leaf { key, value, version, .. } => ExistenceProof {
                key: key.clone(),
                value: value.clone(),
                leaf: Some(iavl_leaf_op(*version)),
                path: Vec::new(),
            },
            Tree::Inner { height, size, version, left, right, .. } => {
                let ls = left.size() as usize;
                let mut prefix = iavl_header(*height, *size, *version);
                let (proof, op) = if index < ls {
                    prefix.push(32);
                    let mut suffix = vec![32u8];
                    suffix.extend_from_slice(&right.hash());
                    (go(left, index, path), InnerOp { hash: HASH_SHA256, prefix, suffix })
                } else {
                    prefix.push(32);
                    prefix.extend_from_slice(&left.hash());
                    prefix.push(32);
                    (go(right, index - ls, path), InnerOp { hash: HASH_SHA256, prefix, suffix: Vec::new() })
                };
                path.push(op);
                proof
            }
        }
    }
    let mut path = Vec::new();
    let mut p = go(tree, index, &mut path);
    p.path = path;
    p
}

// ---------------------------------------------------------------------------------------------
// "simple" (tendermint RFC-6962) multistore tree
// ---------------------------------------------------------------------------------------------

fn simple_leaf_hash(name: &[u8], root: &[u8]) -> [u8; 32] {
    let mut pre = vec![0u8];
    uvarint(name.len() as u64, &mut pre);
    pre.extend_from_slice(name);
    uvarint(32, &mut pre);
    pre.extend_from_slice(&sha256(root));
    sha256(&pre)
}

fn split_point(n: usize) -> usize {
    let mut k = 1;
    while k * 2 < n {
        k *= 2;
    }
    k
}

fn simple_root(leaves: &[[u8; 32]]) -> [u8; 32] {
    match leaves.len() {
        0 => sha256(&[]),
        1 => leaves[0],
        n => {
            let k = split_point(n);
            let mut pre = vec![1u8];
            pre.extend_from_slice(&simple_root(&leaves[..k]));
            pre.extend_from_slice(&simple_root(&leaves[k..]));
            sha256(&pre)
        }
    }
}

fn simple_path(leaves: &[[u8; 32]], index: usize, out: &mut Vec<InnerOp>) {
    let n = leaves.len();
    if n <= 1 {
        return;
    }
    let k = split_point(n);
    if index < k {
        simple_path(&leaves[..k], index, out);
        out.push(InnerOp { hash: HASH_SHA256, prefix: vec![1], suffix: simple_root(&leaves[k..]).to_vec() });
    } else {
        simple_path(&leaves[k..], index - k, out);
        let mut prefix = vec![1u8];
        prefix.extend_from_slice(&simple_root(&leaves[..k]));
        out.push(InnerOp { hash: HASH_SHA256, prefix, suffix: Vec::new() });
    }
}

fn simple_exist(stores: &[(String, Vec<u8>)], index: usize) -> ExistenceProof {
    let leaves: Vec<[u8; 32]> = stores.iter().map(|(n, r)| simple_leaf_hash(n.as_bytes(), r)).collect();
    let mut path = Vec::new();
    simple_path(&leaves, index, &mut path);
    ExistenceProof {
        key: stores[index].0.as_bytes().to_vec(),
        value: stores[index].1.clone(),
        leaf: Some(LeafOp {
            hash: HASH_SHA256,
            prehash_key: 0,
            prehash_value: HASH_SHA256,
            length: LEN_VAR_PROTO,
            prefix: vec![0],
        }),
        path,
    }
}

// ---------------------------------------------------------------------------------------------
// Independent checker ("does the answer carry a chain?")
// ---------------------------------------------------------------------------------------------

/// Root computed from an existence proof, hashing with `vcore::sha` only. `None` unless every hashing
/// step is the one both store specs prescribe (sha256 leaf and inner hash, sha256 pre-hash of the
/// value, no pre-hash of the key, protobuf-varint length prefixes).
fn computed_root(p: &ExistenceProof) -> Option<Vec<u8>> {
    let leaf = p.leaf.as_ref()?;
    if leaf.hash != HASH_SHA256 || leaf.prehash_key != 0 || leaf.prehash_value != HASH_SHA256 || leaf.length != LEN_VAR_PROTO {
        return None;
    }
    if p.key.is_empty() || p.value.is_empty() {
        return None;
    }
    let mut pre = leaf.prefix.clone();
    uvarint(p.key.len() as u64, &mut pre);
    pre.extend_from_slice(&p.key);
    uvarint(32, &mut pre);
    pre.extend_from_slice(&sha256(&p.value));
    let mut h = sha256(&pre).to_vec();
    for op in &p.path {
        if op.hash != HASH_SHA256 {
            return None;
        }
        let mut pre = op.prefix.clone();
        pre.extend_from_slice(&h);
        pre.extend_from_slice(&op.suffix);
        h = sha256(&pre).to_vec();
    }
    Some(h)
}

fn existence_proofs(op: &ProofOp) -> Vec<ExistenceProof> {
    let Ok(cp) = CommitmentProof::decode(op.data.as_slice()) else {
        return Vec::new();
    };
    match cp.proof {
        Some(IcsProof::Exist(e)) => vec![e],
        Some(IcsProof::Batch(b)) => b
            .entries
            .into_iter()
            .filter_map(|e| match e.proof {
                Some(ics23::batch_entry::Proof::Exist(e)) => Some(e),
                _ => None,
            })
            .collect(),
        _ => Vec::new(),
    }
}

/// Permissive: any op may hold the store-level proof, any other op the multistore-level proof.
fn carries_chain(resp: &RawAbciQueryResponse, bank_key: &[u8], app_hash: &[u8]) -> bool {
    let Some(ops) = resp.proof_ops.as_ref() else {
        return false;
    };
    if resp.value.is_empty() {
        return false;
    }
    let all: Vec<Vec<ExistenceProof>> = ops.ops.iter().map(existence_proofs).collect();
    for (i, lows) in all.iter().enumerate() {
        for low in lows {
            if low.key != bank_key || low.value != resp.value {
                continue;
            }
            let Some(r1) = computed_root(low) else { continue };
            for (j, highs) in all.iter().enumerate() {
                if i == j {
                    continue;
                }
                for high in highs {
                    if high.key == b"bank" && high.value == r1 && computed_root(high).as_deref() == Some(app_hash) {
                        return true;
                    }
                }
            }
        }
    }
    false
}

/// sha256-only host functions for the reference `ics23` crate, used solely to self-check that the
/// harness's *non-existence* proofs are valid per the iavl spec (the client never looks at them).
struct RefSha;

impl ics23::HostFunctionsProvider for RefSha {
    fn sha2_256(m: &[u8]) -> [u8; 32] {
        sha256(m)
    }
    fn sha2_512(_: &[u8]) -> [u8; 64] {
        [0; 64]
    }
    fn sha2_512_truncated(_: &[u8]) -> [u8; 32] {
        [0; 32]
    }
    fn keccak_256(_: &[u8]) -> [u8; 32] {
        [0; 32]
    }
    fn ripemd160(_: &[u8]) -> [u8; 20] {
        [0; 20]
    }
    fn blake2b_512(_: &[u8]) -> [u8; 64] {
        [0; 64]
    }
    fn blake2s_256(_: &[u8]) -> [u8; 32] {
        [0; 32]
    }
    fn blake3(_: &[u8]) -> [u8; 32] {
        [0; 32]
    }
}

/// Does `answer` (an honest empty answer) carry a valid absence chain for `key` under `app_hash`?
fn absence_chain_valid(answer: &RawAbciQueryResponse, key: &[u8], bank_root: &[u8], app_hash: &[u8]) -> bool {
    let Some(ops) = answer.proof_ops.as_ref() else { return false };
    if ops.ops.len() != 2 {
        return false;
    }
    let Ok(non) = CommitmentProof::decode(ops.ops[0].data.as_slice()) else { return false };
    let Ok(store) = CommitmentProof::decode(ops.ops[1].data.as_slice()) else { return false };
    ics23::verify_non_membership::<RefSha>(&non, &ics23::iavl_spec(), &bank_root.to_vec(), key)
        && ics23::verify_membership::<RefSha>(&store, &ics23::tendermint_spec(), &app_hash.to_vec(), b"bank", bank_root)
}

// ---------------------------------------------------------------------------------------------
// World
// ---------------------------------------------------------------------------------------------

fn bank_key(addr: &[u8; 20]) -> Vec<u8> {
    let mut k = vec![0x02, 20];
    k.extend_from_slice(addr);
    k.extend_from_slice(b"utia");
    k
}

struct State {
    /// sorted bank store content
    kv: Vec<(Vec<u8>, Vec<u8>)>,
    tree: Tree,
    /// sorted (store name, root)
    stores: Vec<(String, Vec<u8>)>,
    bank_index: usize,
    app_hash: [u8; 32],
    /// another store of the same multistore that genuinely contains the same keys with other values
    decoy: Option<(usize, Tree, Vec<(Vec<u8>, Vec<u8>)>)>,
}

const STORE_NAMES: [&str; 20] = [
    "acc", "authz", "blob", "capability", "circuit", "consensus", "distribution", "evidence", "feegrant", "gov",
    "ibc", "icahost", "mint", "minfee", "packetfowardmiddleware", "params", "signal", "slashing", "staking", "transfer",
];

fn random_amount(rng: &mut ChaCha8Rng) -> u64 {
    match rng.gen_range(0..8) {
        0 => rng.gen_range(1..10),
        1 => u64::MAX,
        2 => u64::MAX - rng.gen_range(0..1000),
        3 => 10u64.pow(rng.gen_range(1..19)),
        _ => rng.gen_range(1..10_000_000_000u64),
    }
}

fn make_state(rng: &mut ChaCha8Rng, accounts: &[([u8; 20], u64)], others: &[(Vec<u8>, Vec<u8>)], store_names: &[String], version: i64) -> State {
    let mut kv: Vec<(Vec<u8>, Vec<u8>)> = accounts
        .iter()
        .map(|(a, amt)| (bank_key(a), amt.to_string().into_bytes()))
        .collect();
    kv.extend(others.iter().cloned());
    kv.sort();
    kv.dedup_by(|a, b| a.0 == b.0);
    let tree = build_tree(rng, &kv, version);
    let decoy_name = store_names.iter().find(|n| *n != "bank").cloned();
    let decoy_kv: Vec<(Vec<u8>, Vec<u8>)> = kv
        .iter()
        .map(|(k, v)| {
            let mut x = random_amount(rng).to_string().into_bytes();
            if &x == v {
                x.push(b'7');
            }
            (k.clone(), x)
        })
        .collect();
    let decoy_tree = build_tree(rng, &decoy_kv, version);
    let mut stores: Vec<(String, Vec<u8>)> = store_names
        .iter()
        .map(|n| {
            let root = if n == "bank" {
                tree.hash().to_vec()
            } else if Some(n) == decoy_name.as_ref() {
                decoy_tree.hash().to_vec()
            } else {
                vcore::rand_bytes(rng, 32)
            };
            (n.clone(), root)
        })
        .collect();
    stores.sort();
    let bank_index = stores.iter().position(|(n, _)| n == "bank").unwrap();
    let decoy = decoy_name.map(|n| (stores.iter().position(|(x, _)| *x == n).unwrap(), decoy_tree, decoy_kv));
    let leaves: Vec<[u8; 32]> = stores.iter().map(|(n, r)| simple_leaf_hash(n.as_bytes(), r)).collect();
    let app_hash = simple_root(&leaves);
    State { kv, tree, stores, bank_index, app_hash, decoy }
}

impl State {
    fn index_of(&self, key: &[u8]) -> Option<usize> {
        self.kv.iter().position(|(k, _)| k == key)
    }

    /// What an honest node answers to `store/bank/key` with `prove = true`.
    fn honest_answer(&self, key: &[u8], height: i64) -> RawAbciQueryResponse {
        let store_op = ProofOp {
            r#type: "ics23:simple".into(),
            key: b"bank".to_vec(),
            data: CommitmentProof { proof: Some(IcsProof::Exist(simple_exist(&self.stores, self.bank_index))) }.encode_to_vec(),
        };
        let (value, iavl) = match self.index_of(key) {
            Some(i) => (self.kv[i].1.clone(), IcsProof::Exist(iavl_exist(&self.tree, i))),
            None => {
                let right = self.kv.iter().position(|(k, _)| k.as_slice() > key);
                let left = match right {
                    Some(0) => None,
                    Some(r) => Some(r - 1),
                    None => Some(self.kv.len() - 1),
                };
                (
                    Vec::new(),
                    IcsProof::Nonexist(NonExistenceProof {
                        key: key.to_vec(),
                        left: left.map(|i| iavl_exist(&self.tree, i)),
                        right: right.map(|i| iavl_exist(&self.tree, i)),
                    }),
                )
            }
        };
        RawAbciQueryResponse {
            code: 0,
            log: String::new(),
            info: String::new(),
            index: 0,
            key: key.to_vec(),
            value,
            proof_ops: Some(ProofOps {
                ops: vec![
                    ProofOp { r#type: "ics23:iavl".into(), key: key.to_vec(), data: CommitmentProof { proof: Some(iavl) }.encode_to_vec() },
                    store_op,
                ],
            }),
            height,
            codespace: String::new(),
        }
    }
}

struct World {
    /// states[i] = application state after block `base + i`; header `base + i + 1` carries its app hash
    states: Vec<State>,
    base: u64,
    accounts: Vec<[u8; 20]>,
    absent: Vec<[u8; 20]>,
    headers: Vec<ExtendedHeader>,
}

impl World {
    /// A real node's behaviour for an ABCI query (no tampering).
    fn honest_node_answer(&self, req: &AbciQueryRequest) -> RawAbciQueryResponse {
        let err = |code: u32, log: &str| RawAbciQueryResponse { code, log: log.into(), codespace: "sdk".into(), height: req.height, ..Default::default() };
        if req.path != "store/bank/key" {
            return err(6, "unknown query path");
        }
        let idx = req.height - self.base as i64;
        if !(0..self.states.len() as i64).contains(&idx) {
            return err(18, "failed to load state at height: version does not exist");
        }
        let mut a = self.states[idx as usize].honest_answer(&req.data, req.height);
        if !req.prove {
            a.proof_ops = None;
        }
        a
    }
}

fn make_world(rng: &mut ChaCha8Rng, template: &ExtendedHeader) -> World {
    let n_acc = match rng.gen_range(0..6) {
        0 => 1,
        1 => 2,
        _ => rng.gen_range(3..40),
    };
    let mut accounts: Vec<[u8; 20]> = (0..n_acc)
        .map(|_| {
            let mut a = [0u8; 20];
            rng.fill(&mut a);
            a
        })
        .collect();
    accounts.sort();
    accounts.dedup();
    // unfunded addresses: below all, above all, in between, adjacent to an existing one
    let mut absent = Vec::new();
    for i in 0..4 {
        let mut a = [0u8; 20];
        rng.fill(&mut a);
        match i {
            0 => a = [0u8; 20],
            1 => a = [0xff; 20],
            2 => {
                a = accounts[rng.gen_range(0..accounts.len())];
                a[19] ^= 1;
            }
            _ => {}
        }
        if !accounts.contains(&a) {
            absent.push(a);
        }
    }
    // other bank-store keys (supply, denom metadata, other denoms of the same accounts)
    let mut others = Vec::new();
    for _ in 0..rng.gen_range(0..8) {
        let kind = rng.gen_range(0..3);
        let key = match kind {
            0 => {
                let mut k = vec![0x00];
                k.extend_from_slice(b"utia");
                k
            }
            1 => {
                let mut k = vec![0x02, 20];
                k.extend_from_slice(&accounts[rng.gen_range(0..accounts.len())]);
                k.extend_from_slice(b"ibc/ABCDEF");
                k
            }
            _ => {
                let mut k = vec![rng.gen_range(3..8u8)];
                let n = rng.gen_range(1..24);
                k.extend_from_slice(&vcore::rand_bytes(rng, n));
                k
            }
        };
        others.push((key, rng.gen_range(1..1_000_000u64).to_string().into_bytes()));
    }
    let n_stores = rng.gen_range(0..STORE_NAMES.len());
    let mut names: Vec<String> = STORE_NAMES.to_vec().into_iter().map(str::to_string).collect();
    names.shuffle(rng);
    names.truncate(n_stores);
    names.push("bank".into());
    let base = match rng.gen_range(0..4) {
        0 => 1,
        1 => 2,
        _ => rng.gen_range(3..5_000_000u64),
    };
    let mut states = Vec::new();
    for i in 0..3u64 {
        let balances: Vec<([u8; 20], u64)> = accounts.iter().map(|a| (*a, random_amount(rng))).collect();
        states.push(make_state(rng, &balances, &others, &names, (base + i) as i64));
    }
    let headers = (0..3u64)
        .map(|i| {
            let mut h = template.clone();
            h.header.height = (base + i + 1).try_into().unwrap();
            h.header.app_hash = states[i as usize].app_hash.to_vec().try_into().unwrap();
            h
        })
        .collect();
    World { states, base, accounts, absent, headers }
}

// ---------------------------------------------------------------------------------------------
// Tampering
// ---------------------------------------------------------------------------------------------

fn decode_exist(op: &ProofOp) -> ExistenceProof {
    match CommitmentProof::decode(op.data.as_slice()).unwrap().proof {
        Some(IcsProof::Exist(e)) => e,
        _ => panic!("harness: expected an existence proof"),
    }
}

fn encode_exist(e: ExistenceProof) -> Vec<u8> {
    CommitmentProof { proof: Some(IcsProof::Exist(e)) }.encode_to_vec()
}

fn flip(rng: &mut ChaCha8Rng, v: &mut Vec<u8>) -> bool {
    if v.is_empty() {
        return false;
    }
    let i = rng.gen_range(0..v.len());
    v[i] ^= 1 << rng.gen_range(0..8);
    true
}

/// Honest answer for an unfunded address: empty value + genuine non-existence proof chain.
const HONEST_ABSENT: &str = "absent/honest-nonexistence-proof";

const FAMILIES: [&str; 42] = [
    "empty-value/funded-no-proof",
    "store/valid-proof-in-other-store",
    "store/valid-proof-in-other-store-op-labelled-bank",
    "ops/nonexistence-proof-with-nonempty-value",
    "encoding/iavl-proof-batch-wrapped",
    "encoding/unknown-protobuf-field-appended",
    "value/response-only",
    "value/response-and-proof",
    "value/proof-only",
    "value/append-digit",
    "key/other-account-consistent",
    "key/other-account-op-key-kept",
    "key/other-account-response-key-only",
    "key/other-denom",
    "proof/iavl-leaf-prefix-byte",
    "proof/iavl-leaf-op-field",
    "proof/iavl-inner-prefix-byte",
    "proof/iavl-inner-suffix-byte",
    "proof/iavl-drop-inner-op",
    "proof/iavl-duplicate-inner-op",
    "proof/iavl-swap-inner-ops",
    "proof/simple-inner-byte",
    "proof/simple-leaf-prefix",
    "proof/simple-value-byte",
    "proof/random-byte-of-op-data",
    "proof/truncated-op-data",
    "ops/swapped-order",
    "ops/swapped-types",
    "ops/unknown-type",
    "ops/only-iavl",
    "ops/only-simple",
    "ops/duplicated-iavl",
    "ops/extra-third-op",
    "ops/empty-list",
    "ops/missing",
    "store/other-store-name",
    "store/other-store-labelled-bank",
    "root/other-height",
    "root/other-world-value-kept",
    "root/forged-chain-plus-trailing-op",
    "empty-value/funded-with-existence-proof",
    "empty-value/funded-with-foreign-nonexistence-proof",
];

/// Returns the tampered answer, or `None` if the family does not apply to this world/answer.
fn tamper(rng: &mut ChaCha8Rng, family: &str, w: &World, si: usize, addr: &[u8; 20], honest: &RawAbciQueryResponse) -> Option<RawAbciQueryResponse> {
    let st = &w.states[si];
    let key = bank_key(addr);
    let mut r = honest.clone();
    let ops = &mut r.proof_ops.as_mut().unwrap().ops;
    let other_value = |rng: &mut ChaCha8Rng, v: &[u8]| -> Vec<u8> {
        loop {
            let x = random_amount(rng).to_string().into_bytes();
            if x != v {
                return x;
            }
        }
    };
    match family {
        "encoding/iavl-proof-batch-wrapped" => {
            // a different but equivalent encoding of the same chain (ICS-23 batch with one entry)
            let e = decode_exist(&ops[0]);
            ops[0].data = CommitmentProof {
                proof: Some(IcsProof::Batch(BatchProof {
                    entries: vec![BatchEntry { proof: Some(ics23::batch_entry::Proof::Exist(e)) }],
                })),
            }
            .encode_to_vec();
        }
        "encoding/unknown-protobuf-field-appended" => {
            // field 15, varint: ignored by any protobuf decoder
            let i = rng.gen_range(0..2);
            ops[i].data.extend_from_slice(&[0x78, 0x01]);
        }
        "ops/nonexistence-proof-with-nonempty-value" => {
            // claims a balance, but the store-level op is a (genuine) non-existence proof of another address
            let a = w.absent.first()?;
            let o = st.honest_answer(&bank_key(a), honest.height);
            let mut op = o.proof_ops.unwrap().ops.swap_remove(0);
            op.key = key.clone();
            ops[0] = op;
        }
        "value/response-only" => r.value = other_value(rng, &honest.value),
        "value/response-and-proof" => {
            let v = other_value(rng, &honest.value);
            let mut e = decode_exist(&ops[0]);
            e.value = v.clone();
            ops[0].data = encode_exist(e);
            r.value = v;
        }
        "value/proof-only" => {
            let mut e = decode_exist(&ops[0]);
            e.value = other_value(rng, &honest.value);
            ops[0].data = encode_exist(e);
        }
        "value/append-digit" => {
            let mut v = honest.value.clone();
            if v.len() >= 19 {
                v.pop();
            } else {
                v.push(b'0' + rng.gen_range(0..10));
            }
            let mut e = decode_exist(&ops[0]);
            e.value = v.clone();
            ops[0].data = encode_exist(e);
            r.value = v;
        }
        "key/other-account-consistent" | "key/other-account-op-key-kept" | "key/other-account-response-key-only" => {
            let others: Vec<&[u8; 20]> = w.accounts.iter().filter(|a| *a != addr).collect();
            let other = **others.get(rng.gen_range(0..others.len().max(1)))?;
            let mut o = st.honest_answer(&bank_key(&other), honest.height);
            match family {
                "key/other-account-consistent" => {}
                "key/other-account-op-key-kept" => {
                    o.proof_ops.as_mut().unwrap().ops[0].key = key.clone();
                    o.key = key.clone();
                }
                _ => o.key = key.clone(),
            }
            if o.value == honest.value {
                return None;
            }
            return Some(o);
        }
        "key/other-denom" => {
            // same account, another denom of it in the store (if any)
            let (k, _) = st.kv.iter().find(|(k, _)| k.len() > 22 && k[..22] == key[..22] && k != &key)?;
            let o = st.honest_answer(k, honest.height);
            if o.value == honest.value {
                return None;
            }
            return Some(o);
        }
        "proof/iavl-leaf-prefix-byte" => {
            let mut e = decode_exist(&ops[0]);
            flip(rng, &mut e.leaf.as_mut().unwrap().prefix);
            ops[0].data = encode_exist(e);
        }
        "proof/iavl-leaf-op-field" => {
            let mut e = decode_exist(&ops[0]);
            let l = e.leaf.as_mut().unwrap();
            match rng.gen_range(0..4) {
                0 => l.hash = [0, 2, 3, 5][rng.gen_range(0..4)],
                1 => l.prehash_value = 0,
                2 => l.prehash_key = HASH_SHA256,
                _ => l.length = [0, 2, 3, 4][rng.gen_range(0..4)],
            }
            ops[0].data = encode_exist(e);
        }
        "proof/iavl-inner-prefix-byte" | "proof/iavl-inner-suffix-byte" | "proof/iavl-drop-inner-op" | "proof/iavl-duplicate-inner-op"
        | "proof/iavl-swap-inner-ops" => {
            let mut e = decode_exist(&ops[0]);
            if e.path.is_empty() {
                return None;
            }
            let i = rng.gen_range(0..e.path.len());
            match family {
                "proof/iavl-inner-prefix-byte" => {
                    flip(rng, &mut e.path[i].prefix);
                }
                "proof/iavl-inner-suffix-byte" => {
                    let j = (0..e.path.len()).find(|j| !e.path[(i + j) % e.path.len()].suffix.is_empty())?;
                    let n = e.path.len();
                    flip(rng, &mut e.path[(i + j) % n].suffix);
                }
                "proof/iavl-drop-inner-op" => {
                    e.path.remove(i);
                }
                "proof/iavl-duplicate-inner-op" => {
                    let op = e.path[i].clone();
                    e.path.insert(i, op);
                }
                _ => {
                    if e.path.len() < 2 {
                        return None;
                    }
                    let j = (i + 1) % e.path.len();
                    if e.path[i] == e.path[j] {
                        return None;
                    }
                    e.path.swap(i, j);
                }
            }
            ops[0].data = encode_exist(e);
        }
        "proof/simple-inner-byte" => {
            let mut e = decode_exist(&ops[1]);
            if e.path.is_empty() {
                return None;
            }
            let i = rng.gen_range(0..e.path.len());
            if rng.gen_bool(0.5) && !e.path[i].suffix.is_empty() {
                flip(rng, &mut e.path[i].suffix);
            } else {
                flip(rng, &mut e.path[i].prefix);
            }
            ops[1].data = encode_exist(e);
        }
        "proof/simple-leaf-prefix" => {
            let mut e = decode_exist(&ops[1]);
            e.leaf.as_mut().unwrap().prefix = vec![0, rng.gen_range(0..=255u8)];
            ops[1].data = encode_exist(e);
        }
        "proof/simple-value-byte" => {
            let mut e = decode_exist(&ops[1]);
            flip(rng, &mut e.value);
            ops[1].data = encode_exist(e);
        }
        "proof/random-byte-of-op-data" => {
            let i = rng.gen_range(0..2);
            flip(rng, &mut ops[i].data);
        }
        "proof/truncated-op-data" => {
            let i = rng.gen_range(0..2);
            let n = rng.gen_range(0..ops[i].data.len());
            ops[i].data.truncate(n);
        }
        "ops/swapped-order" => ops.swap(0, 1),
        "ops/swapped-types" => {
            ops[0].r#type = "ics23:simple".into();
            ops[1].r#type = "ics23:iavl".into();
        }
        "ops/unknown-type" => {
            let i = rng.gen_range(0..2);
            ops[i].r#type = ["ics23:smt", "iavl:v", "", "ics23:tendermint"][rng.gen_range(0..4)].into();
        }
        "ops/only-iavl" => {
            ops.truncate(1);
        }
        "ops/only-simple" => {
            ops.remove(0);
        }
        "ops/duplicated-iavl" => {
            let o = ops[0].clone();
            ops.insert(1, o);
        }
        "ops/extra-third-op" => {
            let o = ops[rng.gen_range(0..2)].clone();
            ops.push(o);
        }
        "ops/empty-list" => ops.clear(),
        "ops/missing" => r.proof_ops = None,
        "store/valid-proof-in-other-store" | "store/valid-proof-in-other-store-op-labelled-bank" => {
            // a fully valid chain up to the header's app hash - but through another store that really
            // holds the same key with another value
            let (idx, tree, kv) = st.decoy.as_ref()?;
            let i = kv.iter().position(|(k, _)| *k == key)?;
            r.value = kv[i].1.clone();
            ops[0].data = encode_exist(iavl_exist(tree, i));
            ops[1].data = encode_exist(simple_exist(&st.stores, *idx));
            ops[1].key = if family == "store/valid-proof-in-other-store" { st.stores[*idx].0.as_bytes().to_vec() } else { b"bank".to_vec() };
        }
        "store/other-store-name" | "store/other-store-labelled-bank" => {
            // the same (key, value) is proven in another store of the same multistore:
            // build a world variant where store X has the bank tree's content but the real bank differs
            // the attacker cannot change the committed multistore, so the other store keeps its
            // committed root; a proof that claims the bank tree's root under that store cannot link
            let candidates: Vec<usize> = (0..st.stores.len()).filter(|i| *i != st.bank_index).collect();
            let idx = *candidates.get(rng.gen_range(0..candidates.len().max(1)))?;
            let mut e = simple_exist(&st.stores, idx);
            e.value = st.tree.hash().to_vec();
            if family == "store/other-store-labelled-bank" {
                e.key = b"bank".to_vec();
                ops[1].key = b"bank".to_vec();
            } else {
                ops[1].key = st.stores[idx].0.as_bytes().to_vec();
            }
            ops[1].data = encode_exist(e);
        }
        "root/other-height" => {
            // a perfectly consistent answer, but for the state of another height
            let sj = (si + 1 + rng.gen_range(0..2)) % 3;
            let o = w.states[sj].honest_answer(&key, honest.height);
            if o.value == honest.value {
                return None;
            }
            return Some(o);
        }
        "root/other-world-value-kept" => {
            // store-level proof of a forged bank store (same key, other value) + multistore proof
            // built over the forged store root: consistent in itself, but not under the header
            let mut forged: Vec<(Vec<u8>, Vec<u8>)> = st.kv.clone();
            let i = st.index_of(&key)?;
            forged[i].1 = other_value(rng, &honest.value);
            let tree = build_tree(rng, &forged, 7);
            let mut stores = st.stores.clone();
            stores[st.bank_index].1 = tree.hash().to_vec();
            ops[0].data = encode_exist(iavl_exist(&tree, i));
            ops[1].data = encode_exist(simple_exist(&stores, st.bank_index));
            r.value = forged[i].1.clone();
        }
        "root/forged-chain-plus-trailing-op" => {
            // a self-consistent forged chain (key -> other value -> forged bank root -> forged app hash)
            // followed by ONE extra existence op whose value is that forged app hash: a verifier that
            // takes the anchor from "the next op" instead of the header would accept it
            let mut forged: Vec<(Vec<u8>, Vec<u8>)> = st.kv.clone();
            let i = st.index_of(&key)?;
            forged[i].1 = other_value(rng, &honest.value);
            let tree = build_tree(rng, &forged, 7);
            let mut stores = st.stores.clone();
            stores[st.bank_index].1 = tree.hash().to_vec();
            let top = simple_exist(&stores, st.bank_index);
            let forged_app_hash = computed_root(&top)?;
            ops[0].data = encode_exist(iavl_exist(&tree, i));
            ops[1].data = encode_exist(top.clone());
            let mut extra = ops[1].clone();
            let mut e = top;
            e.key = b"anchor".to_vec();
            e.value = forged_app_hash;
            extra.key = b"anchor".to_vec();
            extra.data = encode_exist(e);
            ops.push(extra);
            r.value = forged[i].1.clone();
        }
        "empty-value/funded-no-proof" => {
            r.value = Vec::new();
            r.proof_ops = if rng.gen_bool(0.5) { None } else { Some(ProofOps { ops: Vec::new() }) };
        }
        "empty-value/funded-with-existence-proof" => r.value = Vec::new(),
        "empty-value/funded-with-foreign-nonexistence-proof" => {
            // a genuine non-existence proof, but of another (really unfunded) address
            let a = w.absent.first()?;
            let o = st.honest_answer(&bank_key(a), honest.height);
            r.value = Vec::new();
            r.proof_ops = o.proof_ops;
        }
        _ => unreachable!("unknown family {family}"),
    }
    Some(r)
}

// ---------------------------------------------------------------------------------------------
// Fake node + driver
// ---------------------------------------------------------------------------------------------

#[derive(Default)]
struct Node45 {
    /// `Some`: the (tampered) answer to give whatever is asked. `None`: behave like an honest node
    /// over `world` (state selected by the requested height, key looked up, proof only if requested).
    answer: Mutex<Option<RawAbciQueryResponse>>,
    world: Mutex<Option<Arc<World>>>,
    given: Mutex<Option<RawAbciQueryResponse>>,
    requests: Mutex<Vec<AbciQueryRequest>>,
    unexpected: Mutex<Vec<String>>,
}

impl Handler for Node45 {
    fn handle(self: Arc<Self>, c: Call) -> BoxFut<Reply> {
        let reply = if c.path == "/cosmos.base.tendermint.v1beta1.Service/ABCIQuery" {
            match AbciQueryRequest::decode(c.msg.as_slice()) {
                Ok(req) => {
                    self.requests.lock().unwrap().push(req.clone());
                    let a = match self.answer.lock().unwrap().clone() {
                        Some(a) => a,
                        None => {
                            let w = self.world.lock().unwrap().clone().expect("world set");
                            w.honest_node_answer(&req)
                        }
                    };
                    *self.given.lock().unwrap() = Some(a.clone());
                    Reply::msg(&a)
                }
                Err(e) => {
                    self.unexpected.lock().unwrap().push(format!("undecodable ABCIQuery request: {e}"));
                    Reply::status(tonic::Code::InvalidArgument, "bad request")
                }
            }
        } else {
            self.unexpected.lock().unwrap().push(format!("unexpected path {}", c.path));
            Reply::status(tonic::Code::Unimplemented, "unexpected")
        };
        Box::pin(async move { reply })
    }
}

struct Driver<'a> {
    ctx: &'a Ctx,
    rt: tokio::runtime::Runtime,
    node: Arc<Node45>,
    client: GrpcClient,
}

#[derive(Debug)]
enum Verdict {
    Ok(u64, String),
    Err(String),
    Panic(String),
}

impl Driver<'_> {
    /// `answer = None`: the node answers honestly to whatever the client asks.
    fn ask(&self, addr: &[u8; 20], header: &ExtendedHeader, answer: Option<RawAbciQueryResponse>) -> (Verdict, Vec<AbciQueryRequest>, Option<RawAbciQueryResponse>) {
        *self.node.answer.lock().unwrap() = answer;
        *self.node.given.lock().unwrap() = None;
        self.node.requests.lock().unwrap().clear();
        let address = Address::AccAddress(AccAddress::from(*addr));
        let res = vcore::guard(|| self.rt.block_on(async { self.client.get_verified_balance(&address, header).await }));
        let v = match res {
            Ok(Ok(coin)) => Verdict::Ok(coin.amount(), coin.denom().to_string()),
            Ok(Err(e)) => Verdict::Err(e.to_string()),
            Err(p) => Verdict::Panic(p),
        };
        self.ctx.eval();
        (v, self.node.requests.lock().unwrap().clone(), self.node.given.lock().unwrap().clone())
    }
}

fn answer_json(a: &RawAbciQueryResponse) -> vcore::Value {
    json!({
        "code": a.code, "height": a.height, "key": vcore::hex_full(&a.key), "value": String::from_utf8_lossy(&a.value),
        "ops": a.proof_ops.as_ref().map(|p| p.ops.iter().map(|o| json!({"type": o.r#type, "key": vcore::hex_full(&o.key), "data": vcore::hex_full(&o.data)})).collect::<Vec<_>>()),
    })
}

fn err_class(e: &str) -> &'static str {
    if e.contains("Computed root is different") {
        "root_mismatch"
    } else if e.contains("is different than expected") {
        "op_key_mismatch"
    } else if e.contains("Existance proof missing") {
        "existence_proof_missing"
    } else if e.contains("Uneven proofs") {
        "uneven_lengths"
    } else if e.contains("ABCI proof is missing") {
        "proof_missing"
    } else if e.contains("Unsupported proof spec") {
        "unsupported_spec"
    } else if e.contains("Decoding from proto failed") {
        "decode"
    } else if e.contains("Failed to parse response") {
        "parse"
    } else {
        "other"
    }
}

fn run_world(d: &Driver<'_>, world_id: u64, template: &ExtendedHeader) {
    let ctx = d.ctx;
    let mut rng = ctx.rng(1, world_id);
    let w = Arc::new(make_world(&mut rng, template));
    *d.node.world.lock().unwrap() = Some(w.clone());
    ctx.count("worlds");
    // generator self-check against an independent implementation of the multistore root
    for st in &w.states {
        let leaves: Vec<Vec<u8>> = st
            .stores
            .iter()
            .map(|(n, r)| {
                let mut l = Vec::new();
                uvarint(n.len() as u64, &mut l);
                l.extend_from_slice(n.as_bytes());
                uvarint(32, &mut l);
                l.extend_from_slice(&sha256(r));
                l
            })
            .collect();
        if vcore::sha::merkle_root(&leaves) != st.app_hash {
            ctx.inconclusive("harness: multistore root differs from vcore::sha::merkle_root");
            return;
        }
    }

    let si = rng.gen_range(0..3usize);
    let st = &w.states[si];
    let header = &w.headers[si];
    let query_height = (w.base + si as u64) as i64;
    let detail = |family: &str, addr: &[u8; 20], answer: &RawAbciQueryResponse, v: &Verdict| {
        json!({"world": world_id, "family": family, "address": vcore::hex_full(addr), "bank_key": vcore::hex_full(&bank_key(addr)),
               "header_height": header.height(), "app_hash": vcore::hex_full(&st.app_hash),
               "store_size": st.kv.len(), "stores": st.stores.len(), "answer": answer_json(answer), "client_returned": format!("{v:?}")})
    };
    let judge = |family: &str, addr: &[u8; 20], expected_answer: &RawAbciQueryResponse, honest_funded: Option<u64>| {
        let key = bank_key(addr);
        // honest families: the node answers what a real node answers to the client's actual request
        let honest_mode = family == "honest/funded" || family == HONEST_ABSENT;
        let (v, reqs, given) = d.ask(addr, header, if honest_mode { None } else { Some(expected_answer.clone()) });
        if reqs.len() != 1 {
            ctx.inconclusive(&format!("expected exactly one ABCIQuery per balance query, saw {}", reqs.len()));
            return;
        }
        let Some(given) = given else {
            ctx.inconclusive("fake node gave no answer");
            return;
        };
        let answer = &given;
        let rq = &reqs[0];
        if rq.path != "store/bank/key" || rq.data != key || !rq.prove || rq.height != query_height {
            // not a violation by itself: an honest node then answers for what was asked, and the
            // honest/* oracles decide
            ctx.count("request_shape_unexpected");
        }
        let chain = carries_chain(answer, &key, &st.app_hash);
        let absence_proven = answer.value.is_empty() && absence_chain_valid(answer, &key, &st.tree.hash(), &st.app_hash);
        if answer.value.is_empty() {
            ctx.count("empty_value_answers");
        }
        let group = family.split('/').next().unwrap();
        match &v {
            Verdict::Panic(p) => {
                ctx.violation(
                    &format!("C45/verify/panic/{}", vcore::panic_site(p)),
                    &format!("get_verified_balance panicked on a node answer: {p}"),
                    detail(family, addr, answer, &v),
                );
            }
            Verdict::Ok(amount, denom) if absence_proven => {
                // the answer carries a valid chain of (non-existence of the bank key in the bank store,
                // bank store root under the header's app hash; checked with the reference ics23 crate):
                // absence is proven by the answer
                ctx.count(&format!("accepted/{family}"));
                ctx.count("ok_absent_with_valid_nonexistence_chain");
                if *amount != 0 || denom != "utia" {
                    ctx.violation(
                        "C45/verify/amount-differs-from-proven-value",
                        &format!("client reported {amount}{denom} for an account proven absent"),
                        detail(family, addr, answer, &v),
                    );
                }
            }
            Verdict::Ok(amount, denom) => {
                ctx.count(&format!("accepted/{family}"));
                if !chain {
                    if answer.value.is_empty() {
                        ctx.count("empty_value_reported_as_verified_zero");
                        ctx.violation(
                            "C45/empty-value/ok-without-proof",
                            &format!(
                                "node answered an empty value ({family}); the client reported a verified balance of {amount}{denom} although the answer carries no proof chain (absence is never proven; real balance of the account in this state: {:?})",
                                st.index_of(&key).map(|i| String::from_utf8_lossy(&st.kv[i].1).to_string())
                            ),
                            detail(family, addr, answer, &v),
                        );
                    } else {
                        ctx.violation(
                            &format!("C45/verify/ok-without-chain/{group}"),
                            &format!("client reported verified balance {amount}{denom} for a tampered answer ({family}) that carries no chain from (bank key, value) to the header's app hash"),
                            detail(family, addr, answer, &v),
                        );
                    }
                } else {
                    let proven = std::str::from_utf8(&answer.value).ok().and_then(|s| s.parse::<u64>().ok());
                    if proven != Some(*amount) || denom != "utia" {
                        ctx.violation(
                            "C45/verify/amount-differs-from-proven-value",
                            &format!("client reported {amount}{denom}, the proven value is {:?}", String::from_utf8_lossy(&answer.value)),
                            detail(family, addr, answer, &v),
                        );
                    }
                    ctx.count("ok_with_chain");
                }
            }
            Verdict::Err(e) => {
                ctx.count(&format!("rejected/{family}"));
                ctx.count(&format!("reject_reason/{}", err_class(e)));
                if chain {
                    ctx.count("rejected_although_chain_present");
                }
                if let Some(bal) = honest_funded {
                    ctx.violation(
                        "C45/honest/rejected",
                        &format!("an honest answer (balance {bal}) with a valid proof chain was rejected: {e}"),
                        detail(family, addr, answer, &v),
                    );
                }
            }
        }
        if honest_funded.is_some() && !carries_chain(expected_answer, &key, &st.app_hash) {
            ctx.inconclusive("harness: honest answer does not pass the harness's own chain check");
        }
        ctx.nontrivial(&(family, st.kv.len().min(12), st.stores.len().min(8), st.index_of(&key).map(|i| (i == 0, i + 1 == st.kv.len())), matches!(v, Verdict::Ok(..))));
        ctx.sample(|| detail(family, addr, answer, &v));
    };

    // honest, funded: every account in small stores, a few in big ones
    let picks: Vec<[u8; 20]> = if w.accounts.len() <= 4 {
        w.accounts.clone()
    } else {
        let mut p = vec![w.accounts[0], *w.accounts.last().unwrap()];
        p.push(w.accounts[rng.gen_range(0..w.accounts.len())]);
        p
    };
    for a in &picks {
        let key = bank_key(a);
        let bal: u64 = std::str::from_utf8(&st.kv[st.index_of(&key).unwrap()].1).unwrap().parse().unwrap();
        let ans = st.honest_answer(&key, query_height);
        judge("honest/funded", a, &ans, Some(bal));
    }
    // tampered
    let target = picks[rng.gen_range(0..picks.len())];
    let honest = st.honest_answer(&bank_key(&target), query_height);
    for family in FAMILIES {
        match tamper(&mut rng, family, &w, si, &target, &honest) {
            Some(ans) => {
                if ans == honest {
                    continue;
                }
                judge(family, &target, &ans, None)
            }
            None => ctx.count(&format!("not_applicable/{family}")),
        }
    }
    // honest, unfunded: empty value + a genuine non-existence proof
    for a in &w.absent {
        let ans = st.honest_answer(&bank_key(a), query_height);
        if !absence_chain_valid(&ans, &bank_key(a), &st.tree.hash(), &st.app_hash) {
            ctx.inconclusive("harness: generated non-existence proof chain is not valid per the reference ics23 crate");
            return;
        }
        judge(HONEST_ABSENT, a, &ans, None);
        // the same (true) answer with a corrupted non-existence proof: zero is true but unproven
        let mut bad = ans.clone();
        let ops = &mut bad.proof_ops.as_mut().unwrap().ops;
        let which = rng.gen_range(0..3);
        match which {
            0 => {
                // flip one bit inside the neighbours' paths / leaf data
                let n = ops[0].data.len();
                let i = rng.gen_range(n / 2..n);
                ops[0].data[i] ^= 1 << rng.gen_range(0..8);
            }
            1 => {
                flip(&mut rng, &mut ops[1].data);
            }
            _ => {
                ops.truncate(1);
            }
        }
        if !absence_chain_valid(&bad, &bank_key(a), &st.tree.hash(), &st.app_hash) {
            judge("empty-value/unfunded-with-corrupted-nonexistence-proof", a, &bad, None);
        }
    }
    // non-success ABCI code with an otherwise honest answer: no claim either way beyond the chain rule
    if rng.gen_bool(0.2) {
        let mut ans = honest.clone();
        ans.code = [1u32, 18, 22, 38][rng.gen_range(0..4)];
        ans.log = "height not available".into();
        judge("abci-error-code/with-honest-proof", &target, &ans, None);
    }
}

pub fn run(ctx: &Ctx) {
    ctx.rule(
        "Worlds: bank store of 1..40 accounts (+ other bank keys) as a random-shape IAVL-style tree at 3 consecutive \
         heights with different balances, multistore of 1..20 stores, header app_hash = multistore root, heights from \
         {1,2,random}. Per world: honest answers for first/last/random funded accounts, honest non-existence answers \
         for 4 unfunded addresses (below/above/adjacent/random), and one tampered answer per family (41 families: \
         value, key, proof byte classes, op order/type/count, wrong store, other root/height, empty value). \
         Non-trivial/distinct = (family, store size, multistore size, position of the key, verdict).",
    );
    ctx.assume("the harness's IAVL/simple-merkle generators follow the ICS-23 iavl and tendermint specs (cross-checked: honest answers are accepted by the client, multistore root equals vcore::sha::merkle_root); sha256 collision resistance");
    ctx.assume("the header handed to get_verified_balance is trusted by the caller (header verification is C01/C02); only header.height and header.app_hash are used");

    let worlds = ctx.scale3(6u64, 5_000u64, 120_000u64);
    let shards = ctx.cores();
    let replay_world = ctx.replay.as_ref().and_then(|r| r["detail"]["world"].as_u64());
    // one signed header as a template (only height and app_hash matter to the client)
    let template = {
        let mut rng = ctx.rng(9, 0);
        let vals = vec![vgen::chain::Val::new(&mut rng, 10)];
        let chain_id: tendermint::chain::Id = "c45-chain".parse().unwrap();
        vgen::chain::build_header(
            &mut rng,
            vgen::chain::HeaderSpec {
                chain_id: &chain_id,
                height: 5,
                time: tendermint::Time::from_unix_timestamp(1_700_000_000, 0).unwrap(),
                app_version: 6,
                last_block_id: Some(vgen::chain::random_block_id(&mut ctx.rng(9, 1))),
                vals: &vals,
                next_vals: &vals,
                dah: vgen::chain::empty_dah(),
                flags: &[],
            },
        )
    };
    ctx.par(shards, |shard| {
        let rt = tokio::runtime::Builder::new_current_thread().enable_time().build().expect("runtime");
        let node = Arc::new(Node45::default());
        let client = GrpcClient::builder().transport(FakeTransport::new(0, node.clone())).build().expect("client");
        let d = Driver { ctx, rt, node, client };
        if let Some(wid) = replay_world {
            if shard == 0 {
                run_world(&d, wid, &template);
            }
            return;
        }
        for wid in (shard as u64..worlds).step_by(shards) {
            run_world(&d, wid, &template);
        }
        let unexpected = d.node.unexpected.lock().unwrap();
        if !unexpected.is_empty() {
            ctx.inconclusive(&format!("fake node saw unexpected traffic: {}", unexpected[0]));
        }
    });
    if replay_world.is_none() && !ctx.tiny() {
        ctx.floor("accepted/honest/funded", 1_000);
        ctx.floor("ok_with_chain", 1_000);
        ctx.floor("empty_value_answers", 1_000);
        for f in FAMILIES {
            if f.starts_with("empty-value/") || f.starts_with("encoding/") {
                // empty-value: see S15 (currently accepted); encoding: the chain stays intact, either verdict is fine
                continue;
            }
            ctx.floor(&format!("rejected/{f}"), 100);
        }
        for r in ["root_mismatch", "op_key_mismatch", "existence_proof_missing", "uneven_lengths", "proof_missing", "unsupported_spec", "decode"] {
            ctx.floor(&format!("reject_reason/{r}"), 50);
        }
    }
}
