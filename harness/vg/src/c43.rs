//! C43 — transaction submission keeps account sequences consistent.
//!
//! Workload: the real `celestia_grpc::GrpcClient` (signer configured) over 1..2 in-process fake
//! transports that share one fake node. The node keeps the node-side expected sequence, decodes the
//! `signer_info.sequence` and memo of every broadcast / simulated transaction, and answers like a real
//! node with injected faults: accept, sequence mismatch carrying the expected value ("account sequence
//! mismatch, expected N, got M: ..." as tx response code 32/3 or as gRPC status), foreign use of the
//! account, mempool-cache hit, response lost after processing, network error, rejection, and per-tx
//! status plans pending×n → committed / committed(code) / rejected(code) / rejected(sequence) / evicted /
//! unknown / network error. 1..3 concurrent submitters issue 1..3 submissions each (`submit_message`,
//! `submit_blobs`, `broadcast_message` + `confirm`), every submission with a unique memo; node answers are
//! delayed by random virtual-time sleeps, which permutes the interleaving (tokio current-thread runtime,
//! paused clock: deterministic per seed). A closing honest submission probes the final belief.
//!
//! Oracle: offline trace checker over the node's totally ordered log (+ the submitters' return events)
//! against a small nondeterministic model of what the client may believe:
//!   believed := account answer; +1 after an accepted broadcast or a mempool-cache hit of a freshly signed
//!   tx; := N after "expected N"; := s (optionally, at any later point until that submission returns)
//!   after a non-sequence `Rejected` status of the tx signed with s.
//!   * every freshly signed broadcast carries a sequence that is believed current in some model state;
//!   * once a tx of memo m was accepted, every later broadcast of m is byte-identical (never re-signed),
//!     in particular after `Evicted`; an evicted tx is re-broadcast before the submission returns.

#[path = "c43_fake.rs"]
mod fake;

use std::collections::{BTreeMap, BTreeSet, HashMap, VecDeque};
use std::sync::{Arc, Mutex};
use std::time::Duration;

use celestia_grpc::{GrpcClient, TxConfig};
use celestia_proto::celestia::core::v1::gas_estimation::{
    EstimateGasPriceAndUsageRequest, EstimateGasPriceAndUsageResponse, EstimateGasPriceResponse,
};
use celestia_proto::celestia::core::v1::tx::{TxStatusRequest, TxStatusResponse as RawTxStatusResponse};
use celestia_proto::cosmos::auth::v1beta1::QueryAccountResponse;
use celestia_proto::cosmos::bank::v1beta1::MsgSend;
use celestia_proto::cosmos::base::abci::v1beta1::TxResponse as RawTxResponse;
use celestia_proto::cosmos::base::tendermint::v1beta1::GetLatestBlockResponse;
use celestia_proto::cosmos::tx::v1beta1::{BroadcastTxRequest, BroadcastTxResponse, Tx as RawTx};
use celestia_types::blob::RawBlobTx;
use celestia_types::nmt::Namespace;
use celestia_types::state::auth::RawBaseAccount;
use celestia_types::{AppVersion, Blob};
use fake::{BoxFut, Call, FakeTransport, Handler, Reply};
use prost::{Message, Name};
use tendermint_proto::google::protobuf::Any;
use vcore::sha::sha256;
use vcore::{ChaCha8Rng, Ctx, Rng, json};

const SEQ_MISMATCH: u32 = 32;
const SEQ_INVALID: u32 = 3;
const IN_MEMPOOL_CACHE: u32 = 19;
const MAX_BROADCASTS_PER_CASE: u32 = 120;

// ---------------------------------------------------------------------------------------------
// Node answers and the event log
// ---------------------------------------------------------------------------------------------

#[derive(Clone, Debug, PartialEq)]
enum BAns {
    Accept,
    CacheHit,
    /// tx response with a wrong-sequence code and the real log format
    Mismatch { expected: u64, code: u32 },
    /// the same message as a gRPC status
    MismatchStatus { expected: u64, grpc: i32 },
    Reject { code: u32 },
    NetErr { processed: bool },
}

#[derive(Clone, Debug, PartialEq)]
enum SAns {
    Pending,
    Committed { code: u32 },
    Rejected { code: u32 },
    Evicted,
    Unknown,
    NetErr,
}

#[derive(Clone, Debug, PartialEq)]
enum EAns {
    Ok,
    MismatchStatus { expected: u64, grpc: i32 },
    NetErr,
}

#[derive(Clone, Debug)]
enum Ev {
    AccountAnswered { seq: Option<u64> },
    BlockAnswered { ok: bool },
    #[allow(dead_code)]
    EstimateAnswered { memo: String, seq: u64, ans: EAns },
    #[allow(dead_code)]
    BroadcastArrived { bid: u32, ep: usize, memo: String, seq: u64, digest: u64, blob: bool },
    BroadcastAnswered { bid: u32, memo: String, ans: BAns },
    StatusAnswered { memo: String, ans: SAns },
    Return { memo: String, ok: bool, text: String },
}

fn is_network_grpc(code: i32) -> bool {
    matches!(code, 14 | 2 | 4 | 10)
}

fn mismatch_log(expected: u64, got: u64) -> String {
    format!("account sequence mismatch, expected {expected}, got {got}: incorrect account sequence")
}

// ---------------------------------------------------------------------------------------------
// Fake node
// ---------------------------------------------------------------------------------------------

#[derive(Clone, Debug)]
struct Faults {
    foreign: f64,
    forced: f64,
    lost: f64,
    neterr: f64,
    reject: f64,
    grpc_mismatch: f64,
    spurious_cache: f64,
    /// weights of terminal statuses: committed ok, committed failed, rejected non-seq, rejected seq, evicted, unknown, neterr
    terminal: [u32; 7],
    max_pending: u32,
    max_delay_ms: u64,
}

struct TxRec {
    memo: String,
    seq: u64,
    plan: VecDeque<SAns>,
    evictions: u32,
    evicted: bool,
    in_cache: bool,
}

struct Inner {
    rng: ChaCha8Rng,
    faults: Faults,
    honest: bool,
    address: String,
    account_number: u64,
    expected: u64,
    account_failures_left: u32,
    block_failures_left: u32,
    block: GetLatestBlockResponse,
    txs: HashMap<String, TxRec>,
    mismatches_per_memo: HashMap<String, u32>,
    broadcasts: u32,
    cap_hit: bool,
    next_bid: u32,
    log: Vec<Ev>,
    /// bytes of every broadcast, by bid
    bytes: HashMap<u32, Vec<u8>>,
    unexpected: Vec<String>,
}

struct Node43 {
    inner: Mutex<Inner>,
}

struct DecodedTx {
    memo: String,
    seq: u64,
    blob: bool,
}

fn decode_tx(bytes: &[u8]) -> Option<DecodedTx> {
    // BlobTx { tx = 1, blobs = 2, type_id = 3 ("BLOB") } wraps the signed tx
    let (inner, blob) = match RawBlobTx::decode(bytes) {
        Ok(b) if b.type_id == "BLOB" => (b.tx, true),
        _ => (bytes.to_vec(), false),
    };
    let tx = RawTx::decode(inner.as_slice()).ok()?;
    let memo = tx.body.as_ref()?.memo.clone();
    let seq = tx.auth_info.as_ref()?.signer_infos.first()?.sequence;
    Some(DecodedTx { memo, seq, blob })
}

fn tx_hash(bytes: &[u8]) -> String {
    sha256(bytes).iter().map(|b| format!("{b:02X}")).collect()
}

impl Inner {
    fn status_plan(&mut self, evictions: u32) -> VecDeque<SAns> {
        let mut plan = VecDeque::new();
        if self.honest {
            plan.push_back(SAns::Committed { code: 0 });
            return plan;
        }
        let n = self.rng.gen_range(0..=self.faults.max_pending);
        for _ in 0..n {
            plan.push_back(SAns::Pending);
        }
        let mut w = self.faults.terminal;
        if evictions >= 2 {
            w[4] = 0;
            w[5] = 0;
        }
        let total: u32 = w.iter().sum::<u32>().max(1);
        let mut x = self.rng.gen_range(0..total);
        let mut idx = 0;
        for (i, wi) in w.iter().enumerate() {
            if x < *wi {
                idx = i;
                break;
            }
            x -= wi;
        }
        plan.push_back(match idx {
            0 => SAns::Committed { code: 0 },
            1 => SAns::Committed { code: [5, 11, 18][self.rng.gen_range(0..3)] },
            2 => SAns::Rejected { code: [13, 11, 5, 21][self.rng.gen_range(0..4)] },
            3 => SAns::Rejected { code: [SEQ_MISMATCH, SEQ_INVALID][self.rng.gen_range(0..2)] },
            4 => SAns::Evicted,
            5 => SAns::Unknown,
            _ => SAns::NetErr,
        });
        plan
    }

    /// What a real node would do with a freshly arrived tx.
    fn honest_broadcast(&mut self, hash: &str, tx: &DecodedTx) -> BAns {
        if let Some(rec) = self.txs.get(hash) {
            if rec.in_cache {
                return BAns::CacheHit;
            }
        }
        if tx.seq == self.expected {
            self.expected += 1;
            self.insert_tx(hash, tx);
            BAns::Accept
        } else {
            BAns::Mismatch { expected: self.expected, code: if self.rng.gen_bool(0.8) { SEQ_MISMATCH } else { SEQ_INVALID } }
        }
    }

    fn insert_tx(&mut self, hash: &str, tx: &DecodedTx) {
        let evictions = self.txs.get(hash).map(|r| r.evictions).unwrap_or(0);
        let plan = self.status_plan(evictions);
        self.txs.insert(
            hash.to_string(),
            TxRec { memo: tx.memo.clone(), seq: tx.seq, plan, evictions, evicted: false, in_cache: true },
        );
    }

    fn decide_broadcast(&mut self, hash: &str, tx: &DecodedTx) -> BAns {
        self.broadcasts += 1;
        if self.broadcasts > MAX_BROADCASTS_PER_CASE {
            self.cap_hit = true;
            return BAns::Reject { code: 11 };
        }
        // re-broadcast of an evicted / unknown tx
        if let Some(rec) = self.txs.get_mut(hash) {
            if rec.evicted {
                let x: f64 = if self.honest { 0.0 } else { self.rng.r#gen() };
                if x < 0.70 {
                    rec.evicted = false;
                    rec.in_cache = true;
                    rec.evictions += 1;
                    let ev = rec.evictions;
                    let plan = self.status_plan(ev);
                    self.txs.get_mut(hash).unwrap().plan = plan;
                    return BAns::Accept;
                } else if x < 0.78 {
                    return BAns::CacheHit;
                } else if x < 0.86 {
                    return BAns::Mismatch { expected: self.expected, code: SEQ_MISMATCH };
                } else if x < 0.93 {
                    return BAns::Reject { code: 20 };
                } else {
                    return BAns::NetErr { processed: false };
                }
            }
        }
        if self.honest {
            return self.honest_broadcast(hash, tx);
        }
        let f = self.faults.clone();
        let m = *self.mismatches_per_memo.get(&tx.memo).unwrap_or(&0);
        if m >= 3 {
            // let a correct client terminate: whatever it signed now is what the node expects
            if !self.txs.get(hash).is_some_and(|r| r.in_cache) {
                self.expected = tx.seq;
            }
            return self.honest_broadcast(hash, tx);
        }
        let x: f64 = self.rng.r#gen();
        let mut acc = 0.0;
        let mut pick = |p: f64| {
            acc += p;
            x < acc
        };
        if pick(f.foreign) {
            self.expected += self.rng.gen_range(1..=3);
            return self.count_mismatch(hash, tx);
        }
        if pick(f.forced) {
            let delta = self.rng.gen_range(1..=4);
            self.expected = if self.rng.gen_bool(0.5) { self.expected.saturating_sub(delta) } else { self.expected + delta };
            return self.count_mismatch(hash, tx);
        }
        if pick(f.lost) {
            let a = self.honest_broadcast(hash, tx);
            return if a == BAns::Accept { BAns::NetErr { processed: true } } else { self.note_mismatch(tx, a) };
        }
        if pick(f.neterr) {
            return BAns::NetErr { processed: false };
        }
        if pick(f.reject) {
            return BAns::Reject { code: [13, 11, 4, 21, 20, 5][self.rng.gen_range(0..6)] };
        }
        if pick(f.spurious_cache) && !self.txs.contains_key(hash) {
            self.insert_tx(hash, tx);
            return BAns::CacheHit;
        }
        if pick(f.grpc_mismatch) {
            let a = self.honest_broadcast(hash, tx);
            if let BAns::Mismatch { expected, .. } = a {
                *self.mismatches_per_memo.entry(tx.memo.clone()).or_insert(0) += 1;
                return BAns::MismatchStatus { expected, grpc: [2, 3, 9, 13][self.rng.gen_range(0..4)] };
            }
            return a;
        }
        self.count_mismatch(hash, tx)
    }

    fn count_mismatch(&mut self, hash: &str, tx: &DecodedTx) -> BAns {
        let a = self.honest_broadcast(hash, tx);
        self.note_mismatch(tx, a)
    }

    fn note_mismatch(&mut self, tx: &DecodedTx, a: BAns) -> BAns {
        if matches!(a, BAns::Mismatch { .. }) {
            *self.mismatches_per_memo.entry(tx.memo.clone()).or_insert(0) += 1;
        }
        a
    }

    fn decide_status(&mut self, hash: &str) -> (String, SAns) {
        let Some(rec) = self.txs.get_mut(hash) else {
            return (String::new(), SAns::Unknown);
        };
        let memo = rec.memo.clone();
        if rec.evicted {
            return (memo, SAns::Evicted);
        }
        let ans = if rec.plan.len() > 1 { rec.plan.pop_front().unwrap() } else { rec.plan.front().cloned().unwrap_or(SAns::Pending) };
        match &ans {
            SAns::Evicted | SAns::Unknown => {
                rec.evicted = true;
                rec.in_cache = false;
            }
            SAns::NetErr => {
                // a transient failure: afterwards the tx is simply committed
                rec.plan = VecDeque::from(vec![SAns::Committed { code: 0 }]);
            }
            SAns::Rejected { code } if *code != SEQ_MISMATCH && *code != SEQ_INVALID => {
                // the sequence of the rejected tx was not consumed; later txs of the block fail on sequence
                let s = rec.seq;
                self.expected = s;
                for other in self.txs.values_mut() {
                    if other.seq > s && !matches!(other.plan.back(), Some(SAns::Committed { .. })) {
                        other.plan = VecDeque::from(vec![SAns::Rejected { code: SEQ_MISMATCH }]);
                    }
                }
            }
            _ => {}
        }
        (memo, ans)
    }
}

fn tx_response(hash: &str, code: u32, log: &str) -> Reply {
    Reply::msg(&BroadcastTxResponse {
        tx_response: Some(RawTxResponse {
            height: 0,
            txhash: hash.to_string(),
            codespace: if code == 0 { String::new() } else { "sdk".into() },
            code,
            raw_log: log.to_string(),
            ..Default::default()
        }),
    })
}

impl Handler for Node43 {
    fn handle(self: Arc<Self>, c: Call) -> BoxFut<Reply> {
        // phase 1 (arrival): log, choose the delay
        let mut bid = 0;
        let mut decoded = None;
        let mut hash = String::new();
        let delay_ms;
        {
            let mut g = self.inner.lock().unwrap();
            let max = g.faults.max_delay_ms;
            delay_ms = if max == 0 || g.rng.gen_bool(0.4) { 0 } else { g.rng.gen_range(0..=max) };
            match c.path.as_str() {
                "/cosmos.tx.v1beta1.Service/BroadcastTx" => {
                    let bytes = BroadcastTxRequest::decode(c.msg.as_slice()).map(|r| r.tx_bytes).unwrap_or_default();
                    match decode_tx(&bytes) {
                        Some(tx) => {
                            bid = g.next_bid;
                            g.next_bid += 1;
                            hash = tx_hash(&bytes);
                            g.log.push(Ev::BroadcastArrived {
                                bid,
                                ep: c.ep,
                                memo: tx.memo.clone(),
                                seq: tx.seq,
                                digest: vcore::hash64(&bytes),
                                blob: tx.blob,
                            });
                            g.bytes.insert(bid, bytes);
                            decoded = Some(tx);
                        }
                        None => g.unexpected.push("undecodable broadcast".into()),
                    }
                }
                "/celestia.core.v1.gas_estimation.GasEstimator/EstimateGasPriceAndUsage" => {
                    let bytes = EstimateGasPriceAndUsageRequest::decode(c.msg.as_slice()).map(|r| r.tx_bytes).unwrap_or_default();
                    decoded = decode_tx(&bytes);
                    if decoded.is_none() {
                        g.unexpected.push("undecodable estimation tx".into());
                    }
                }
                _ => {}
            }
        }
        let node = self;
        Box::pin(async move {
            if delay_ms > 0 {
                tokio::time::sleep(Duration::from_millis(delay_ms)).await;
            } else {
                tokio::task::yield_now().await;
            }
            // phase 2 (answer): decide on the node state as it is now, log the answer atomically with the state change
            let mut g = node.inner.lock().unwrap();
            match c.path.as_str() {
                "/cosmos.base.tendermint.v1beta1.Service/GetLatestBlock" => {
                    if g.block_failures_left > 0 {
                        g.block_failures_left -= 1;
                        g.log.push(Ev::BlockAnswered { ok: false });
                        Reply::status(tonic::Code::Unavailable, "node starting")
                    } else {
                        g.log.push(Ev::BlockAnswered { ok: true });
                        Reply::msg(&g.block)
                    }
                }
                "/cosmos.auth.v1beta1.Query/Account" => {
                    if g.account_failures_left > 0 {
                        g.account_failures_left -= 1;
                        g.log.push(Ev::AccountAnswered { seq: None });
                        Reply::status(tonic::Code::Unavailable, "try later")
                    } else {
                        let acc = RawBaseAccount {
                            address: g.address.clone(),
                            pub_key: None,
                            account_number: g.account_number,
                            sequence: g.expected,
                        };
                        let seq = g.expected;
                        g.log.push(Ev::AccountAnswered { seq: Some(seq) });
                        Reply::msg(&QueryAccountResponse {
                            account: Some(Any { type_url: RawBaseAccount::type_url(), value: acc.encode_to_vec() }),
                        })
                    }
                }
                "/celestia.core.v1.gas_estimation.GasEstimator/EstimateGasPrice" => {
                    Reply::msg(&EstimateGasPriceResponse { estimated_gas_price: 0.002 })
                }
                "/celestia.core.v1.gas_estimation.GasEstimator/EstimateGasPriceAndUsage" => {
                    let Some(tx) = decoded else {
                        return Reply::status(tonic::Code::InvalidArgument, "bad tx");
                    };
                    let ans = if !g.honest && g.rng.gen_bool(0.05) {
                        EAns::NetErr
                    } else if tx.seq != g.expected && *g.mismatches_per_memo.get(&tx.memo).unwrap_or(&0) < 3 {
                        *g.mismatches_per_memo.entry(tx.memo.clone()).or_insert(0) += 1;
                        EAns::MismatchStatus { expected: g.expected, grpc: [2, 3, 9][g.rng.gen_range(0..3)] }
                    } else {
                        EAns::Ok
                    };
                    g.log.push(Ev::EstimateAnswered { memo: tx.memo.clone(), seq: tx.seq, ans: ans.clone() });
                    match ans {
                        EAns::Ok => Reply::msg(&EstimateGasPriceAndUsageResponse { estimated_gas_price: 0.002, estimated_gas_used: 90_000 }),
                        EAns::NetErr => Reply::status(tonic::Code::Unavailable, "estimator down"),
                        EAns::MismatchStatus { expected, grpc } => Reply::Status {
                            code: grpc,
                            message: format!("rpc error: code = Unknown desc = {} [cosmos/cosmos-sdk/x/auth/ante/sigverify.go:290] with gas used: '30000'", mismatch_log(expected, tx.seq)),
                            in_trailers: g.rng.gen_bool(0.3),
                        },
                    }
                }
                "/cosmos.tx.v1beta1.Service/BroadcastTx" => {
                    let Some(tx) = decoded else {
                        return Reply::status(tonic::Code::InvalidArgument, "bad tx");
                    };
                    let ans = g.decide_broadcast(&hash, &tx);
                    g.log.push(Ev::BroadcastAnswered { bid, memo: tx.memo.clone(), ans: ans.clone() });
                    match ans {
                        BAns::Accept => tx_response(&hash, 0, ""),
                        BAns::CacheHit => tx_response(&hash, IN_MEMPOOL_CACHE, "tx already exists in cache"),
                        BAns::Mismatch { expected, code } => tx_response(&hash, code, &mismatch_log(expected, tx.seq)),
                        BAns::MismatchStatus { expected, grpc } => Reply::Status {
                            code: grpc,
                            message: format!("rpc error: {}", mismatch_log(expected, tx.seq)),
                            in_trailers: false,
                        },
                        BAns::Reject { code } => tx_response(&hash, code, "rejected by the harness script"),
                        BAns::NetErr { .. } => match g.rng.gen_range(0..3) {
                            0 => Reply::TransportErr("connection reset".into()),
                            1 => Reply::status(tonic::Code::DeadlineExceeded, "timeout"),
                            _ => Reply::status(tonic::Code::Unavailable, "unavailable"),
                        },
                    }
                }
                "/celestia.core.v1.tx.Tx/TxStatus" => {
                    let id = TxStatusRequest::decode(c.msg.as_slice()).map(|r| r.tx_id).unwrap_or_default().to_uppercase();
                    let (memo, ans) = g.decide_status(&id);
                    g.log.push(Ev::StatusAnswered { memo, ans: ans.clone() });
                    let resp = |status: &str, code: u32, error: &str, height: i64| {
                        Reply::msg(&RawTxStatusResponse { height, index: 0, execution_code: code, error: error.to_string(), status: status.to_string(), ..Default::default() })
                    };
                    match ans {
                        SAns::Pending => resp("PENDING", 0, "", 0),
                        SAns::Committed { code } => resp("COMMITTED", code, if code == 0 { "" } else { "execution failed" }, 1234),
                        SAns::Rejected { code } => resp("REJECTED", code, "rejected", 0),
                        SAns::Evicted => resp("EVICTED", 0, "", 0),
                        SAns::Unknown => resp("UNKNOWN", 0, "", 0),
                        SAns::NetErr => Reply::status(tonic::Code::Unavailable, "status service down"),
                    }
                }
                other => {
                    g.unexpected.push(format!("unexpected path {other}"));
                    Reply::status(tonic::Code::Unimplemented, "unexpected")
                }
            }
        })
    }
}


// ---------------------------------------------------------------------------------------------
// Case generation and driver
// ---------------------------------------------------------------------------------------------

#[derive(Clone, Copy, Debug, PartialEq, Eq, Hash)]
enum Api {
    SubmitMessage,
    SubmitBlobs,
    BroadcastThenConfirm,
}

#[derive(Clone, Copy, Debug, PartialEq, Eq, Hash)]
enum Gas {
    /// gas limit and price given: no estimator traffic
    Explicit,
    /// gas limit given, price estimated
    PriceEstimated,
    /// nothing given: the tx is signed once for simulation (`EstimateGasPriceAndUsage`)
    Simulated,
}

#[derive(Clone, Debug)]
struct Sub {
    memo: String,
    api: Api,
    gas: Gas,
    interval_ms: u64,
}

struct Case {
    endpoints: usize,
    start_seq: u64,
    account_failures: u32,
    block_failures: u32,
    faults: Faults,
    submitters: Vec<Vec<Sub>>,
    key: [u8; 32],
}

fn gen_case(rng: &mut ChaCha8Rng) -> Case {
    let profile = rng.gen_range(0..5);
    let mut faults = Faults {
        foreign: 0.07,
        forced: 0.04,
        lost: 0.07,
        neterr: 0.05,
        reject: 0.07,
        grpc_mismatch: 0.05,
        spurious_cache: 0.03,
        terminal: [40, 8, 16, 6, 18, 6, 6],
        max_pending: 3,
        max_delay_ms: 1500,
    };
    match profile {
        0 => {
            // mostly mismatches / foreign use
            faults.foreign = 0.25;
            faults.forced = 0.12;
        }
        1 => {
            // mostly status trouble
            faults.terminal = [15, 5, 30, 10, 30, 5, 5];
        }
        2 => {
            // lossy network
            faults.lost = 0.2;
            faults.neterr = 0.15;
        }
        3 => {
            // no delays at all: strictly FIFO interleaving
            faults.max_delay_ms = 0;
        }
        _ => {}
    }
    let n_submitters = rng.gen_range(1..=3);
    let mut k = 0;
    let submitters = (0..n_submitters)
        .map(|_| {
            (0..rng.gen_range(1..=3))
                .map(|_| {
                    k += 1;
                    Sub {
                        memo: format!("m{k}"),
                        api: [Api::SubmitMessage, Api::SubmitMessage, Api::SubmitBlobs, Api::BroadcastThenConfirm][rng.gen_range(0..4)],
                        gas: [Gas::Explicit, Gas::Explicit, Gas::Explicit, Gas::Explicit, Gas::PriceEstimated, Gas::Simulated][rng.gen_range(0..6)],
                        interval_ms: [1, 50, 500, 500, 2000][rng.gen_range(0..5)],
                    }
                })
                .collect()
        })
        .collect();
    let mut key = [0u8; 32];
    rng.fill(&mut key);
    key[0] = key[0].max(1) & 0x7f; // a valid secp256k1 scalar
    Case {
        endpoints: if rng.gen_bool(0.4) { 2 } else { 1 },
        start_seq: match rng.gen_range(0..4) {
            0 => 0,
            1 => rng.gen_range(0..5),
            _ => rng.gen_range(0..1_000_000),
        },
        account_failures: if rng.gen_bool(0.1) { rng.gen_range(1..=2) } else { 0 },
        block_failures: if rng.gen_bool(0.05) { 1 } else { 0 },
        faults,
        submitters,
        key,
    }
}

fn tx_config(sub: &Sub) -> TxConfig {
    let cfg = TxConfig::default().with_memo(sub.memo.clone()).with_confirmation_interval_ms(sub.interval_ms);
    match sub.gas {
        Gas::Explicit => cfg.with_gas_limit(100_000).with_gas_price(0.002),
        Gas::PriceEstimated => cfg.with_gas_limit(100_000),
        Gas::Simulated => cfg,
    }
}

async fn submit(client: &GrpcClient, from: &str, sub: &Sub) -> Result<String, String> {
    let cfg = tx_config(sub);
    let msg = MsgSend {
        from_address: from.to_string(),
        to_address: "celestia169s50psyj2f4la9a2235329xz7rk6c53zhw9mm".to_string(),
        amount: vec![celestia_types::state::Coin::utia(12345).into()],
    };
    let res = match sub.api {
        Api::SubmitMessage => client.submit_message(msg, cfg).await,
        Api::SubmitBlobs => {
            let ns = Namespace::new_v0(b"c43").expect("namespace");
            let blob = Blob::new(ns, sub.memo.as_bytes().to_vec(), None, AppVersion::latest()).expect("blob");
            client.submit_blobs(&[blob], cfg).await
        }
        Api::BroadcastThenConfirm => match client.broadcast_message(msg, cfg).await {
            Ok(submitted) => submitted.confirm().await,
            Err(e) => Err(e),
        },
    };
    res.map(|info| format!("height {}", info.height)).map_err(|e| e.to_string())
}

fn latest_block(ctx: &Ctx) -> GetLatestBlockResponse {
    let mut rng = ctx.rng(9, 0);
    let vals = vec![vgen::chain::Val::new(&mut rng, 10)];
    let chain_id: tendermint::chain::Id = "c43-chain".parse().unwrap();
    let header = vgen::chain::build_header(
        &mut rng,
        vgen::chain::HeaderSpec {
            chain_id: &chain_id,
            height: 7,
            time: tendermint::Time::from_unix_timestamp(1_700_000_000, 0).unwrap(),
            app_version: AppVersion::latest().as_u64(),
            last_block_id: Some(vgen::chain::random_block_id(&mut ctx.rng(9, 1))),
            vals: &vals,
            next_vals: &vals,
            dah: vgen::chain::empty_dah(),
            flags: &[],
        },
    );
    let block = celestia_types::block::Block::new(
        header.header.clone(),
        celestia_types::block::Data { txs: Vec::new(), square_size: 1, hash: header.dah.hash().as_bytes().to_vec() },
        Default::default(),
        None,
    );
    GetLatestBlockResponse { block_id: None, block: Some(block.into()), sdk_block: None }
}

struct CaseRun {
    log: Vec<Ev>,
    bytes: HashMap<u32, Vec<u8>>,
    cap_hit: bool,
    unexpected: Vec<String>,
    panics: Vec<String>,
    watchdog: bool,
}

fn run_case(case: &Case, block: &GetLatestBlockResponse, node_rng: ChaCha8Rng) -> CaseRun {
    let rt = tokio::runtime::Builder::new_current_thread().enable_time().start_paused(true).build().expect("runtime");
    let mut builder = GrpcClient::builder().private_key(&case.key);
    let node = Arc::new(Node43 {
        inner: Mutex::new(Inner {
            rng: node_rng,
            faults: case.faults.clone(),
            honest: false,
            address: String::new(),
            account_number: 77,
            expected: case.start_seq,
            account_failures_left: case.account_failures,
            block_failures_left: case.block_failures,
            block: block.clone(),
            txs: HashMap::new(),
            mismatches_per_memo: HashMap::new(),
            broadcasts: 0,
            cap_hit: false,
            next_bid: 0,
            log: Vec::new(),
            bytes: HashMap::new(),
            unexpected: Vec::new(),
        }),
    });
    for ep in 0..case.endpoints {
        builder = builder.transport(FakeTransport::new(ep, node.clone()));
    }
    let client = builder.build().expect("client");
    let address = client.get_account_address().expect("signer configured").to_string();
    node.inner.lock().unwrap().address = address.clone();

    let mut panics = Vec::new();
    let mut watchdog = false;
    rt.block_on(async {
        let work = async {
            let mut handles = Vec::new();
            for subs in &case.submitters {
                let (client, node, subs, address) = (client.clone(), node.clone(), subs.clone(), address.clone());
                handles.push(tokio::spawn(async move {
                    for sub in subs {
                        let res = submit(&client, &address, &sub).await;
                        // same task, no await in between: atomic with the return on this runtime
                        node.inner.lock().unwrap().log.push(Ev::Return {
                            memo: sub.memo.clone(),
                            ok: res.is_ok(),
                            text: match res {
                                Ok(s) | Err(s) => s,
                            },
                        });
                    }
                }));
            }
            for h in handles {
                if let Err(e) = h.await {
                    if e.is_panic() {
                        let p = e.into_panic();
                        panics.push(
                            p.downcast_ref::<String>()
                                .cloned()
                                .or_else(|| p.downcast_ref::<&str>().map(|s| s.to_string()))
                                .unwrap_or_else(|| "<non-string panic>".into()),
                        );
                    }
                }
            }
            // closing probe: honest node, explicit gas
            node.inner.lock().unwrap().honest = true;
            let probe = Sub { memo: "probe".into(), api: Api::SubmitMessage, gas: Gas::Explicit, interval_ms: 10 };
            let res = submit(&client, &address, &probe).await;
            node.inner.lock().unwrap().log.push(Ev::Return {
                memo: probe.memo,
                ok: res.is_ok(),
                text: match res {
                    Ok(s) | Err(s) => s,
                },
            });
        };
        // virtual-time watchdog: fires only if every task is blocked forever
        if tokio::time::timeout(Duration::from_secs(48 * 3600), work).await.is_err() {
            watchdog = true;
        }
    });
    drop(rt);
    let mut g = node.inner.lock().unwrap();
    CaseRun {
        log: std::mem::take(&mut g.log),
        bytes: std::mem::take(&mut g.bytes),
        cap_hit: g.cap_hit,
        unexpected: std::mem::take(&mut g.unexpected),
        panics,
        watchdog,
    }
}

// ---------------------------------------------------------------------------------------------
// Model and trace checker
// ---------------------------------------------------------------------------------------------

/// One possible client belief: current sequence + roll-backs that may still be applied.
#[derive(Clone, Debug, PartialEq, Eq, PartialOrd, Ord)]
struct Belief {
    seq: u64,
    /// (memo of the rejected tx, its sequence)
    pending: BTreeSet<(String, u64)>,
    /// evidence only: a roll-back was applied since the last freshly signed broadcast
    rolled: bool,
}

fn belief(seq: u64, pending: BTreeSet<(String, u64)>) -> Belief {
    Belief { seq, pending, rolled: false }
}

impl Belief {
    fn with_seq(&self, seq: u64) -> Belief {
        Belief { seq, pending: self.pending.clone(), rolled: self.rolled }
    }
}

/// All beliefs reachable by applying any subset of pending roll-backs in any order.
fn closure(states: &BTreeSet<Belief>) -> BTreeSet<Belief> {
    let mut out = states.clone();
    let mut work: Vec<Belief> = states.iter().cloned().collect();
    while let Some(b) = work.pop() {
        for p in &b.pending {
            let mut n = b.clone();
            n.pending.remove(p);
            n.seq = p.1;
            n.rolled = true;
            if out.insert(n.clone()) {
                work.push(n);
            }
        }
    }
    out
}

#[derive(Default)]
struct MemoState {
    /// bytes the client saw accepted (code 0 or mempool-cache hit) for this memo
    accepted: Option<(u64, u32)>, // (sequence, bid of the accepted broadcast)
    last_status: Option<SAns>,
    /// an `Evicted` answer not yet followed by a re-broadcast
    evicted_open: bool,
    returned: bool,
}

struct Checker<'a> {
    ctx: &'a Ctx,
    case_id: u64,
    run: &'a CaseRun,
    case: &'a Case,
}

impl Checker<'_> {
    fn trace(&self, upto: usize) -> Vec<String> {
        self.run.log[..=upto.min(self.run.log.len() - 1)].iter().map(|e| format!("{e:?}")).collect()
    }

    fn detail(&self, upto: usize, extra: vcore::Value) -> vcore::Value {
        json!({
            "case": self.case_id, "endpoints": self.case.endpoints, "start_sequence": self.case.start_seq,
            "submitters": self.case.submitters.iter().map(|s| s.iter().map(|x| format!("{}:{:?}:{:?}", x.memo, x.api, x.gas)).collect::<Vec<_>>()).collect::<Vec<_>>(),
            "at_event": upto, "info": extra, "trace": self.trace(upto),
        })
    }

    fn check(&self) {
        let ctx = self.ctx;
        let log = &self.run.log;
        let mut states: BTreeSet<Belief> = BTreeSet::new();
        let mut memos: BTreeMap<String, MemoState> = BTreeMap::new();
        // what kind of event last changed / could have changed the belief (for the signature)
        let mut last_cause = "account-answer";
        let mut arrived: HashMap<u32, (String, u64, u64, bool)> = HashMap::new(); // bid -> (memo, seq, digest, fresh)
        let mut shape: Vec<u8> = Vec::new();
        let mut in_flight_memos: BTreeSet<String> = BTreeSet::new();
        let mut overlap = false;

        for (i, ev) in log.iter().enumerate() {
            match ev {
                Ev::BlockAnswered { ok } => {
                    ctx.count(if *ok { "block_ok" } else { "block_failed" });
                }
                Ev::AccountAnswered { seq } => match seq {
                    Some(s) => {
                        ctx.count("account_ok");
                        if states.is_empty() {
                            states.insert(belief(*s, BTreeSet::new()));
                        } else {
                            // a re-query is not expected, but adopting the answer would be legitimate
                            ctx.count("account_requeried");
                            let more: Vec<Belief> = states.iter().map(|b| b.with_seq(*s)).collect();
                            states.extend(more);
                        }
                    }
                    None => ctx.count("account_failed"),
                },
                Ev::EstimateAnswered { ans, .. } => match ans {
                    EAns::Ok => ctx.count("estimate_ok"),
                    EAns::NetErr => ctx.count("estimate_neterr"),
                    EAns::MismatchStatus { expected, grpc } => {
                        ctx.count("estimate_mismatch");
                        let resynced: BTreeSet<Belief> = states.iter().map(|b| b.with_seq(*expected)).collect();
                        if is_network_grpc(*grpc) && self.case.endpoints > 1 {
                            // swallowed by the fail-over unless it came from the last endpoint tried
                            states.extend(resynced);
                        } else {
                            states = resynced;
                        }
                        last_cause = "mismatch";
                    }
                },
                Ev::BroadcastArrived { bid, memo, seq, digest, blob, .. } => {
                    ctx.eval();
                    in_flight_memos.insert(memo.clone());
                    if in_flight_memos.len() > 1 {
                        overlap = true;
                    }
                    if *blob {
                        ctx.count("broadcast_blob_tx");
                    }
                    let ms = memos.entry(memo.clone()).or_default();
                    if let Some((acc_seq, acc_bid)) = ms.accepted {
                        // a tx of this memo was accepted before: this must be the very same bytes
                        ctx.count("rebroadcast");
                        let same = self.run.bytes.get(bid) == self.run.bytes.get(&acc_bid);
                        let after = match ms.last_status {
                            Some(SAns::Evicted) => "after-evicted",
                            Some(SAns::Unknown) => "after-unknown",
                            _ => "after-other",
                        };
                        if same {
                            ctx.count(&format!("rebroadcast_identical_{}", after.replace('-', "_")));
                        } else {
                            ctx.violation(
                                &format!("C43/rebroadcast/re-signed/{after}"),
                                &format!(
                                    "memo {memo}: a tx signed with sequence {acc_seq} was accepted, a later broadcast of the same submission carries different bytes (sequence {seq})"
                                ),
                                self.detail(i, json!({"memo": memo, "accepted_sequence": acc_seq, "rebroadcast_sequence": seq})),
                            );
                        }
                        ms.evicted_open = false;
                        arrived.insert(*bid, (memo.clone(), *seq, *digest, false));
                        shape.push(1);
                    } else {
                        ctx.count("fresh_broadcast");
                        let cl = closure(&states);
                        let matching: BTreeSet<Belief> = cl.iter().filter(|b| b.seq == *seq).cloned().collect();
                        if states.is_empty() {
                            ctx.violation(
                                "C43/broadcast/before-account-answer",
                                "a transaction was broadcast before any account answer was received",
                                self.detail(i, json!({"memo": memo, "sequence": seq})),
                            );
                            states.insert(belief(*seq, BTreeSet::new()));
                        } else if matching.is_empty() {
                            let believed: Vec<u64> = cl.iter().map(|b| b.seq).collect::<BTreeSet<_>>().into_iter().collect();
                            ctx.violation(
                                &format!("C43/broadcast/sequence-not-believed-current/after-{last_cause}"),
                                &format!("memo {memo}: broadcast signed with sequence {seq}; the sequences the client can believe current here are {believed:?}"),
                                self.detail(i, json!({"memo": memo, "sequence": seq, "believable": believed})),
                            );
                            // resynchronise the model with the client to avoid cascades
                            states = cl.iter().map(|b| belief(*seq, b.pending.clone())).collect();
                        } else {
                            if matching.iter().all(|b| b.rolled) {
                                ctx.count("rollback_observed");
                            }
                            states = matching
                                .into_iter()
                                .map(|mut b| {
                                    b.rolled = false;
                                    b
                                })
                                .collect();
                        }
                        arrived.insert(*bid, (memo.clone(), *seq, *digest, true));
                        shape.push(0);
                    }
                }
                Ev::BroadcastAnswered { bid, memo, ans } => {
                    let Some((_, seq, _, fresh)) = arrived.get(bid).cloned() else { continue };
                    let name = match ans {
                        BAns::Accept => "accept",
                        BAns::CacheHit => "cache_hit",
                        BAns::Mismatch { .. } => "mismatch",
                        BAns::MismatchStatus { .. } => "mismatch_grpc_status",
                        BAns::Reject { .. } => "reject",
                        BAns::NetErr { processed: true } => "response_lost",
                        BAns::NetErr { processed: false } => "neterr",
                    };
                    ctx.count(&format!("{}_answer_{name}", if fresh { "fresh" } else { "rebroadcast" }));
                    shape.push(10 + name.len() as u8);
                    if !fresh {
                        // the client does not sign again on this path; a mismatch answer may or may not be adopted
                        if let BAns::Mismatch { expected, .. } | BAns::MismatchStatus { expected, .. } = ans {
                            let more: Vec<Belief> = states.iter().map(|b| b.with_seq(*expected)).collect();
                            states.extend(more);
                        }
                        continue;
                    }
                    match ans {
                        BAns::Accept | BAns::CacheHit => {
                            states = states.iter().map(|b| b.with_seq(b.seq + 1)).collect();
                            memos.entry(memo.clone()).or_default().accepted = Some((seq, *bid));
                            last_cause = if *ans == BAns::Accept { "accept" } else { "cache-hit" };
                        }
                        BAns::Mismatch { expected, .. } => {
                            states = states.iter().map(|b| b.with_seq(*expected)).collect();
                            last_cause = "mismatch";
                        }
                        BAns::MismatchStatus { expected, grpc } => {
                            let resynced: BTreeSet<Belief> = states.iter().map(|b| b.with_seq(*expected)).collect();
                            if is_network_grpc(*grpc) && self.case.endpoints > 1 {
                                states.extend(resynced);
                            } else {
                                states = resynced;
                            }
                            last_cause = "mismatch";
                        }
                        BAns::Reject { .. } => last_cause = "rejected-broadcast",
                        BAns::NetErr { .. } => last_cause = "network-error",
                    }
                }
                Ev::StatusAnswered { memo, ans } => {
                    let name = match ans {
                        SAns::Pending => "pending",
                        SAns::Committed { code: 0 } => "committed",
                        SAns::Committed { .. } => "committed_failed",
                        SAns::Rejected { code } if *code == SEQ_MISMATCH || *code == SEQ_INVALID => "rejected_sequence",
                        SAns::Rejected { .. } => "rejected",
                        SAns::Evicted => "evicted",
                        SAns::Unknown => "unknown",
                        SAns::NetErr => "neterr",
                    };
                    ctx.count(&format!("status_{name}"));
                    shape.push(30 + name.len() as u8);
                    if memo.is_empty() {
                        continue;
                    }
                    let ms = memos.entry(memo.clone()).or_default();
                    if *ans != SAns::NetErr {
                        ms.last_status = Some(ans.clone());
                    }
                    match ans {
                        SAns::Evicted => ms.evicted_open = true,
                        SAns::Rejected { code } if *code != SEQ_MISMATCH && *code != SEQ_INVALID => {
                            if let Some((s, _)) = ms.accepted {
                                for b in std::mem::take(&mut states) {
                                    let mut n = b;
                                    n.pending.insert((memo.clone(), s));
                                    states.insert(n);
                                }
                                last_cause = "rejected-status";
                            }
                        }
                        _ => {}
                    }
                }
                Ev::Return { memo, ok, text } => {
                    in_flight_memos.remove(memo);
                    ctx.count(if *ok { "submission_ok" } else { "submission_err" });
                    // a roll-back of this submission is applied (or not) before it returns
                    let cl = closure(&states);
                    states = cl
                        .into_iter()
                        .map(|mut b| {
                            b.pending.retain(|(m, _)| m != memo);
                            b
                        })
                        .collect();
                    let ms = memos.entry(memo.clone()).or_default();
                    ms.returned = true;
                    if ms.evicted_open {
                        ctx.violation(
                            "C43/evicted/not-rebroadcast",
                            &format!("memo {memo}: the node answered Evicted, the submission returned ({text}) without re-broadcasting the transaction"),
                            self.detail(i, json!({"memo": memo})),
                        );
                    }
                    shape.push(if *ok { 50 } else { 51 });
                }
            }
        }
        if overlap {
            ctx.count("cases_with_overlapping_submissions");
        }
        ctx.count(&format!("cases_with_{}_submitters", self.case.submitters.len()));
        ctx.count(&format!("cases_with_{}_endpoints", self.case.endpoints));
        ctx.nontrivial(&shape);
        ctx.sample(|| self.detail(log.len().saturating_sub(1), json!("sample")));
    }
}

pub fn run(ctx: &Ctx) {
    ctx.rule(
        "Each case: fresh GrpcClient (random secp256k1 key) over 1..2 fake transports sharing one fake node; 1..3 concurrent \
         submitters x 1..3 submissions (submit_message / submit_blobs / broadcast_message+confirm; explicit gas, estimated \
         price, or simulated gas), unique memo each; node = honest sequence bookkeeping + faults drawn per request from one \
         of 5 fault profiles (foreign use, forced mismatch, lost response, network error, rejection, mismatch as gRPC status, \
         spurious cache hit; status plans pending x n then committed/failed/rejected/rejected-by-sequence/evicted/unknown/network \
         error), answers delayed 0..1.5 s of virtual time; closing honest probe. Non-trivial/distinct = abstract trace \
         (sequence of broadcast kinds, answer kinds, status kinds, returns).",
    );
    ctx.assume("the exhaustive model-checking half of the quantifier (all interleavings of the abstract protocol) is outside runtime monitoring and is not attempted; this monitor checks traces of the real client against the model");
    ctx.assume("the nondeterministic belief model in c43.rs (account answer; +1 on accept / cache hit; := N on 'expected N'; optional := s after a non-sequence Rejected status of the tx signed with s, applied at any point before that submission returns) is the specification of 'the sequence the client believed current'");
    ctx.assume("interleavings are those produced by a tokio current-thread runtime with a paused clock and random virtual answer delays (deterministic per seed)");

    let cases = ctx.scale3(30u64, 15_000u64, 250_000u64);
    let shards = ctx.cores();
    let block = latest_block(ctx);
    let replay_case = ctx.replay.as_ref().and_then(|r| r["detail"]["case"].as_u64());
    ctx.par(shards, |shard| {
        let one = |case_id: u64| {
            let mut rng = ctx.rng(1, case_id);
            let case = gen_case(&mut rng);
            let run = run_case(&case, &block, ctx.rng(2, case_id));
            ctx.count("cases");
            for p in &run.panics {
                ctx.violation("C43/submit/panic", &format!("a submission panicked: {p}"), json!({"case": case_id}));
            }
            if run.watchdog {
                ctx.count("watchdog");
                ctx.inconclusive(&format!("case {case_id}: all submitters blocked forever (virtual-time watchdog)"));
                return;
            }
            if let Some(u) = run.unexpected.first() {
                ctx.inconclusive(&format!("case {case_id}: fake node saw unexpected traffic: {u}"));
                return;
            }
            let before = ctx.violation_count();
            Checker { ctx, case_id, run: &run, case: &case }.check();
            if run.cap_hit && ctx.violation_count() == before {
                ctx.inconclusive(&format!("case {case_id}: broadcast cap reached without a violation"));
            }
        };
        if let Some(c) = replay_case {
            if shard == 0 {
                one(c);
            }
            return;
        }
        for case_id in (shard as u64..cases).step_by(shards) {
            one(case_id);
        }
    });
    if replay_case.is_none() && !ctx.tiny() {
        for (name, min) in [
            ("fresh_answer_accept", 2_000),
            ("fresh_answer_mismatch", 500),
            ("fresh_answer_mismatch_grpc_status", 30),
            ("fresh_answer_cache_hit", 100),
            ("fresh_answer_reject", 200),
            ("fresh_answer_response_lost", 100),
            ("fresh_answer_neterr", 100),
            ("estimate_mismatch", 50),
            ("status_pending", 500),
            ("status_committed", 1_000),
            ("status_rejected", 200),
            ("status_rejected_sequence", 50),
            ("status_evicted", 300),
            ("status_unknown", 50),
            ("rebroadcast_identical_after_evicted", 200),
            ("rollback_observed", 30),
            ("broadcast_blob_tx", 300),
            ("cases_with_overlapping_submissions", 500),
            ("cases_with_2_endpoints", 500),
        ] {
            ctx.floor(name, min);
        }
    }
}
