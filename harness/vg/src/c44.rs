//! C44 — gRPC calls fail over across endpoints.
//!
//! Workload: the real `celestia_grpc::GrpcClient` built with 1..5 in-process fake transports
//! (`GrpcClientBuilder::transport`), each answering from a per-(call, endpoint) script
//! {ok, network-class gRPC status, transport error, broken body, HTTP 503, non-network status}.
//! 1..8 concurrent callers on a multi-thread tokio runtime alternate with sequential phases; a final
//! probe in which every endpoint fails with a network error closes each case. Every transport logs
//! (call id, endpoint, scripted answer) into one totally ordered try-log.
//!
//! Oracle (offline, over the try-log and the values returned to the callers), restating the text:
//!  * a call returns `Err` only if one of its tries ended in a non-network error, or every configured
//!    endpoint was tried and failed with a network error;
//!  * (sanity) a call returns `Ok(v)` only if one of its tries was answered ok, and `v` is what that
//!    endpoint answered;
//!  * no endpoint is tried twice within one call, and only configured endpoints are tried;
//!  * sequentially (no other call in flight), the endpoint that succeeded is the first one tried by
//!    the next call;
//!  * the endpoint set never changes: the closing all-fail probe visits exactly the configured set.
//!
//! Ground truth for "network error" is the scripted answer (by construction), never lumina's own
//! `is_network_error`.

#[path = "c43_fake.rs"]
mod fake;

use std::collections::{BTreeMap, BTreeSet};
use std::sync::{Arc, Mutex};

use celestia_grpc::grpc::TxPriority;
use celestia_grpc::{Error, GrpcClient};
use celestia_proto::celestia::core::v1::gas_estimation::{EstimateGasPriceAndUsageResponse, EstimateGasPriceResponse};
use celestia_proto::cosmos::base::node::v1beta1::ConfigResponse as RawConfigResponse;
use fake::{BoxFut, Call, FakeTransport, Handler, Reply};
use vcore::{Ctx, Rng, json};

/// If true, trying another endpoint after a *non-network* error is reported as a violation
/// (`C44/failover/continued-after-non-network-error`). The property text only restricts when an error
/// may be returned, so this is an observation (counter) by default.
const STRICT_STOP_AT_NON_NETWORK: bool = false;

#[derive(Clone, Copy, Debug, PartialEq, Eq, Hash)]
enum Kind {
    Ok,
    /// gRPC status of the network class (Unavailable=14, Unknown=2, DeadlineExceeded=4, Aborted=10).
    NetStatus(i32, bool),
    TransportErr,
    BodyErr,
    Http503,
    /// gRPC status that is not network related.
    NonNet(i32, bool),
}

impl Kind {
    fn is_net(self) -> bool {
        matches!(self, Kind::NetStatus(..) | Kind::TransportErr | Kind::BodyErr | Kind::Http503)
    }
    fn is_non_net(self) -> bool {
        matches!(self, Kind::NonNet(..))
    }
    fn name(self) -> String {
        match self {
            Kind::Ok => "ok".into(),
            Kind::NetStatus(c, t) => format!("net-status-{c}{}", if t { "-trailers" } else { "" }),
            Kind::TransportErr => "transport-error".into(),
            Kind::BodyErr => "body-error".into(),
            Kind::Http503 => "http-503".into(),
            Kind::NonNet(c, t) => format!("non-network-status-{c}{}", if t { "-trailers" } else { "" }),
        }
    }
    fn class(self) -> &'static str {
        match self {
            Kind::Ok => "ok",
            Kind::NetStatus(..) => "net_status",
            Kind::TransportErr => "transport_error",
            Kind::BodyErr => "body_error",
            Kind::Http503 => "http_503",
            Kind::NonNet(..) => "non_network_status",
        }
    }
}

const NET_CODES: [i32; 4] = [14, 2, 4, 10];
// Cancelled, InvalidArgument, NotFound, AlreadyExists, PermissionDenied, ResourceExhausted,
// FailedPrecondition, OutOfRange, Unimplemented, Internal, DataLoss, Unauthenticated
const NON_NET_CODES: [i32; 12] = [1, 3, 5, 6, 7, 8, 9, 11, 12, 13, 15, 16];

fn random_kind(rng: &mut impl Rng, p_ok: f64, p_non_net: f64) -> Kind {
    let x: f64 = rng.r#gen();
    if x < p_ok {
        Kind::Ok
    } else if x < p_ok + p_non_net {
        Kind::NonNet(NON_NET_CODES[rng.gen_range(0..NON_NET_CODES.len())], rng.gen_bool(0.3))
    } else {
        match rng.gen_range(0..10) {
            0..=5 => Kind::NetStatus(NET_CODES[rng.gen_range(0..4)], rng.gen_bool(0.3)),
            6 | 7 => Kind::TransportErr,
            8 => Kind::BodyErr,
            _ => Kind::Http503,
        }
    }
}

#[derive(Clone, Copy, Debug, PartialEq, Eq)]
enum Method {
    GasPrice,
    GasPriceAndUsage,
    NodeConfig,
}

#[derive(Clone, Debug)]
struct Try {
    seq: u64,
    call: u64,
    ep: usize,
    kind: Kind,
}

struct Node44 {
    /// script[call][endpoint] = (answer, yields before answering)
    script: Vec<Vec<(Kind, u32)>>,
    log: Mutex<Vec<Try>>,
    unexpected: Mutex<Vec<String>>,
}

fn token(call: u64, ep: usize) -> u64 {
    call * 8 + ep as u64 + 1
}

impl Handler for Node44 {
    fn handle(self: Arc<Self>, c: Call) -> BoxFut<Reply> {
        let id = c.header("x-call-id").and_then(|s| s.parse::<u64>().ok());
        let Some(call) = id else {
            self.unexpected.lock().unwrap().push(format!("request without call id on {}", c.path));
            return Box::pin(async { Reply::TransportErr("no call id".into()) });
        };
        let Some(&(kind, yields)) = self.script.get(call as usize).and_then(|s| s.get(c.ep)) else {
            self.unexpected.lock().unwrap().push(format!("call {call} endpoint {} not scripted", c.ep));
            return Box::pin(async { Reply::TransportErr("unscripted".into()) });
        };
        {
            // the sequence number is taken under the same lock that appends the entry
            let mut log = self.log.lock().unwrap();
            let seq = log.len() as u64;
            log.push(Try { seq, call, ep: c.ep, kind });
        }
        let tok = token(call, c.ep);
        let reply = match kind {
            Kind::Ok => match c.path.as_str() {
                "/celestia.core.v1.gas_estimation.GasEstimator/EstimateGasPrice" => {
                    Reply::msg(&EstimateGasPriceResponse { estimated_gas_price: tok as f64 })
                }
                "/celestia.core.v1.gas_estimation.GasEstimator/EstimateGasPriceAndUsage" => {
                    Reply::msg(&EstimateGasPriceAndUsageResponse { estimated_gas_price: 0.5, estimated_gas_used: tok })
                }
                "/cosmos.base.node.v1beta1.Service/Config" => Reply::msg(&RawConfigResponse {
                    minimum_gas_price: String::new(),
                    pruning_keep_recent: "1".into(),
                    pruning_interval: "2".into(),
                    halt_height: tok,
                }),
                other => {
                    self.unexpected.lock().unwrap().push(format!("unexpected path {other}"));
                    Reply::TransportErr("unexpected path".into())
                }
            },
            Kind::NetStatus(code, in_trailers) | Kind::NonNet(code, in_trailers) => {
                Reply::Status { code, message: format!("c{call}e{}", c.ep), in_trailers }
            }
            Kind::TransportErr => Reply::TransportErr(format!("c{call}e{} connection reset", c.ep)),
            Kind::BodyErr => Reply::BodyErr(format!("c{call}e{} stream broken", c.ep)),
            Kind::Http503 => Reply::Http(503),
        };
        Box::pin(async move {
            fake::yield_times(yields).await;
            reply
        })
    }
}

#[derive(Debug)]
struct Outcome {
    call: u64,
    /// Ok(token) or Err(text)
    result: Result<u64, String>,
    /// log length before the call was issued / after it returned (sequential phases only use this)
    sequential: bool,
}

async fn do_call(client: &GrpcClient, call: u64, method: Method) -> Result<u64, String> {
    let id = call.to_string();
    let res: Result<u64, Error> = match method {
        Method::GasPrice => client
            .estimate_gas_price(TxPriority::Medium)
            .metadata("x-call-id", &id)
            .expect("ascii metadata")
            .await
            .map(|v| v as u64),
        Method::GasPriceAndUsage => client
            .estimate_gas_price_and_usage(TxPriority::High, vec![1, 2, 3])
            .metadata("x-call-id", &id)
            .expect("ascii metadata")
            .await
            .map(|v| v.usage),
        Method::NodeConfig => client
            .get_node_config()
            .metadata("x-call-id", &id)
            .expect("ascii metadata")
            .await
            .map(|v| v.halt_height),
    };
    res.map_err(|e| e.to_string())
}

#[derive(Clone, Debug)]
enum Phase {
    /// callers x calls-per-caller, all callers concurrently
    Concurrent(Vec<Vec<u64>>),
    Sequential(Vec<u64>),
}

struct Case {
    n: usize,
    methods: Vec<Method>,
    script: Vec<Vec<(Kind, u32)>>,
    phases: Vec<Phase>,
    probe: u64,
}

fn gen_case(rng: &mut vcore::ChaCha8Rng) -> Case {
    let n = rng.gen_range(1..=5usize);
    let p_ok = [0.15, 0.35, 0.6][rng.gen_range(0..3)];
    let p_non_net = [0.0, 0.08, 0.2][rng.gen_range(0..3)];
    let mut script = Vec::new();
    let mut methods = Vec::new();
    let mut phases = Vec::new();
    let mut next = 0u64;
    let mut new_call = |rng: &mut vcore::ChaCha8Rng, script: &mut Vec<Vec<(Kind, u32)>>, methods: &mut Vec<Method>| {
        let id = next;
        next += 1;
        script.push(
            (0..n)
                .map(|_| (random_kind(rng, p_ok, p_non_net), [0u32, 0, 1, 2, 5][rng.gen_range(0..5)]))
                .collect(),
        );
        methods.push([Method::GasPrice, Method::GasPriceAndUsage, Method::NodeConfig][rng.gen_range(0..3)]);
        id
    };
    for _ in 0..rng.gen_range(2..=4) {
        if rng.gen_bool(0.55) {
            let callers = rng.gen_range(1..=8usize);
            let mut batch = Vec::new();
            for _ in 0..callers {
                let m = rng.gen_range(1..=3);
                batch.push((0..m).map(|_| new_call(rng, &mut script, &mut methods)).collect());
            }
            phases.push(Phase::Concurrent(batch));
        } else {
            let m = rng.gen_range(2..=5);
            phases.push(Phase::Sequential((0..m).map(|_| new_call(rng, &mut script, &mut methods)).collect()));
        }
    }
    // closing probe: every endpoint answers with a network error
    let probe = next;
    script.push(
        (0..n)
            .map(|_| (Kind::NetStatus(NET_CODES[rng.gen_range(0..4)], false), 0))
            .collect(),
    );
    methods.push(Method::GasPrice);
    Case { n, methods, script, phases, probe }
}

fn run_case(ctx: &Ctx, rt: &tokio::runtime::Runtime, case_id: u64) {
    let mut rng = ctx.rng(1, case_id);
    let case = gen_case(&mut rng);
    let node = Arc::new(Node44 {
        script: case.script.clone(),
        log: Mutex::new(Vec::new()),
        unexpected: Mutex::new(Vec::new()),
    });
    let mut builder = GrpcClient::builder();
    for ep in 0..case.n {
        builder = builder.transport(FakeTransport::new(ep, node.clone()));
    }
    let client = builder.build().expect("client with fake transports");

    let outcomes: Arc<Mutex<Vec<Outcome>>> = Arc::new(Mutex::new(Vec::new()));
    let methods = Arc::new(case.methods.clone());
    let mut harness_failure = None;
    let mut client_panic: Option<String> = None;
    rt.block_on(async {
        for phase in &case.phases {
            match phase {
                Phase::Concurrent(batch) => {
                    let mut handles = Vec::new();
                    for calls in batch {
                        let (client, calls, outcomes, methods) = (client.clone(), calls.clone(), outcomes.clone(), methods.clone());
                        handles.push(tokio::spawn(async move {
                            for call in calls {
                                let result = do_call(&client, call, methods[call as usize]).await;
                                outcomes.lock().unwrap().push(Outcome { call, result, sequential: false });
                            }
                        }));
                    }
                    for h in handles {
                        if let Err(e) = h.await {
                            if e.is_panic() {
                                let p = e.into_panic();
                                let msg = p
                                    .downcast_ref::<String>()
                                    .cloned()
                                    .or_else(|| p.downcast_ref::<&str>().map(|s| s.to_string()))
                                    .unwrap_or_else(|| "<non-string panic>".into());
                                client_panic = Some(msg);
                            } else {
                                harness_failure = Some(format!("caller task failed: {e}"));
                            }
                        }
                    }
                }
                Phase::Sequential(calls) => {
                    for &call in calls {
                        let result = do_call(&client, call, methods[call as usize]).await;
                        outcomes.lock().unwrap().push(Outcome { call, result, sequential: true });
                    }
                }
            }
        }
        let result = do_call(&client, case.probe, Method::GasPrice).await;
        outcomes.lock().unwrap().push(Outcome { call: case.probe, result, sequential: true });
    });
    if let Some(p) = client_panic {
        // a panic inside a spawned caller is a panic inside the client code (the harness side of the
        // task only calls the client and pushes to a vector)
        ctx.violation("C44/call/panic", &format!("client call panicked: {p}"), json!({"case": case_id}));
        return;
    }
    if let Some(f) = harness_failure {
        ctx.inconclusive(&f);
        return;
    }
    let unexpected = node.unexpected.lock().unwrap().clone();
    if !unexpected.is_empty() {
        ctx.inconclusive(&format!("fake endpoint saw unexpected traffic: {}", unexpected[0]));
        return;
    }
    check_case(ctx, case_id, &case, &node.log.lock().unwrap(), &outcomes.lock().unwrap());
}

fn check_case(ctx: &Ctx, case_id: u64, case: &Case, log: &[Try], outcomes: &[Outcome]) {
    let n = case.n;
    let mut tries: BTreeMap<u64, Vec<&Try>> = BTreeMap::new();
    for t in log {
        tries.entry(t.call).or_default().push(t);
    }
    let detail = |call: u64| {
        json!({
            "case": case_id, "endpoints": n, "call": call,
            "script": case.script[call as usize].iter().map(|(k, _)| k.name()).collect::<Vec<_>>(),
            "tries": tries.get(&call).map(|v| v.iter().map(|t| json!({"seq": t.seq, "endpoint": t.ep, "answer": t.kind.name()})).collect::<Vec<_>>()),
            "outcome": outcomes.iter().find(|o| o.call == call).map(|o| format!("{:?}", o.result)),
        })
    };
    let mut shape = Vec::new();
    let mut prev_sequential_success: Option<(u64, usize)> = None;
    for o in outcomes {
        ctx.eval();
        let empty = Vec::new();
        let tl = tries.get(&o.call).unwrap_or(&empty);
        let eps: Vec<usize> = tl.iter().map(|t| t.ep).collect();
        let set: BTreeSet<usize> = eps.iter().copied().collect();
        for t in tl.iter() {
            ctx.count(&format!("answer_{}", t.kind.class()));
        }
        if eps.iter().any(|e| *e >= n) {
            ctx.violation("C44/try-log/unconfigured-endpoint", "a call tried an endpoint outside the configured set", detail(o.call));
        }
        if set.len() != eps.len() {
            ctx.violation(
                "C44/try-log/endpoint-tried-twice",
                &format!("call {} tried an endpoint more than once: {:?}", o.call, eps),
                detail(o.call),
            );
        }
        let non_net_at = tl.iter().position(|t| t.kind.is_non_net());
        let ok_at = tl.iter().position(|t| t.kind == Kind::Ok);
        if let Some(i) = non_net_at {
            if i + 1 < tl.len() {
                ctx.count("continued_after_non_network_error");
                if STRICT_STOP_AT_NON_NETWORK {
                    ctx.violation(
                        "C44/failover/continued-after-non-network-error",
                        "another endpoint was tried after a non-network error",
                        detail(o.call),
                    );
                }
            }
        }
        match &o.result {
            Err(_) => {
                let net_failed: BTreeSet<usize> = tl.iter().filter(|t| t.kind.is_net()).map(|t| t.ep).collect();
                let all_failed = net_failed.len() == n && (0..n).all(|e| net_failed.contains(&e));
                if non_net_at.is_some() {
                    ctx.count("err_after_non_network_error");
                } else if all_failed {
                    ctx.count("err_after_all_endpoints_failed");
                    if n > 1 {
                        ctx.count("err_after_all_of_several_endpoints_failed");
                    }
                } else if ok_at.is_some() {
                    ctx.violation(
                        "C44/call/err-although-endpoint-answered-ok",
                        &format!("call {} returned Err although endpoint {} answered ok", o.call, tl[ok_at.unwrap()].ep),
                        detail(o.call),
                    );
                } else {
                    ctx.violation(
                        "C44/call/err-before-all-endpoints-tried",
                        &format!(
                            "call {} returned Err after network errors from endpoints {:?} only; {} endpoints are configured and no non-network error was returned",
                            o.call, net_failed, n
                        ),
                        detail(o.call),
                    );
                }
            }
            Ok(v) => {
                match ok_at {
                    None => ctx.violation(
                        "C44/call/ok-without-successful-endpoint",
                        &format!("call {} returned Ok({v}) but no endpoint answered ok", o.call),
                        detail(o.call),
                    ),
                    Some(i) => {
                        if *v != token(o.call, tl[i].ep) {
                            ctx.violation(
                                "C44/call/ok-value-not-from-successful-endpoint",
                                &format!("call {} returned {v}, endpoint {} answered {}", o.call, tl[i].ep, token(o.call, tl[i].ep)),
                                detail(o.call),
                            );
                        }
                        if i > 0 {
                            ctx.count("ok_after_failover");
                        } else {
                            ctx.count("ok_first_try");
                        }
                    }
                }
            }
        }
        // sequential rule: the endpoint that succeeded is tried first by the next call
        if o.sequential {
            if let Some((prev_call, e)) = prev_sequential_success {
                ctx.count("sequential_successor_checked");
                match eps.first() {
                    Some(first) if *first == e => {}
                    first => ctx.violation(
                        "C44/order/succeeded-endpoint-not-first-next",
                        &format!(
                            "call {prev_call} succeeded at endpoint {e}; the next (sequential) call {} tried {:?} first",
                            o.call, first
                        ),
                        json!({"previous": detail(prev_call), "next": detail(o.call)}),
                    ),
                }
            }
            prev_sequential_success = match (&o.result, ok_at) {
                (Ok(_), Some(i)) => {
                    if i > 0 {
                        ctx.count("sequential_success_after_failover");
                    }
                    Some((o.call, tl[i].ep))
                }
                _ => None,
            };
        } else {
            prev_sequential_success = None;
        }
        shape.push((eps.len().min(5), ok_at.is_some(), non_net_at.is_some(), o.sequential));
    }
    // concurrency actually observed: tries of different calls interleaved in the log
    let mut open: BTreeSet<u64> = BTreeSet::new();
    let mut remaining: BTreeMap<u64, usize> = tries.iter().map(|(c, v)| (*c, v.len())).collect();
    let mut overlapped = false;
    for t in log {
        open.insert(t.call);
        if open.len() > 1 {
            overlapped = true;
        }
        let r = remaining.get_mut(&t.call).unwrap();
        *r -= 1;
        if *r == 0 {
            open.remove(&t.call);
        }
    }
    if overlapped {
        ctx.count("cases_with_interleaved_calls");
    }
    // the closing probe must visit exactly the configured set
    let empty = Vec::new();
    let probe: Vec<usize> = tries.get(&case.probe).unwrap_or(&empty).iter().map(|t| t.ep).collect();
    let mut sorted = probe.clone();
    sorted.sort();
    if sorted != (0..n).collect::<Vec<_>>() {
        ctx.violation(
            "C44/endpoint-set/changed",
            &format!("closing all-fail probe visited endpoints {probe:?}; configured set is 0..{n}"),
            json!({"case": case_id, "endpoints": n, "probe_tries": probe,
                   "log": log.iter().map(|t| json!([t.seq, t.call, t.ep, t.kind.name()])).collect::<Vec<_>>(),
                   "outcomes": outcomes.iter().map(|o| format!("{:?}", o)).collect::<Vec<_>>()}),
        );
    } else {
        ctx.count("probe_visited_exact_set");
        if n > 1 {
            ctx.count("probe_visited_exact_set_multi");
        }
    }
    ctx.count(&format!("cases_with_{n}_endpoints"));
    ctx.nontrivial(&(n, shape));
    ctx.sample(|| {
        json!({"case": case_id, "endpoints": n, "calls": outcomes.len(),
               "log": log.iter().take(24).map(|t| json!([t.seq, t.call, t.ep, t.kind.name()])).collect::<Vec<_>>(),
               "outcomes": outcomes.iter().take(12).map(|o| json!([o.call, o.sequential, format!("{:?}", o.result)])).collect::<Vec<_>>()})
    });
}

/// Self-check of the harness classification: with a single endpoint, each scripted answer class must
/// surface as Ok / Err the way the script says. A mismatch means the fake transport (not lumina) is off.
fn self_check(ctx: &Ctx, rt: &tokio::runtime::Runtime) -> bool {
    let kinds = [
        Kind::Ok,
        Kind::NetStatus(14, false),
        Kind::NetStatus(2, true),
        Kind::TransportErr,
        Kind::BodyErr,
        Kind::Http503,
        Kind::NonNet(3, false),
        Kind::NonNet(13, true),
    ];
    for (i, k) in kinds.iter().enumerate() {
        let node = Arc::new(Node44 {
            script: vec![vec![(*k, 0)]],
            log: Mutex::new(Vec::new()),
            unexpected: Mutex::new(Vec::new()),
        });
        let client = GrpcClient::builder().transport(FakeTransport::new(0, node.clone())).build().unwrap();
        let m = [Method::GasPrice, Method::GasPriceAndUsage, Method::NodeConfig][i % 3];
        let r = rt.block_on(do_call(&client, 0, m));
        let fine = match (k, &r) {
            (Kind::Ok, Ok(v)) => *v == token(0, 0),
            (Kind::Ok, Err(_)) => false,
            (_, Ok(_)) => false,
            (_, Err(_)) => true,
        };
        if !fine || node.log.lock().unwrap().len() != 1 {
            ctx.inconclusive(&format!("fake transport self-check failed for {}: {r:?}", k.name()));
            return false;
        }
    }
    true
}

pub fn run(ctx: &Ctx) {
    ctx.rule(
        "Each case: real GrpcClient over 1..5 fake transports; 2..4 phases, each either 1..8 concurrent callers \
         (1..3 calls each, tokio multi-thread runtime) or 2..5 sequential calls, over three macro-generated \
         methods; every (call, endpoint) has a scripted answer {ok, Unavailable/Unknown/DeadlineExceeded/Aborted \
         (status in headers or trailers), transport error, broken body, HTTP 503, one of 12 non-network statuses} \
         and a random number of yields; closing probe where all endpoints fail. Non-trivial/distinct = \
         (endpoint count, per-call (tries, ok?, non-network?, sequential?)) shape of the case.",
    );
    ctx.assume("ground truth for 'network error' is the scripted answer class: gRPC Unavailable/Unknown/DeadlineExceeded/Aborted, a failing transport future, a broken body stream, HTTP 503 without gRPC status; any other gRPC status is a non-network error");
    ctx.assume("the real-thread interleavings are whatever the tokio multi-thread scheduler produced in this run (the oracle does not depend on the schedule); ThreadSanitizer is not part of this monitor");
    ctx.assume("trying further endpoints after a non-network error is not treated as a violation (the text only restricts when an error may be returned); it is counted as continued_after_non_network_error");

    // VERIF_SAN=1 (ThreadSanitizer build of the same monitor): a tenth of the workload and floors
    let san = if ctx.san() { 10 } else { 1 };
    let cases = ctx.scale3(40u64, 12_000u64, 300_000u64) / san;
    let shards = ctx.cores().min(8);
    {
        let rt = tokio::runtime::Builder::new_multi_thread().worker_threads(2).build().unwrap();
        if !self_check(ctx, &rt) {
            return;
        }
    }
    let replay_case = ctx.replay.as_ref().and_then(|r| r["detail"]["case"].as_u64().or_else(|| r["detail"]["previous"]["case"].as_u64()));
    ctx.par(shards, |shard| {
        let rt = tokio::runtime::Builder::new_multi_thread()
            .worker_threads(if shard % 2 == 0 { 2 } else { 4 })
            .build()
            .expect("runtime");
        if let Some(c) = replay_case {
            if shard == 0 {
                run_case(ctx, &rt, c);
            }
            return;
        }
        for case in (shard as u64..cases).step_by(shards) {
            run_case(ctx, &rt, case);
            ctx.count("cases");
        }
    });
    if replay_case.is_none() && !ctx.tiny() {
        ctx.floor("ok_after_failover", 2_000 / san);
        ctx.floor("err_after_all_of_several_endpoints_failed", 1_000 / san);
        ctx.floor("err_after_non_network_error", 500 / san);
        ctx.floor("sequential_success_after_failover", 500 / san);
        ctx.floor("sequential_successor_checked", 2_000 / san);
        ctx.floor("cases_with_interleaved_calls", 1_000 / san);
        ctx.floor("probe_visited_exact_set_multi", 5_000 / san);
        for c in ["net_status", "transport_error", "body_error", "http_503", "non_network_status", "ok"] {
            ctx.floor(&format!("answer_{c}"), 1_000 / san);
        }
    }
}
