use vcore::Ctx;

fn main() {
    let ctx = Ctx::from_args();
    match ctx.prop.as_str() {
        other => {
            eprintln!("unknown property {other}");
            std::process::exit(2);
        }
    }
}
