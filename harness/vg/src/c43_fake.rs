//! In-process fake gRPC endpoint shared by the C43 / C44 / C45 monitors.
//!
//! `FakeTransport` is a `tower::Service<http::Request<tonic::body::Body>>` that is handed to the real
//! `celestia_grpc::GrpcClientBuilder::transport(..)`. It speaks plain gRPC framing: the request body is
//! collected and the 5-byte message prefix removed; the reply is either one data frame (prefix +
//! protobuf) followed by `grpc-status: 0` trailers, a trailers-only / trailers-after-headers gRPC
//! status, a failing service future (transport error), a body that breaks mid-stream, or a bare HTTP
//! status. Nothing here contains protocol logic of the code under test: what to answer is decided by
//! the `Handler` each monitor supplies.

#![allow(dead_code)]

use std::collections::VecDeque;
use std::fmt;
use std::future::Future;
use std::pin::Pin;
use std::sync::Arc;
use std::task::{Context, Poll};

use bytes::{BufMut, Bytes, BytesMut};
use http_body::{Body as HttpBody, Frame};
use tonic::body::Body as TonicBody;
use tonic::codegen::Service;

pub type BoxFut<T> = Pin<Box<dyn Future<Output = T> + Send + 'static>>;

/// One request as seen by the fake endpoint.
#[derive(Debug, Clone)]
pub struct Call {
    /// Index of the endpoint (transport) that received the request.
    pub ep: usize,
    /// gRPC path, e.g. `/cosmos.tx.v1beta1.Service/BroadcastTx`.
    pub path: String,
    pub headers: http::HeaderMap,
    /// Protobuf request message (gRPC prefix removed).
    pub msg: Vec<u8>,
}

impl Call {
    pub fn header(&self, name: &str) -> Option<String> {
        self.headers.get(name).and_then(|v| v.to_str().ok()).map(str::to_string)
    }
}

/// What the endpoint answers.
#[derive(Debug, Clone)]
pub enum Reply {
    /// gRPC OK with one protobuf message.
    Msg(Vec<u8>),
    /// gRPC status != 0. `in_trailers`: headers without status, then an empty body and the status in the
    /// trailers frame; otherwise a trailers-only response (status in the headers).
    Status { code: i32, message: String, in_trailers: bool },
    /// The service future itself fails (connection refused, reset, ...).
    TransportErr(String),
    /// HTTP 200 + gRPC headers, then the body stream fails.
    BodyErr(String),
    /// A bare HTTP status without any gRPC status (proxy answer).
    Http(u16),
}

impl Reply {
    pub fn status(code: tonic::Code, message: impl Into<String>) -> Reply {
        Reply::Status { code: code as i32, message: message.into(), in_trailers: false }
    }
    pub fn msg<M: prost::Message>(m: &M) -> Reply {
        Reply::Msg(m.encode_to_vec())
    }
}

/// Decides what the endpoint answers. The returned future may keep the `Arc` (it must be `'static`).
pub trait Handler: Send + Sync + 'static {
    fn handle(self: Arc<Self>, call: Call) -> BoxFut<Reply>;
}

#[derive(Debug)]
pub struct FakeErr(pub String);

impl fmt::Display for FakeErr {
    fn fmt(&self, f: &mut fmt::Formatter<'_>) -> fmt::Result {
        write!(f, "fake transport: {}", self.0)
    }
}

impl std::error::Error for FakeErr {}

/// Response body: a fixed queue of frames.
pub struct FakeBody {
    frames: VecDeque<Result<Frame<Bytes>, FakeErr>>,
}

impl HttpBody for FakeBody {
    type Data = Bytes;
    type Error = FakeErr;

    fn poll_frame(mut self: Pin<&mut Self>, _cx: &mut Context<'_>) -> Poll<Option<Result<Frame<Bytes>, FakeErr>>> {
        Poll::Ready(self.frames.pop_front())
    }
}

#[derive(Clone)]
pub struct FakeTransport {
    pub ep: usize,
    pub handler: Arc<dyn Handler>,
}

impl FakeTransport {
    pub fn new(ep: usize, handler: Arc<dyn Handler>) -> Self {
        FakeTransport { ep, handler }
    }
}

fn grpc_headers(resp: &mut http::Response<FakeBody>) {
    resp.headers_mut()
        .insert(http::header::CONTENT_TYPE, http::HeaderValue::from_static("application/grpc"));
}

fn status_headers(code: i32, message: &str) -> http::HeaderMap {
    let mut map = http::HeaderMap::new();
    tonic::Status::new(tonic::Code::from_i32(code), message)
        .add_header(&mut map)
        .expect("status message is representable as a header");
    map
}

fn frame_message(msg: &[u8]) -> Bytes {
    let mut buf = BytesMut::with_capacity(5 + msg.len());
    buf.put_u8(0);
    buf.put_u32(msg.len() as u32);
    buf.put_slice(msg);
    buf.freeze()
}

fn build_response(reply: Reply) -> Result<http::Response<FakeBody>, FakeErr> {
    let mut frames = VecDeque::new();
    let mut resp;
    match reply {
        Reply::Msg(m) => {
            frames.push_back(Ok(Frame::data(frame_message(&m))));
            frames.push_back(Ok(Frame::trailers(status_headers(0, ""))));
            resp = http::Response::new(FakeBody { frames });
            grpc_headers(&mut resp);
        }
        Reply::Status { code, message, in_trailers } => {
            if in_trailers {
                frames.push_back(Ok(Frame::trailers(status_headers(code, &message))));
                resp = http::Response::new(FakeBody { frames });
                grpc_headers(&mut resp);
            } else {
                resp = http::Response::new(FakeBody { frames });
                grpc_headers(&mut resp);
                let map = status_headers(code, &message);
                resp.headers_mut().extend(map);
            }
        }
        Reply::TransportErr(e) => return Err(FakeErr(e)),
        Reply::BodyErr(e) => {
            frames.push_back(Err(FakeErr(e)));
            resp = http::Response::new(FakeBody { frames });
            grpc_headers(&mut resp);
        }
        Reply::Http(code) => {
            resp = http::Response::new(FakeBody { frames });
            *resp.status_mut() = http::StatusCode::from_u16(code).unwrap_or(http::StatusCode::BAD_GATEWAY);
        }
    }
    Ok(resp)
}

async fn collect_body(mut body: TonicBody) -> Result<Vec<u8>, FakeErr> {
    let mut out = Vec::new();
    loop {
        let frame = std::future::poll_fn(|cx| Pin::new(&mut body).poll_frame(cx)).await;
        match frame {
            None => break,
            Some(Ok(f)) => {
                if let Ok(data) = f.into_data() {
                    out.extend_from_slice(&data);
                }
            }
            Some(Err(e)) => return Err(FakeErr(format!("request body: {e}"))),
        }
    }
    Ok(out)
}

impl Service<http::Request<TonicBody>> for FakeTransport {
    type Response = http::Response<FakeBody>;
    type Error = FakeErr;
    type Future = BoxFut<Result<Self::Response, Self::Error>>;

    fn poll_ready(&mut self, _cx: &mut Context<'_>) -> Poll<Result<(), Self::Error>> {
        Poll::Ready(Ok(()))
    }

    fn call(&mut self, req: http::Request<TonicBody>) -> Self::Future {
        let handler = self.handler.clone();
        let ep = self.ep;
        Box::pin(async move {
            let (parts, body) = req.into_parts();
            let raw = collect_body(body).await?;
            if raw.len() < 5 {
                return Err(FakeErr("short gRPC request".into()));
            }
            let len = u32::from_be_bytes([raw[1], raw[2], raw[3], raw[4]]) as usize;
            if raw[0] != 0 || raw.len() != 5 + len {
                return Err(FakeErr("unexpected gRPC request framing".into()));
            }
            let call = Call {
                ep,
                path: parts.uri.path().to_string(),
                headers: parts.headers,
                msg: raw[5..].to_vec(),
            };
            let reply = handler.clone().handle(call).await;
            build_response(reply)
        })
    }
}

/// Cooperative yield usable on any executor (tokio current-thread or multi-thread).
pub async fn yield_times(n: u32) {
    for _ in 0..n {
        tokio::task::yield_now().await;
    }
}
