//! Observation wrappers shared by the node-level monitors: a `Store` and a `Blockstore`
//! that report every call (before invoking) and every return (after the reply) to a sink,
//! stamped with one global sequence number, so a monitor gets one totally ordered log at the
//! component boundary without touching lumina.

use std::fmt::{self, Debug, Display};
use std::sync::Arc;
use std::sync::atomic::{AtomicU64, Ordering};

use async_trait::async_trait;
use blockstore::Blockstore;
use celestia_types::ExtendedHeader;
use celestia_types::hash::Hash;
use cid::{Cid, CidGeneric};
use libp2p::identity::Keypair;
use lumina_node::block_ranges::BlockRanges;
use lumina_node::store::{
    SamplingMetadata, Store, StoreError, StoreInsertionError, VerifiedExtendedHeaders,
};

/// Global logical clock shared by everything a monitor logs.
#[derive(Default)]
pub struct Clock(AtomicU64);

impl Clock {
    pub fn new() -> Arc<Clock> {
        Arc::new(Clock(AtomicU64::new(0)))
    }
    pub fn tick(&self) -> u64 {
        self.0.fetch_add(1, Ordering::SeqCst)
    }
}

#[derive(Clone, Debug, PartialEq)]
pub enum StoreOp {
    GetHead,
    GetByHash(Hash),
    GetByHeight(u64),
    WaitNewHead,
    WaitHeight(u64),
    HeadHeight,
    Has(Hash),
    HasAt(u64),
    UpdateSamplingMetadata(u64, Vec<Cid>),
    GetSamplingMetadata(u64),
    MarkAsSampled(u64),
    /// `(height, hash)` of every header of the batch, in order.
    Insert(Vec<(u64, Hash)>),
    GetStoredHeaderRanges,
    GetSampledRanges,
    GetPrunedRanges,
    RemoveHeight(u64),
    GetIdentity,
}

/// Coarse error kinds of `StoreError` (stable names for models and signatures).
pub fn store_err_kind(e: &StoreError) -> &'static str {
    match e {
        StoreError::NotFound => "NotFound",
        StoreError::InsertionFailed(StoreInsertionError::HeadersVerificationFailed(_)) => {
            "HeadersVerificationFailed"
        }
        StoreError::InsertionFailed(StoreInsertionError::NeighborsVerificationFailed(_)) => {
            "NeighborsVerificationFailed"
        }
        StoreError::InsertionFailed(StoreInsertionError::ConstraintsNotMet(_)) => {
            "ConstraintsNotMet"
        }
        StoreError::InsertionFailed(StoreInsertionError::HashExists(_)) => "HashExists",
        StoreError::StoredDataError(_) => "StoredDataError",
        StoreError::FatalDatabaseError(_) => "FatalDatabaseError",
        StoreError::ExecutorError(_) => "ExecutorError",
        StoreError::OpenFailed(_) => "OpenFailed",
        StoreError::NamedLock(_) => "NamedLock",
    }
}

#[derive(Clone, Debug, PartialEq)]
pub enum StoreRet {
    Unit,
    Bool(bool),
    Height(u64),
    /// `(height, hash)` of the returned header.
    Header(u64, Hash),
    Ranges(BlockRanges),
    Metadata(Option<Vec<Cid>>),
    Identity,
    Err(&'static str),
}

#[derive(Clone, Debug, PartialEq)]
pub enum StoreEvent {
    /// Recorded before the wrapped store is invoked.
    Call { seq: u64, id: u64, op: StoreOp },
    /// Recorded after the wrapped store replied.
    Return { seq: u64, id: u64, op: StoreOp, ret: StoreRet },
}

pub type Sink<E> = Arc<dyn Fn(E) + Send + Sync>;

/// `Store` wrapper that reports call/return events to `sink`.
pub struct LoggedStore<S> {
    pub inner: S,
    clock: Arc<Clock>,
    sink: Sink<StoreEvent>,
}

impl<S> LoggedStore<S> {
    pub fn new(inner: S, clock: Arc<Clock>, sink: Sink<StoreEvent>) -> Self {
        LoggedStore { inner, clock, sink }
    }
    fn call(&self, op: &StoreOp) -> u64 {
        let id = self.clock.tick();
        (self.sink)(StoreEvent::Call {
            seq: id,
            id,
            op: op.clone(),
        });
        id
    }
    fn ret(&self, id: u64, op: StoreOp, ret: StoreRet) {
        let seq = self.clock.tick();
        (self.sink)(StoreEvent::Return { seq, id, op, ret });
    }
}

impl<S> Debug for LoggedStore<S> {
    fn fmt(&self, f: &mut fmt::Formatter<'_>) -> fmt::Result {
        f.write_str("LoggedStore { .. }")
    }
}

fn hdr(r: &Result<ExtendedHeader, StoreError>) -> StoreRet {
    match r {
        Ok(h) => StoreRet::Header(h.height(), h.hash()),
        Err(e) => StoreRet::Err(store_err_kind(e)),
    }
}
fn unit(r: &Result<(), StoreError>) -> StoreRet {
    match r {
        Ok(()) => StoreRet::Unit,
        Err(e) => StoreRet::Err(store_err_kind(e)),
    }
}
fn ranges(r: &Result<BlockRanges, StoreError>) -> StoreRet {
    match r {
        Ok(b) => StoreRet::Ranges(b.clone()),
        Err(e) => StoreRet::Err(store_err_kind(e)),
    }
}

#[async_trait]
impl<S: Store> Store for LoggedStore<S> {
    async fn get_head(&self) -> Result<ExtendedHeader, StoreError> {
        let op = StoreOp::GetHead;
        let id = self.call(&op);
        let r = self.inner.get_head().await;
        self.ret(id, op, hdr(&r));
        r
    }
    async fn get_by_hash(&self, hash: &Hash) -> Result<ExtendedHeader, StoreError> {
        let op = StoreOp::GetByHash(*hash);
        let id = self.call(&op);
        let r = self.inner.get_by_hash(hash).await;
        self.ret(id, op, hdr(&r));
        r
    }
    async fn get_by_height(&self, height: u64) -> Result<ExtendedHeader, StoreError> {
        let op = StoreOp::GetByHeight(height);
        let id = self.call(&op);
        let r = self.inner.get_by_height(height).await;
        self.ret(id, op, hdr(&r));
        r
    }
    async fn wait_new_head(&self) -> u64 {
        let op = StoreOp::WaitNewHead;
        let id = self.call(&op);
        let r = self.inner.wait_new_head().await;
        self.ret(id, op, StoreRet::Height(r));
        r
    }
    async fn wait_height(&self, height: u64) -> Result<(), StoreError> {
        let op = StoreOp::WaitHeight(height);
        let id = self.call(&op);
        let r = self.inner.wait_height(height).await;
        self.ret(id, op, unit(&r));
        r
    }
    async fn head_height(&self) -> Result<u64, StoreError> {
        let op = StoreOp::HeadHeight;
        let id = self.call(&op);
        let r = self.inner.head_height().await;
        let ret = match &r {
            Ok(h) => StoreRet::Height(*h),
            Err(e) => StoreRet::Err(store_err_kind(e)),
        };
        self.ret(id, op, ret);
        r
    }
    async fn has(&self, hash: &Hash) -> bool {
        let op = StoreOp::Has(*hash);
        let id = self.call(&op);
        let r = self.inner.has(hash).await;
        self.ret(id, op, StoreRet::Bool(r));
        r
    }
    async fn has_at(&self, height: u64) -> bool {
        let op = StoreOp::HasAt(height);
        let id = self.call(&op);
        let r = self.inner.has_at(height).await;
        self.ret(id, op, StoreRet::Bool(r));
        r
    }
    async fn update_sampling_metadata(&self, height: u64, cids: Vec<Cid>) -> Result<(), StoreError> {
        let op = StoreOp::UpdateSamplingMetadata(height, cids.clone());
        let id = self.call(&op);
        let r = self.inner.update_sampling_metadata(height, cids).await;
        self.ret(id, op, unit(&r));
        r
    }
    async fn get_sampling_metadata(&self, height: u64) -> Result<Option<SamplingMetadata>, StoreError> {
        let op = StoreOp::GetSamplingMetadata(height);
        let id = self.call(&op);
        let r = self.inner.get_sampling_metadata(height).await;
        let ret = match &r {
            Ok(m) => StoreRet::Metadata(m.as_ref().map(|m| m.cids.clone())),
            Err(e) => StoreRet::Err(store_err_kind(e)),
        };
        self.ret(id, op, ret);
        r
    }
    async fn mark_as_sampled(&self, height: u64) -> Result<(), StoreError> {
        let op = StoreOp::MarkAsSampled(height);
        let id = self.call(&op);
        let r = self.inner.mark_as_sampled(height).await;
        self.ret(id, op, unit(&r));
        r
    }
    async fn insert<R>(&self, headers: R) -> Result<(), StoreError>
    where
        R: TryInto<VerifiedExtendedHeaders> + Send,
        <R as TryInto<VerifiedExtendedHeaders>>::Error: Display,
    {
        // Same conversion (and the same error kind on failure) as the wrapped stores perform.
        let headers: VerifiedExtendedHeaders = match headers.try_into() {
            Ok(h) => h,
            Err(e) => {
                let op = StoreOp::Insert(Vec::new());
                let id = self.call(&op);
                let err = StoreInsertionError::HeadersVerificationFailed(e.to_string());
                self.ret(id, op, StoreRet::Err("HeadersVerificationFailed"));
                return Err(err.into());
            }
        };
        let op = StoreOp::Insert(
            headers
                .as_ref()
                .iter()
                .map(|h| (h.height(), h.hash()))
                .collect(),
        );
        let id = self.call(&op);
        let r = self.inner.insert(headers).await;
        self.ret(id, op, unit(&r));
        r
    }
    async fn get_stored_header_ranges(&self) -> Result<BlockRanges, StoreError> {
        let op = StoreOp::GetStoredHeaderRanges;
        let id = self.call(&op);
        let r = self.inner.get_stored_header_ranges().await;
        self.ret(id, op, ranges(&r));
        r
    }
    async fn get_sampled_ranges(&self) -> Result<BlockRanges, StoreError> {
        let op = StoreOp::GetSampledRanges;
        let id = self.call(&op);
        let r = self.inner.get_sampled_ranges().await;
        self.ret(id, op, ranges(&r));
        r
    }
    async fn get_pruned_ranges(&self) -> Result<BlockRanges, StoreError> {
        let op = StoreOp::GetPrunedRanges;
        let id = self.call(&op);
        let r = self.inner.get_pruned_ranges().await;
        self.ret(id, op, ranges(&r));
        r
    }
    async fn remove_height(&self, height: u64) -> Result<(), StoreError> {
        let op = StoreOp::RemoveHeight(height);
        let id = self.call(&op);
        let r = self.inner.remove_height(height).await;
        self.ret(id, op, unit(&r));
        r
    }
    async fn get_identity(&self) -> Result<Keypair, StoreError> {
        let op = StoreOp::GetIdentity;
        let id = self.call(&op);
        let r = self.inner.get_identity().await;
        let ret = match &r {
            Ok(_) => StoreRet::Identity,
            Err(e) => StoreRet::Err(store_err_kind(e)),
        };
        self.ret(id, op, ret);
        r
    }
    async fn close(self) -> Result<(), StoreError> {
        self.inner.close().await
    }
}

#[derive(Clone, Debug, PartialEq)]
pub enum BlockstoreEvent {
    Get { seq: u64, cid: Vec<u8>, found: Option<bool> },
    Put { seq: u64, cid: Vec<u8>, ok: bool },
    Remove { seq: u64, cid: Vec<u8>, ok: bool },
    Has { seq: u64, cid: Vec<u8>, found: Option<bool> },
}

/// `Blockstore` wrapper that reports completed operations (stamped after the reply) to `sink`.
/// CIDs are reported as their byte encoding.
pub struct LoggedBlockstore<B> {
    pub inner: B,
    clock: Arc<Clock>,
    sink: Sink<BlockstoreEvent>,
}

impl<B> LoggedBlockstore<B> {
    pub fn new(inner: B, clock: Arc<Clock>, sink: Sink<BlockstoreEvent>) -> Self {
        LoggedBlockstore { inner, clock, sink }
    }
}

impl<B: Blockstore> Blockstore for LoggedBlockstore<B> {
    async fn get<const S: usize>(&self, cid: &CidGeneric<S>) -> blockstore::Result<Option<Vec<u8>>> {
        let r = self.inner.get(cid).await;
        (self.sink)(BlockstoreEvent::Get {
            seq: self.clock.tick(),
            cid: cid.to_bytes(),
            found: r.as_ref().ok().map(|o| o.is_some()),
        });
        r
    }
    async fn put_keyed<const S: usize>(&self, cid: &CidGeneric<S>, data: &[u8]) -> blockstore::Result<()> {
        let r = self.inner.put_keyed(cid, data).await;
        (self.sink)(BlockstoreEvent::Put {
            seq: self.clock.tick(),
            cid: cid.to_bytes(),
            ok: r.is_ok(),
        });
        r
    }
    async fn remove<const S: usize>(&self, cid: &CidGeneric<S>) -> blockstore::Result<()> {
        let r = self.inner.remove(cid).await;
        (self.sink)(BlockstoreEvent::Remove {
            seq: self.clock.tick(),
            cid: cid.to_bytes(),
            ok: r.is_ok(),
        });
        r
    }
    async fn has<const S: usize>(&self, cid: &CidGeneric<S>) -> blockstore::Result<bool> {
        let r = self.inner.has(cid).await;
        (self.sink)(BlockstoreEvent::Has {
            seq: self.clock.tick(),
            cid: cid.to_bytes(),
            found: r.as_ref().ok().copied(),
        });
        r
    }
    async fn close(self) -> blockstore::Result<()> {
        self.inner.close().await
    }
}

/// Append-only, thread-safe event log keyed by the global clock.
pub struct EventLog<E> {
    events: std::sync::Mutex<Vec<E>>,
}

impl<E: Clone> EventLog<E> {
    pub fn new() -> Arc<Self> {
        Arc::new(EventLog {
            events: std::sync::Mutex::new(Vec::new()),
        })
    }
    pub fn push(&self, e: E) {
        self.events.lock().unwrap().push(e);
    }
    pub fn len(&self) -> usize {
        self.events.lock().unwrap().len()
    }
    pub fn snapshot(&self) -> Vec<E> {
        self.events.lock().unwrap().clone()
    }
    pub fn since(&self, from: usize) -> Vec<E> {
        self.events.lock().unwrap()[from..].to_vec()
    }
}
