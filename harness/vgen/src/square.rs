//! Original data squares with a realistic namespace layout, and brute-force accessors over the
//! raw square used as ground truth.

use celestia_types::consts::appconsts::{AppVersion, SHARE_SIZE};
use celestia_types::nmt::{NS_SIZE, Namespace};
use celestia_types::{Blob, ExtendedDataSquare, Share};
use vcore::{ChaCha8Rng, Rng, rand_bytes};

pub const ALL_APP_VERSIONS: [AppVersion; 7] = [
    AppVersion::V1,
    AppVersion::V2,
    AppVersion::V3,
    AppVersion::V4,
    AppVersion::V5,
    AppVersion::V6,
    AppVersion::V7,
];

pub fn random_app_version(rng: &mut ChaCha8Rng) -> AppVersion {
    ALL_APP_VERSIONS[rng.gen_range(0..ALL_APP_VERSIONS.len())]
}

/// Random non-reserved version-0 namespace. With `cluster`, ids share a long prefix so that
/// neighbouring namespaces are close in the order.
pub fn random_user_namespace(rng: &mut ChaCha8Rng, cluster: bool) -> Namespace {
    let mut id = [0u8; 10];
    if cluster {
        id[9] = rng.gen_range(1..=255);
        id[0] = 1; // above every primary reserved namespace
    } else {
        rng.fill(&mut id);
        if id[..9].iter().all(|b| *b == 0) {
            id[0] = 1;
        }
    }
    Namespace::new_v0(&id).unwrap()
}

/// A share that is not the start of a sequence, in `ns`, with random content.
pub fn raw_share(rng: &mut ChaCha8Rng, ns: &Namespace, info_byte: u8) -> Vec<u8> {
    let mut s = Vec::with_capacity(SHARE_SIZE);
    s.extend_from_slice(ns.as_bytes());
    s.push(info_byte);
    s.extend_from_slice(&rand_bytes(rng, SHARE_SIZE - NS_SIZE - 1));
    s
}

/// Namespace padding share (sequence start, version 0, zero content).
pub fn padding_share(ns: &Namespace) -> Vec<u8> {
    let mut s = Vec::with_capacity(SHARE_SIZE);
    s.extend_from_slice(ns.as_bytes());
    s.push(1);
    s.resize(SHARE_SIZE, 0);
    s
}

/// First/continuation capacity of sparse shares (v0, no signer).
pub const FIRST_CAP: usize = SHARE_SIZE - NS_SIZE - 1 - 4;
pub const CONT_CAP: usize = SHARE_SIZE - NS_SIZE - 1;

/// Shares of a real blob of exactly `n` shares in `ns` (share version 0).
pub fn blob_shares(rng: &mut ChaCha8Rng, ns: Namespace, n: usize, app: AppVersion) -> Vec<Vec<u8>> {
    assert!(n >= 1);
    let len = if n == 1 {
        rng.gen_range(1..=FIRST_CAP)
    } else {
        FIRST_CAP + (n - 2) * CONT_CAP + rng.gen_range(1..=CONT_CAP)
    };
    let blob = Blob::new(ns, rand_bytes(rng, len), None, app).expect("blob");
    let shares: Vec<Vec<u8>> = blob
        .to_shares()
        .expect("to_shares")
        .iter()
        .map(Share::to_vec)
        .collect();
    assert_eq!(shares.len(), n);
    shares
}

/// Description of what an ODS holds, for evidence samples and ground truth.
#[derive(Clone, Debug)]
pub struct OdsInfo {
    pub width: usize,
    /// Distinct namespaces present in the ODS, ascending.
    pub namespaces: Vec<Namespace>,
}

/// Generate an original data square of `width`×`width` shares in row-major order with
/// namespaces non-decreasing: optional transaction / pay-for-blob shares, primary reserved
/// padding, blobs (several per namespace, some spanning rows) with namespace padding, tail padding.
pub fn gen_ods(rng: &mut ChaCha8Rng, width: usize, app: AppVersion) -> (Vec<Vec<u8>>, OdsInfo) {
    let total = width * width;
    let mut shares: Vec<Vec<u8>> = Vec::with_capacity(total);

    if total == 1 {
        match rng.gen_range(0..3) {
            0 => shares.push(padding_share(&Namespace::TAIL_PADDING)),
            1 => shares.push(raw_share(rng, &Namespace::TRANSACTION, 1)),
            _ => {
                let ns = random_user_namespace(rng, false);
                shares.extend(blob_shares(rng, ns, 1, app));
            }
        }
    } else {
        if rng.gen_bool(0.7) {
            let n_tx = rng.gen_range(0..=3.min(total / 4));
            for i in 0..n_tx {
                shares.push(raw_share(rng, &Namespace::TRANSACTION, (i == 0) as u8));
            }
            let n_pfb = rng.gen_range(0..=3.min(total / 4));
            for i in 0..n_pfb {
                shares.push(raw_share(rng, &Namespace::PAY_FOR_BLOB, (i == 0) as u8));
            }
            let n_pad = rng.gen_range(0..=2.min(total / 4));
            for _ in 0..n_pad {
                shares.push(padding_share(&Namespace::PRIMARY_RESERVED_PADDING));
            }
        }
        let cluster = rng.gen_bool(0.5);
        let n_ns = rng.gen_range(0..=8usize);
        let mut nss: Vec<Namespace> = (0..n_ns).map(|_| random_user_namespace(rng, cluster)).collect();
        nss.sort();
        nss.dedup();
        // leave a random amount of room for tail padding (possibly none)
        let budget = total - rng.gen_range(0..=(total / 3));
        'outer: for ns in nss {
            let n_blobs = rng.gen_range(1..=3);
            for _ in 0..n_blobs {
                let room = budget.saturating_sub(shares.len());
                if room == 0 {
                    break 'outer;
                }
                let max = room.min(2 * width + 1);
                let n = rng.gen_range(1..=max);
                shares.extend(blob_shares(rng, ns, n, app));
                let room = budget.saturating_sub(shares.len());
                let pad = rng.gen_range(0..=3.min(room));
                for _ in 0..pad {
                    shares.push(padding_share(&ns));
                }
            }
        }
        while shares.len() < total {
            shares.push(padding_share(&Namespace::TAIL_PADDING));
        }
    }
    assert_eq!(shares.len(), total);
    let mut namespaces: Vec<Namespace> = shares
        .iter()
        .map(|s| Namespace::from_raw(&s[..NS_SIZE]).unwrap())
        .collect();
    namespaces.dedup();
    (
        shares,
        OdsInfo {
            width,
            namespaces,
        },
    )
}

/// A random extended square with original width `ods_width`.
pub fn gen_eds(
    rng: &mut ChaCha8Rng,
    ods_width: usize,
    app: AppVersion,
) -> (ExtendedDataSquare, Vec<Vec<u8>>, OdsInfo) {
    let (ods, info) = gen_ods(rng, ods_width, app);
    let eds = ExtendedDataSquare::from_ods(ods.clone(), app).expect("valid ODS must extend");
    (eds, ods, info)
}

/// Ground truth: raw bytes of the share at `(row, col)` of the extended square.
pub fn share_bytes(eds: &ExtendedDataSquare, row: usize, col: usize) -> &[u8; SHARE_SIZE] {
    let w = eds.square_width() as usize;
    eds.data_square()[row * w + col].data()
}

/// Ground truth: is `(row, col)` in the original (first) quadrant?
pub fn in_ods(eds: &ExtendedDataSquare, row: usize, col: usize) -> bool {
    let w = eds.square_width() as usize;
    row < w / 2 && col < w / 2
}

/// Ground truth: the namespace bytes a share is committed under in the row/column trees
/// (its own namespace in the first quadrant, the parity namespace elsewhere).
pub fn committed_namespace(eds: &ExtendedDataSquare, row: usize, col: usize) -> [u8; NS_SIZE] {
    if in_ods(eds, row, col) {
        share_bytes(eds, row, col)[..NS_SIZE].try_into().unwrap()
    } else {
        [0xff; NS_SIZE]
    }
}

/// Ground truth by brute-force scan: for every row whose committed namespace range covers `ns`,
/// the raw shares of `ns` in that row, in row order. Returns `(row index, shares)`.
pub fn scan_namespace(eds: &ExtendedDataSquare, ns: &Namespace) -> Vec<(usize, Vec<Vec<u8>>)> {
    let w = eds.square_width() as usize;
    let nsb: [u8; NS_SIZE] = ns.as_bytes().try_into().unwrap();
    let mut out = Vec::new();
    for row in 0..w / 2 {
        let min: [u8; NS_SIZE] = committed_namespace(eds, row, 0);
        let max: [u8; NS_SIZE] = committed_namespace(eds, row, w / 2 - 1);
        if nsb < min || nsb > max {
            continue;
        }
        let shares: Vec<Vec<u8>> = (0..w / 2)
            .filter(|c| committed_namespace(eds, row, *c) == nsb)
            .map(|c| share_bytes(eds, row, c).to_vec())
            .collect();
        out.push((row, shares));
    }
    out
}
