//! Generators shared by the monitors: signed header chains with several validators and
//! original data squares with a realistic namespace layout. Ground truth (who signed,
//! which share sits where) is known by construction, never recomputed with the code under test.

pub mod chain;
pub mod square;

pub use chain::*;
pub use square::*;
