//! Multi-validator signed `ExtendedHeader` chains.

use std::time::Duration;

use celestia_types::block::CommitExt;
use celestia_types::hash::{Hash, HashExt};
use celestia_types::{DataAvailabilityHeader, ExtendedDataSquare, ExtendedHeader, ValidatorSet};
use ed25519_consensus::SigningKey;
use tendermint::block::header::{Header, Version};
use tendermint::block::{Commit, CommitSig, parts};
use tendermint::public_key::PublicKey;
use tendermint::{Signature, Time, account, chain};
use vcore::{ChaCha8Rng, Rng};

pub const BLOCK_PROTOCOL: u64 = 11;

/// A validator with its signing key (ground truth: only this key makes valid signatures).
#[derive(Clone)]
pub struct Val {
    pub key: SigningKey,
    pub power: u64,
}

impl Val {
    pub fn new(rng: &mut ChaCha8Rng, power: u64) -> Val {
        let mut seed = [0u8; 32];
        rng.fill(&mut seed);
        Val {
            key: SigningKey::from(seed),
            power,
        }
    }
    pub fn pub_key(&self) -> PublicKey {
        PublicKey::from_raw_ed25519(&self.key.verification_key().to_bytes()).unwrap()
    }
    pub fn address(&self) -> account::Id {
        account::Id::from(self.pub_key())
    }
    pub fn info(&self) -> tendermint::validator::Info {
        tendermint::validator::Info {
            address: self.address(),
            pub_key: self.pub_key(),
            power: u32::try_from(self.power)
                .map(Into::into)
                .unwrap_or_else(|_| tendermint::vote::Power::try_from(self.power).unwrap()),
            name: None,
            proposer_priority: 0_i64.into(),
        }
    }
}

/// How the validator at some index of the set behaves in the commit.
#[derive(Clone, Copy, Debug, PartialEq, Eq, Hash)]
pub enum Flag {
    /// Signs the block (BlockIdFlagCommit, valid signature).
    Commit,
    /// Votes nil (BlockIdFlagNil with a valid nil-vote signature over the same sign bytes layout).
    Nil,
    /// Absent.
    Absent,
    /// BlockIdFlagCommit carrying a signature made with a different (unknown) key.
    Forged,
}

/// Build the tendermint validator set for `vals`. Note that `ValidatorSet::new` sorts validators
/// (by power descending, then address); use [`sorted`] to get `vals` in the set's order.
pub fn validator_set(vals: &[Val]) -> ValidatorSet {
    let infos: Vec<_> = vals.iter().map(|v| v.info()).collect();
    let proposer = infos.first().cloned();
    ValidatorSet::new(infos, proposer)
}

/// `vals` re-ordered to the order of `validator_set(vals).validators()`.
pub fn sorted(vals: &[Val]) -> Vec<Val> {
    let set = validator_set(vals);
    set.validators()
        .iter()
        .map(|info| {
            vals.iter()
                .find(|v| v.address() == info.address)
                .expect("validator in set")
                .clone()
        })
        .collect()
}

pub fn random_hash(rng: &mut ChaCha8Rng) -> Hash {
    Hash::Sha256(rng.r#gen())
}

pub fn random_block_id(rng: &mut ChaCha8Rng) -> tendermint::block::Id {
    tendermint::block::Id {
        hash: random_hash(rng),
        part_set_header: parts::Header::new(1, random_hash(rng)).unwrap(),
    }
}

pub fn empty_dah() -> DataAvailabilityHeader {
    DataAvailabilityHeader::from_eds(&ExtendedDataSquare::empty())
}

/// Parameters of one header.
pub struct HeaderSpec<'a> {
    pub chain_id: &'a chain::Id,
    pub height: u64,
    pub time: Time,
    pub app_version: u64,
    /// `last_block_id` (None only for height 1).
    pub last_block_id: Option<tendermint::block::Id>,
    /// Validators of this block (any order; they are put in set order).
    pub vals: &'a [Val],
    /// Validators of the next block.
    pub next_vals: &'a [Val],
    pub dah: DataAvailabilityHeader,
    /// Behaviour per validator, in *set order* (`sorted(vals)`); missing entries mean `Commit`.
    pub flags: &'a [Flag],
}

/// Build and sign a header. All hash-covered links (validators hash, next validators hash,
/// data hash, commit block id) are consistent, so with all-`Commit` flags it validates.
pub fn build_header(rng: &mut ChaCha8Rng, spec: HeaderSpec<'_>) -> ExtendedHeader {
    let vals = sorted(spec.vals);
    let set = validator_set(&vals);
    let next_set = validator_set(spec.next_vals);
    let height: tendermint::block::Height = spec.height.try_into().unwrap();

    let signatures = vals
        .iter()
        .enumerate()
        .map(|(i, v)| {
            let flag = spec.flags.get(i).copied().unwrap_or(Flag::Commit);
            match flag {
                Flag::Commit | Flag::Forged => CommitSig::BlockIdFlagCommit {
                    validator_address: v.address(),
                    timestamp: spec.time,
                    signature: None,
                },
                Flag::Nil => CommitSig::BlockIdFlagNil {
                    validator_address: v.address(),
                    timestamp: spec.time,
                    signature: None,
                },
                Flag::Absent => CommitSig::BlockIdFlagAbsent,
            }
        })
        .collect();

    let mut header = ExtendedHeader {
        header: Header {
            version: Version {
                block: BLOCK_PROTOCOL,
                app: spec.app_version,
            },
            chain_id: spec.chain_id.clone(),
            height,
            time: spec.time,
            last_block_id: spec.last_block_id,
            last_commit_hash: Some(Hash::default_sha256()),
            data_hash: Some(spec.dah.hash()),
            validators_hash: set.hash(),
            next_validators_hash: next_set.hash(),
            consensus_hash: random_hash(rng),
            app_hash: Hash::default_sha256()
                .as_bytes()
                .to_vec()
                .try_into()
                .unwrap(),
            last_results_hash: Some(Hash::default_sha256()),
            evidence_hash: Some(Hash::default_sha256()),
            proposer_address: vals[0].address(),
        },
        commit: Commit {
            height,
            round: 0_u16.into(),
            block_id: tendermint::block::Id {
                hash: Hash::None,
                part_set_header: parts::Header::new(1, random_hash(rng)).unwrap(),
            },
            signatures,
        },
        validator_set: set,
        dah: spec.dah,
    };
    header.commit.block_id.hash = header.header.hash();
    sign_commit(rng, &mut header, &vals, spec.flags);
    header
}

/// (Re-)sign every non-absent commit signature of `header` with the key of the validator at the
/// same index of `vals` (set order). `Forged` entries are signed with a fresh unrelated key.
pub fn sign_commit(rng: &mut ChaCha8Rng, header: &mut ExtendedHeader, vals: &[Val], flags: &[Flag]) {
    let chain_id = header.header.chain_id.clone();
    for i in 0..header.commit.signatures.len() {
        if matches!(header.commit.signatures[i], CommitSig::BlockIdFlagAbsent) {
            continue;
        }
        let bytes = header.commit.vote_sign_bytes(&chain_id, i).unwrap();
        let forged = flags.get(i) == Some(&Flag::Forged);
        let sig = if forged {
            Val::new(rng, 1).key.sign(&bytes).to_bytes()
        } else {
            vals[i].key.sign(&bytes).to_bytes()
        };
        match &mut header.commit.signatures[i] {
            CommitSig::BlockIdFlagCommit { signature, .. }
            | CommitSig::BlockIdFlagNil { signature, .. } => {
                *signature = Some(Signature::new(sig).unwrap().unwrap());
            }
            CommitSig::BlockIdFlagAbsent => {}
        }
    }
}

/// Re-sign the single commit signature `i` of `header` with `key` (after the caller changed
/// something the signature covers).
pub fn resign_one(header: &mut ExtendedHeader, i: usize, key: &SigningKey) {
    let chain_id = header.header.chain_id.clone();
    let bytes = header.commit.vote_sign_bytes(&chain_id, i).unwrap();
    let sig = key.sign(&bytes).to_bytes();
    if let CommitSig::BlockIdFlagCommit { signature, .. }
    | CommitSig::BlockIdFlagNil { signature, .. } = &mut header.commit.signatures[i]
    {
        *signature = Some(Signature::new(sig).unwrap().unwrap());
    }
}

/// A growing honest chain.
pub struct ChainGen {
    pub rng: ChaCha8Rng,
    pub chain_id: chain::Id,
    pub app_version: u64,
    /// Validators signing the *next* header to be generated.
    pub vals: Vec<Val>,
    pub time: Time,
    pub block_time: Duration,
    pub headers: Vec<ExtendedHeader>,
    /// Validator set (unsorted, as given) that signed `headers[i]`.
    pub signers: Vec<Vec<Val>>,
    pub next_height: u64,
}

impl ChainGen {
    /// `start_time` is the time of the first generated header.
    pub fn new(
        mut rng: ChaCha8Rng,
        chain_id: &str,
        app_version: u64,
        powers: &[u64],
        start_height: u64,
        start_time: Time,
        block_time: Duration,
    ) -> ChainGen {
        let vals = powers.iter().map(|p| Val::new(&mut rng, *p)).collect();
        ChainGen {
            rng,
            chain_id: chain_id.try_into().unwrap(),
            app_version,
            vals,
            time: start_time,
            block_time,
            headers: Vec::new(),
            signers: Vec::new(),
            next_height: start_height,
        }
    }

    /// A chain whose last header is `back_from_now` in the past when `n` headers are generated.
    pub fn start_time_for(n: u64, block_time: Duration, back_from_now: Duration) -> Time {
        let total = block_time * (n.saturating_sub(1) as u32) + back_from_now;
        Time::now().checked_sub(total).unwrap()
    }

    pub fn last(&self) -> Option<&ExtendedHeader> {
        self.headers.last()
    }

    /// Generate the next header; `next_vals` (if given) become the validators of the header after.
    pub fn next_with(
        &mut self,
        dah: Option<DataAvailabilityHeader>,
        next_vals: Option<Vec<Val>>,
        flags: &[Flag],
    ) -> ExtendedHeader {
        let next_vals = next_vals.unwrap_or_else(|| self.vals.clone());
        let last_block_id = match self.headers.last() {
            Some(h) => Some(h.commit.block_id),
            None if self.next_height == 1 => None,
            None => Some(random_block_id(&mut self.rng)),
        };
        let h = build_header(
            &mut self.rng,
            HeaderSpec {
                chain_id: &self.chain_id,
                height: self.next_height,
                time: self.time,
                app_version: self.app_version,
                last_block_id,
                vals: &self.vals,
                next_vals: &next_vals,
                dah: dah.unwrap_or_else(empty_dah),
                flags,
            },
        );
        self.signers.push(self.vals.clone());
        self.vals = next_vals;
        self.next_height += 1;
        self.time = (self.time + self.block_time).unwrap();
        self.headers.push(h.clone());
        h
    }

    pub fn next(&mut self) -> ExtendedHeader {
        self.next_with(None, None, &[])
    }

    pub fn next_many(&mut self, n: u64) -> Vec<ExtendedHeader> {
        (0..n).map(|_| self.next()).collect()
    }

    /// Independent generator continuing from the current tip with fresh randomness (a fork of the
    /// same validators: headers at the same heights differ in `consensus_hash` etc.).
    pub fn fork(&self, stream: u64) -> ChainGen {
        use vcore::SeedableRng;
        let mut seed = [0u8; 32];
        seed[..8].copy_from_slice(&stream.to_le_bytes());
        seed[8..16].copy_from_slice(&self.next_height.to_le_bytes());
        ChainGen {
            rng: ChaCha8Rng::from_seed(seed),
            chain_id: self.chain_id.clone(),
            app_version: self.app_version,
            vals: self.vals.clone(),
            time: self.time,
            block_time: self.block_time,
            headers: self.headers.clone(),
            signers: self.signers.clone(),
            next_height: self.next_height,
        }
    }
}

/// Random powers with a bias towards interesting splits.
pub fn random_powers(rng: &mut ChaCha8Rng, n: usize) -> Vec<u64> {
    match rng.gen_range(0..5) {
        0 => vec![rng.gen_range(1..1000); n],
        1 => (0..n).map(|_| rng.gen_range(1..10)).collect(),
        2 => {
            let mut v: Vec<u64> = (0..n).map(|_| rng.gen_range(1..100)).collect();
            v[0] = rng.gen_range(1000..100_000);
            v
        }
        3 => (0..n).map(|_| rng.gen_range(1..1_000_000_000)).collect(),
        _ => (0..n).map(|_| 1 + (rng.r#gen::<u64>() % 50)).collect(),
    }
}
