"""Registry of the property monitors: which harness binary decides a property, the claimed
level, extra build profiles and secondary (sanitizer/Miri) monitors of the thorough tier.
MANIFEST.json is generated from this file by gen_manifest.py."""

PROPS = {}


def P(pid, bin, level="exploration", also_release=False, secondary=(), watchdog=None, **kw):
    d = {"bin": bin, "level": level, "also_release": also_release, "secondary": list(secondary)}
    if watchdog:
        d["watchdog_s"] = watchdog
    d.update(kw)
    PROPS[pid] = d


P("C17", "vn", also_release=True, secondary=("miri",),
  technique="runtime monitoring: online comparison of every BlockRanges operation against an executable interval-set model + representation-invariant assertion; exhaustive small universe and boundary-pool random histories",
  design_ref="DESIGN.md §5 C17",
  level_text="Exploration: each of the 1024 subsets of heights 1..10 is driven through every operation and argument 0..12, plus random histories over a u64 boundary pool, under a build with overflow checks and debug assertions (and plain release in thorough); the result, full content and representation invariant are compared with a model after every call. Held = no divergence on the executions explored.",
  level_note="Trusted: the ISet model in harness/vn/src/c17.rs (u128 interval arithmetic); crate-private operations reached through pass-through hook wrappers.")

# Entries delivered per property group live in props.d/*.py (same P(...) calls).
import glob as _glob
import os as _os
for _f in sorted(_glob.glob(_os.path.join(_os.path.dirname(_os.path.abspath(__file__)), "props.d", "*.py"))):
    exec(compile(open(_f).read(), _f, "exec"))

# Properties not claimed, with the reason (everything else not in PROPS gets a default text).
NOT_CLAIMED = {}
